"""Shared machinery of every check: build + audit of the Lean library, the model driver, the
correspondence loop, verdict logic, known findings, evidence and replay files.

Exit codes of a check: 0 property held on everything explored, 1 VIOLATION printed,
2 infrastructure problem / timeout (never a violation).
"""
import concurrent.futures as cf
import fcntl
import hashlib
import importlib
import json
import os
import signal
import threading
import random
import re
import shutil
import subprocess
import sys
import tempfile
import time
import traceback

HERE = os.path.dirname(os.path.abspath(__file__))
ROOT = os.path.dirname(HERE)
LEAN_DIR = os.path.join(ROOT, 'lean')
REPO = os.environ.get('VERIF_REPO', '/repo')
ALLOWED_AXIOMS = {'propext', 'Classical.choice', 'Quot.sound'}
FORBIDDEN = re.compile(r'\b(sorry|admit|native_decide|bv_decide|implemented_by|unsafe)\b|^\s*axiom\s|maxHeartbeats\s+0\b')
TRUSTED_BASE = [
    'Lean 4.33.0 kernel (lake build; thorough tier additionally leanchecker)',
    'axioms allowed in property theorems: propext, Classical.choice, Quot.sound (audited by #print axioms every run)',
    'hand-written Lean models: faithfulness to the Python is checked by the correspondence on generated inputs only',
    'harness: generator, canonicalisation, raw-h5py read-back, Python oracles, line protocol driver',
]


class Infra(Exception):
    pass


def derived_rng(seed, prop, idx):
    h = hashlib.sha256(('%s|%s|%s' % (seed, prop, idx)).encode()).digest()
    return random.Random(int.from_bytes(h[:8], 'big'))


# --------------------------------------------------------------------------------------------
# Lean side
# --------------------------------------------------------------------------------------------

def _lock():
    os.makedirs(os.path.join(LEAN_DIR, '.lake'), exist_ok=True)
    f = open(os.path.join(LEAN_DIR, '.lake', 'verif.lock'), 'w')
    fcntl.flock(f, fcntl.LOCK_EX)
    return f


def run_translator():
    """regenerate Usid/Generated/*.lean from /repo's current source; returns list of problems"""
    sys.path.insert(0, HERE)
    import py2lean
    return py2lean.generate_all(REPO, os.path.join(LEAN_DIR, 'Usid', 'Generated'))


def lake_build(targets=('Usid',), timeout=1500):
    """returns (ok, log)"""
    lk = _lock()
    try:
        p = subprocess.run(['lake', 'build'] + list(targets), cwd=LEAN_DIR, stdout=subprocess.PIPE,
                           stderr=subprocess.STDOUT, text=True, timeout=timeout)
        return p.returncode == 0, p.stdout
    except subprocess.TimeoutExpired:
        raise Infra('lake build timed out')
    finally:
        lk.close()


def strip_comments(src):
    src = re.sub(r'/-.*?-/', '', src, flags=re.S)
    return re.sub(r'--.*', '', src)


def grep_forbidden():
    hits = []
    for dp, _, fns in os.walk(os.path.join(LEAN_DIR, 'Usid')):
        for fn in fns:
            if fn.endswith('.lean'):
                p = os.path.join(dp, fn)
                for i, line in enumerate(strip_comments(open(p).read()).splitlines()):
                    if FORBIDDEN.search(line):
                        hits.append('%s:%d: %s' % (os.path.relpath(p, LEAN_DIR), i + 1, line.strip()))
    for fn in ('Main.lean',):
        p = os.path.join(LEAN_DIR, fn)
        if os.path.exists(p):
            for i, line in enumerate(strip_comments(open(p).read()).splitlines()):
                if FORBIDDEN.search(line):
                    hits.append('%s:%d: %s' % (fn, i + 1, line.strip()))
    return hits


def property_theorems(prop):
    """names of the theorems in Usid/Properties/<prop>.lean (the proof obligations of the property)"""
    p = os.path.join(LEAN_DIR, 'Usid', 'Properties', prop + '.lean')
    if not os.path.exists(p):
        return []
    src = strip_comments(open(p).read())
    ns = re.findall(r'^namespace\s+(\S+)', src, flags=re.M)
    prefix = (ns[0] + '.') if ns else ''
    return [prefix + n for n in re.findall(r'^(?:protected\s+)?theorem\s+(\S+)', src, flags=re.M)]


def audit(prop):
    """returns dict name -> sorted list of axioms (None if the theorem could not be checked)"""
    names = property_theorems(prop)
    if not names:
        return {}
    tmp = tempfile.mkdtemp(prefix='verif_audit_')
    try:
        f = os.path.join(tmp, 'Audit.lean')
        with open(f, 'w') as fh:
            fh.write('import Usid.Properties.%s\n' % prop)
            for n in names:
                fh.write('#print axioms %s\n' % n)
        p = subprocess.run(['lake', 'env', 'lean', f], cwd=LEAN_DIR, stdout=subprocess.PIPE,
                           stderr=subprocess.STDOUT, text=True, timeout=600)
        out = p.stdout
    finally:
        shutil.rmtree(tmp, ignore_errors=True)
    res = {n: None for n in names}
    # "'X' depends on axioms: [a, b]"  or "'X' does not depend on any axioms"
    for m in re.finditer(r"'([^']+)' depends on axioms: \[(.*?)\]", out, flags=re.S):
        res[m.group(1)] = sorted(a.strip() for a in m.group(2).replace('\n', ' ').split(',') if a.strip())
    for m in re.finditer(r"'([^']+)' does not depend on any axioms", out):
        res[m.group(1)] = []
    return res


_driver_ready = False


def run_driver(requests, main='Main.lean', timeout=1200):
    """pipe JSON request lines through the Lean model driver; returns list of parsed responses"""
    if not requests:
        return []
    data = '\n'.join(json.dumps(r, separators=(',', ':')) for r in requests) + '\n'
    p = subprocess.run(['lake', 'env', 'lean', '--run', main], cwd=LEAN_DIR, input=data,
                       stdout=subprocess.PIPE, stderr=subprocess.PIPE, text=True, timeout=timeout)
    lines = [l for l in p.stdout.splitlines() if l.strip()]
    if p.returncode != 0 or len(lines) != len(requests):
        raise DriverBroken('driver returned %d lines for %d requests (rc=%d): %s' %
                           (len(lines), len(requests), p.returncode, (p.stderr or p.stdout)[-2000:]))
    out = []
    for l in lines:
        try:
            out.append(json.loads(l))
        except Exception:
            out.append({'driver_error': l[:500]})
    return out


class DriverBroken(Exception):
    pass


# --------------------------------------------------------------------------------------------
# known findings
# --------------------------------------------------------------------------------------------

def load_known(prop):
    p = os.path.join(ROOT, 'known_findings.json')
    if not os.path.exists(p):
        return []
    return [e for e in json.load(open(p)).get('findings', []) if e.get('property') == prop]


# --------------------------------------------------------------------------------------------
# canonical JSON
# --------------------------------------------------------------------------------------------

def canon(x):
    """make numpy-ish things JSON-able and deterministic"""
    import numpy as np
    if isinstance(x, dict):
        return {str(k): canon(v) for k, v in sorted(x.items(), key=lambda kv: str(kv[0]))}
    if isinstance(x, (list, tuple)):
        return [canon(v) for v in x]
    if isinstance(x, np.ndarray):
        return canon(x.tolist())
    if isinstance(x, (np.integer,)):
        return int(x)
    if isinstance(x, (np.bool_,)):
        return bool(x)
    if isinstance(x, (np.floating,)):
        f = float(x)
        return int(f) if f == int(f) else f
    if isinstance(x, bytes):
        return x.decode()
    if isinstance(x, float) and x == int(x):
        return int(x)
    return x


def jdump(x):
    return json.dumps(canon(x), sort_keys=True, separators=(',', ':'))


ERR_ENUM = {
    'TypeError': 'typeErr', 'ValueError': 'valueErr', 'KeyError': 'keyErr', 'IndexError': 'indexErr',
    'NotImplementedError': 'notImpl', 'AttributeError': 'attrErr', 'ZeroDivisionError': 'zeroDiv',
    'OSError': 'osErr', 'FileExistsError': 'osErr', 'FileNotFoundError': 'osErr', 'PermissionError': 'osErr',
}


def err_of(exc):
    for cls in type(exc).__mro__:
        if cls.__name__ in ERR_ENUM:
            return ERR_ENUM[cls.__name__]
    return 'other'


# --------------------------------------------------------------------------------------------
# worker: run the implementation (+oracle) on one case
# --------------------------------------------------------------------------------------------

class CaseTimeout(BaseException):
    pass


def _case_alarm(signum, frame):
    raise CaseTimeout()


def impl_raised(obs):
    return isinstance(obs, dict) and 'impl_exception' in obs and len(obs) <= 2


def _impl_worker(args):
    modname, idx, inp = args
    mod = importlib.import_module('props.' + modname)
    work = tempfile.mkdtemp(prefix='verif_%s_' % modname)
    cwd = os.getcwd()
    try:
        os.chdir(work)
        limit = int(getattr(mod, 'CASE_TIMEOUT', 300))
        use_alarm = not getattr(mod, 'OWN_ALARM', False) and hasattr(signal, 'SIGALRM') and \
            threading.current_thread() is threading.main_thread()
        try:
            if use_alarm:
                signal.signal(signal.SIGALRM, _case_alarm)
                signal.setitimer(signal.ITIMER_REAL, limit, 5)      # repeating: a swallowed alarm comes again
            try:
                obs = mod.run_impl(inp, work)
            finally:
                if use_alarm:
                    signal.setitimer(signal.ITIMER_REAL, 0)
        except CaseTimeout:
            # a call into the library that does not come back (a dead-locked worker pool, a loop that never advances):
            # reported as a failure of that case, never as a hanging check
            return idx, {'impl_exception': 'Timeout', 'where': 'no return within %d s' % limit}, \
                ['hang: the library did not return within %d s on this case' % limit], True
        except Exception as e:
            # run_impl catches the errors the library is ALLOWED to raise.  What arrives here is either a defect of the
            # harness (no frame of the library on the stack: infrastructure, exit 2) or the library raising inside a
            # call that succeeds for every generated input on the unchanged tree: that is an observation, and the
            # case is its replay
            tb = traceback.extract_tb(e.__traceback__)
            lib = [fr for fr in tb if '/pyUSID/' in fr.filename and '/verif/' not in fr.filename]
            if lib:
                where = '%s:%s' % (lib[-1].filename.split('/pyUSID/')[-1], lib[-1].name)
                return idx, {'impl_exception': type(e).__name__, 'where': where}, \
                    ['unexpected-exception: the library raised %s in %s during a call that must succeed: %s'
                     % (type(e).__name__, where, repr(e)[:300])], True
            return idx, None, ['HARNESS-EXCEPTION ' + repr(e) + '\n' + traceback.format_exc()[-1500:]], False
        obs = canon(obs)
        try:
            fails = list(mod.oracle(inp, obs))
        except Exception as e:
            # the oracle reads what the library returned; when it cannot (an array of another shape than the labels
            # promise, a missing entry ...) the observation itself is malformed - on the unchanged tree this never happens
            fails = ['observation-unreadable: the oracle could not evaluate what the library returned (%s: %s)'
                     % (type(e).__name__, str(e)[:200])]
        nontriv = bool(mod.nontrivial(inp, obs)) if hasattr(mod, 'nontrivial') else True
        return idx, obs, fails, nontriv
    finally:
        os.chdir(cwd)
        shutil.rmtree(work, ignore_errors=True)


def run_impl_cases(modname, cases, jobs=None, timeout=3000):
    """cases: list of inputs. returns list of (obs, fails, nontrivial)"""
    jobs = jobs or int(os.environ.get('VERIF_JOBS', '12'))
    res = [None] * len(cases)
    mod = importlib.import_module('props.' + modname)
    if getattr(mod, 'SERIAL', False) or jobs <= 1 or len(cases) < 8:
        for i, c in enumerate(cases):
            _, o, f, n = _impl_worker((modname, i, c))
            res[i] = (o, f, n)
        return res
    import multiprocessing as mp
    ctx = mp.get_context('fork')
    with cf.ProcessPoolExecutor(max_workers=jobs, mp_context=ctx) as ex:
        for idx, o, f, n in ex.map(_impl_worker, [(modname, i, c) for i, c in enumerate(cases)], chunksize=4,
                                   timeout=timeout):
            res[idx] = (o, f, n)
    return res


# --------------------------------------------------------------------------------------------
# the check
# --------------------------------------------------------------------------------------------

def write_replay(prop, payload):
    d = os.path.join(ROOT, 'replays')
    os.makedirs(d, exist_ok=True)
    h = hashlib.sha256(jdump(payload).encode()).hexdigest()[:12]
    p = os.path.join(d, '%s_%s.json' % (prop, h))
    with open(p, 'w') as fh:
        json.dump(canon(payload), fh, indent=1, sort_keys=True)
    return p


def load_corpus(prop):
    d = os.path.join(ROOT, 'corpus', prop)
    out = []
    if os.path.isdir(d):
        for fn in sorted(os.listdir(d)):
            if fn.endswith('.jsonl'):
                for line in open(os.path.join(d, fn)):
                    line = line.strip()
                    if line and not line.startswith('#'):
                        out.append(json.loads(line))
    return out


def model_observations(mod, cases):
    """returns list of model observations (or raises DriverBroken)"""
    reqs, spans = [], []
    for c in cases:
        rs = mod.model_requests(c)
        spans.append((len(reqs), len(reqs) + len(rs)))
        reqs.extend(rs)
    resp = run_driver(reqs, main=getattr(mod, 'DRIVER', 'Main.lean'))
    return [canon(mod.model_obs(c, resp[a:b])) for c, (a, b) in zip(cases, spans)]


def match_known(mod, known, inp, obs, failure):
    for e in known:
        if e.get('status') != 'known':
            continue
        pred = getattr(mod, 'KNOWN_CLASSES', {}).get(e.get('class'))
        if pred is not None:
            try:
                if pred(inp, obs, failure):
                    return e
            except Exception:
                pass
    return None


def run_check(prop, tier='quick', seed=0, replay=None):
    t0 = time.time()
    sys.path.insert(0, HERE)
    mod = importlib.import_module('props.' + prop)
    known = load_known(prop)
    violations = []          # (kind, replay_path)
    broken = []              # names of obligations / correspondences that no longer check
    notes = []

    # ---- 1. build (translator first) ----------------------------------------------------
    try:
        tr_problems = run_translator() if getattr(mod, 'USES_TRANSLATOR', False) else []
    except Exception as e:
        tr_problems = ['translator crashed: %r' % (e,)]
    for pbl in tr_problems:
        broken.append('translator: ' + pbl)
    drv = 'Usid.DriverGen' if getattr(mod, 'DRIVER', 'Main.lean') == 'MainGen.lean' else 'Usid.Driver'
    ok, log = lake_build((drv, 'Usid.Properties.' + prop))
    build_ok = ok
    if not ok:
        errs = [l for l in log.splitlines() if 'error' in l.lower()][:20]
        broken.append('lake build failed: ' + ' | '.join(errs)[:1500])
    # ---- 2. audit -----------------------------------------------------------------------
    ax = {}
    if build_ok:
        hits = grep_forbidden()
        if hits:
            broken.append('forbidden token(s) in Lean sources: ' + '; '.join(hits[:5]))
        ax = audit(prop)
        for n, a in ax.items():
            if a is None:
                broken.append('theorem %s: axioms could not be printed' % n)
            elif not set(a) <= ALLOWED_AXIOMS:
                broken.append('theorem %s depends on disallowed axioms %s' % (n, a))
        required = getattr(mod, 'REQUIRED_THEOREMS', [])
        for n in required:
            if n not in ax:
                broken.append('required theorem %s is missing from Properties/%s.lean' % (n, prop))
    leanchecker = None
    if build_ok and tier == 'thorough':
        try:
            pr = subprocess.run(['lake', 'env', 'leanchecker', 'Usid.Properties.' + prop], cwd=LEAN_DIR,
                                stdout=subprocess.PIPE, stderr=subprocess.STDOUT, text=True, timeout=1800)
            leanchecker = 'ok' if pr.returncode == 0 else 'FAILED: ' + pr.stdout[-500:]
            if pr.returncode != 0:
                broken.append('leanchecker rejected Usid.Properties.%s' % prop)
        except subprocess.TimeoutExpired:
            leanchecker = 'timeout'
    obligations = len(ax)
    discharged = sum(1 for a in ax.values() if a is not None and set(a) <= ALLOWED_AXIOMS)

    # ---- 3. cases -----------------------------------------------------------------------
    if replay:
        rp = json.load(open(replay))
        cases = [rp['input']] if 'input' in rp else []
    else:
        cases = load_corpus(prop)
        ncorp = len(cases)
        gen = mod.generate(seed, tier)
        cases.extend(gen)
    # ---- 4. implementation + oracle -----------------------------------------------------
    results = run_impl_cases(prop, cases)
    harness_errors = [(i, f) for i, (o, f, n) in enumerate(results) if o is None]
    if harness_errors:
        i, f = harness_errors[0]
        print('INFRA: harness exception on case %d: %s' % (i, f[0][:3000]))
        return 2
    # ---- 5. model -----------------------------------------------------------------------
    disagreements = []
    model_obs = [None] * len(cases)
    disagreement_notes = {}
    if build_ok:
        try:
            if hasattr(mod, 'model_requests_obs'):
                reqs, spans = [], []
                for c, r in zip(cases, results):
                    rs = [] if impl_raised(r[0]) else mod.model_requests_obs(c, r[0])
                    spans.append((len(reqs), len(reqs) + len(rs)))
                    reqs.extend(rs)
                resp = run_driver(reqs, main=getattr(mod, 'DRIVER', 'Main.lean'))
                for i, (c, (a, b)) in enumerate(zip(cases, spans)):
                    notes = ['the library raised'] if impl_raised(results[i][0]) else \
                        mod.model_compare(c, results[i][0], resp[a:b])
                    model_obs[i] = {'notes': notes[:5]}
                    if notes:
                        disagreements.append(i)
                        disagreement_notes[i] = notes[:5]
            else:
                model_obs = model_observations(mod, cases)
                for i, (c, mo) in enumerate(zip(cases, model_obs)):
                    if impl_raised(results[i][0]):
                        disagreements.append(i)
                        continue
                    io = canon(mod.project(c, results[i][0])) if hasattr(mod, 'project') else results[i][0]
                    if jdump(io) != jdump(mo):
                        disagreements.append(i)
        except DriverBroken as e:
            broken.append('model driver: ' + str(e)[:800])
    # ---- 6. verdict ---------------------------------------------------------------------
    known_hit = {}
    seen_violation_keys = set()
    for i, (obs, fails, _) in enumerate(results):
        for fl in fails:
            e = match_known(mod, known, cases[i], obs, fl)
            if e is not None:
                known_hit.setdefault(e['id'], (e, cases[i], fl))
                continue
            key = fl.split(':')[0]
            if key in seen_violation_keys:
                continue
            seen_violation_keys.add(key)
            p = write_replay(prop, {'property': prop, 'kind': 'failing-input', 'tier': tier, 'seed': seed,
                                    'case_index': i, 'input': cases[i], 'impl_observation': obs,
                                    'model_observation': model_obs[i], 'oracle': {'passed': False, 'what': fl},
                                    'how_to_run': './check %s --replay <this file>' % prop})
            violations.append(('failing-input', p, fl))
    searched = 0
    if (broken or disagreements) and not violations and not replay:
        # a broken obligation or correspondence is not by itself a violation: search for a failing input
        extra = mod.generate(seed + 7919, 'search')
        searched = len(extra)
        res2 = run_impl_cases(prop, extra)
        for i, (obs, fails, _) in enumerate(res2):
            if obs is None:
                continue
            for fl in fails:
                if match_known(mod, known, extra[i], obs, fl) is None:
                    p = write_replay(prop, {'property': prop, 'kind': 'failing-input', 'tier': tier, 'seed': seed,
                                            'input': extra[i], 'impl_observation': obs,
                                            'oracle': {'passed': False, 'what': fl}, 'broken': broken,
                                            'how_to_run': './check %s --replay <this file>' % prop})
                    violations.append(('failing-input', p, fl))
                    break
            if violations:
                break
        if not violations:
            payload = {'property': prop, 'kind': 'no-failing-input-found', 'tier': tier, 'seed': seed,
                       'broken': broken,
                       'disagreements': [{'input': cases[i], 'impl_observation':
                                          results[i][0] if impl_raised(results[i][0]) else
                                          canon(mod.project(cases[i], results[i][0])) if hasattr(mod, 'project')
                                          else (results[i][0] if i not in disagreement_notes else '(see notes)'),
                                          'model_observation': model_obs[i]} for i in disagreements[:5]],
                       'searched_cases': searched + len(cases)}
            p = write_replay(prop, payload)
            violations.append(('no-failing-input-found', p,
                               (broken[0] if broken else 'model/implementation disagreement')))

    # ---- 7. evidence --------------------------------------------------------------------
    distinct = set()
    for c, (o, f, n) in zip(cases, results):
        if n:
            distinct.add(jdump(c))
    samples = []
    for i in range(min(3, len(cases))):
        j = (i * 7919) % len(cases)
        samples.append({'input': cases[j], 'impl_observation_digest': hashlib.sha256(jdump(results[j][0]).encode()).hexdigest()[:16],
                        'model_agrees': j not in disagreements})
    ok_idx = [i for i, r in enumerate(results) if not impl_raised(r[0])]
    dist = mod.distribution([cases[i] for i in ok_idx], [results[i][0] for i in ok_idx]) \
        if hasattr(mod, 'distribution') else {}
    if len(ok_idx) < len(cases):
        dist['library_raised'] = len(cases) - len(ok_idx)
    ev = {
        'property_id': prop, 'tier': tier if tier in ('quick', 'thorough') else 'quick', 'seed': int(seed),
        'level': 'proof',
        'coverage': {
            'obligations': obligations, 'discharged': discharged,
            'checker_cmd': 'cd lean && lake build && lake env lean <generated file with #print axioms for every theorem of Usid/Properties/%s.lean>' % prop,
            'trusted_base': TRUSTED_BASE + list(getattr(mod, 'TRUSTED', [])),
            'theorems': {n: a for n, a in ax.items()},
            'leanchecker': leanchecker,
            'traces_validated_against_impl': len(cases) - len(disagreements) if build_ok else 0,
            'evaluations': len(cases), 'distinct_nontrivial': len(distinct),
            'rule': getattr(mod, 'RULE', ''),
            'samples': samples, 'disagreements_checked': len(disagreements),
            'broken_obligations': broken, 'failing_input_search_cases': searched,
            'input_distribution': dist,
            'known_findings_reproduced': sorted(known_hit.keys()),
            'exhaustive': bool(getattr(mod, 'EXHAUSTIVE', {}).get(tier, False)),
        },
        'assumptions': list(getattr(mod, 'ASSUMPTIONS', [])),
        'wall_s': round(time.time() - t0, 2),
        'violations': len(violations),
    }
    if not replay:
        os.makedirs(os.path.join(ROOT, 'evidence'), exist_ok=True)
        with open(os.path.join(ROOT, 'evidence', prop + '.json'), 'w') as fh:
            json.dump(canon(ev), fh, indent=1, sort_keys=True)
    # ---- 8. report ----------------------------------------------------------------------
    for kid, (e, c, fl) in sorted(known_hit.items()):
        print('KNOWN-FINDING: property=%s %s %s' % (prop, kid, e.get('what', '')))
    print('%s tier=%s seed=%s theorems=%d/%d cases=%d disagreements=%d broken=%d wall=%.1fs' %
          (prop, tier, seed, discharged, obligations, len(cases), len(disagreements), len(broken), time.time() - t0))
    for kind, p, what in violations:
        rel = os.path.relpath(p, ROOT)
        print('  what: ' + str(what)[:400])
        if kind == 'failing-input':
            print('VIOLATION property=%s replay=%s' % (prop, rel))
        else:
            print('VIOLATION property=%s replay=%s no-failing-input-found' % (prop, rel))
    return 1 if violations else 0
