"""Generator of USID files built with RAW h5py (independent of pyUSID's own writer).

A *side* (position or spectroscopic) is described by
    sizes  : list of dimension sizes in STORAGE (file) order
    rate   : permutation of range(k): dimension ids listed fastest -> slowest varying
    labels, units : one string per dimension (storage order)
    values : per dimension, list of reference values in quarter units (ints q, real value q/4)
Index column d of row r is (r // stride_d) % sizes[d], stride_d = product of the sizes of the
dimensions listed before d in `rate`.
"""
import itertools
import random
import numpy as np
import h5py

LETTERS = 'XYZWUVST'


def strides(sizes, rate):
    st = [0] * len(sizes)
    acc = 1
    for d in rate:
        st[d] = acc
        acc *= sizes[d]
    return st


def index_matrix(sizes, rate):
    """returns n x k matrix (rows = points, columns = dimensions in storage order)"""
    n = int(np.prod(sizes)) if len(sizes) else 1
    st = strides(sizes, rate)
    r = np.arange(n)
    cols = [(r // st[d]) % sizes[d] for d in range(len(sizes))]
    return np.stack(cols, axis=1).astype(np.uint32) if cols else np.zeros((n, 0), np.uint32)


def value_matrix(side):
    inds = index_matrix(side['sizes'], side['rate'])
    vals = np.zeros(inds.shape, dtype=np.float32)
    for d, ref in enumerate(side['values']):
        ref = np.asarray(ref, dtype=np.float64) / 4.0
        vals[:, d] = ref[inds[:, d]]
    return vals


def gen_side(rng, prefix, max_dims=3, max_size=4, min_dims=1, size_bias=True, uniform=False, long_prob=0.0,
             dup_prob=0.0, unsorted_prob=0.0):
    k = rng.randint(min_dims, max_dims)
    pool = [s for s in (1, 1, 2, 2, 2, 3, 3, 4, 5) if s <= max_size] if size_bias else list(range(1, max_size + 1))
    sizes = [rng.choice(pool) for _ in range(k)]
    if rng.random() < 0.15 and k > 1:   # equal sizes on purpose
        sizes = [sizes[0]] * k
    if long_prob and rng.random() < long_prob:      # one long dimension (float ramps, strides, hyperslabs ...)
        sizes[rng.randrange(k)] = rng.choice([7, 7, 8, 9, 11, 13, 16, 25, 49])
    rate = list(range(k))
    rng.shuffle(rate)
    labels = [prefix + LETTERS[d] for d in range(k)]
    units = ['u' + prefix.lower() + str(d) for d in range(k)]
    values = []
    for d in range(k):
        start = rng.randint(-8, 8)
        if uniform:
            step = rng.randint(1, 6)
            values.append([start + step * i for i in range(sizes[d])])
        else:
            v = [start]
            for _ in range(sizes[d] - 1):
                v.append(v[-1] + rng.randint(1, 6))
            values.append(v)
    if unsorted_prob and rng.random() < unsorted_prob:
        # distinct reference values that are NOT increasing with the index (descending sweeps, shuffled tables)
        d = rng.randrange(k)
        values[d] = values[d][::-1] if rng.random() < 0.5 else rng.sample(values[d], len(values[d]))
    if dup_prob and rng.random() < dup_prob:
        # reference values that are NOT pairwise distinct (uncalibrated all-equal values, a triangular sweep ...):
        # sizes, orders and the N-D form depend on the indices only
        big = [d for d in range(k) if sizes[d] >= 2]
        if big:
            d = rng.choice(big)
            if rng.random() < 0.5:
                values[d] = [values[d][0]] * sizes[d]
            else:
                j = rng.randrange(1, sizes[d])
                values[d][j] = values[d][rng.randrange(0, j)]
    # the names must not be alphabetical in file order every time (np.unique / setdiff1d / sorted() reorder names).
    # Decided by a generator of its own, keyed by what has been drawn, so that the stream of `rng` is what it was
    own = random.Random(repr((prefix, sizes, rate, values)))
    if k > 1 and own.random() < 0.5:
        own.shuffle(labels)
    return {'sizes': sizes, 'rate': rate, 'labels': labels, 'units': units, 'values': values}


def gen_dataset(rng, max_dims=3, max_size=4, dtypes=('f8',), **kw):
    pos = gen_side(rng, 'P', max_dims, max_size, **kw)
    spec = gen_side(rng, 'S', max_dims, max_size, **kw)
    ds = {'pos': pos, 'spec': spec, 'dtype': rng.choice(list(dtypes))}
    # the element type of the index matrices as stored (files written by other tools use narrow or signed integers);
    # decided by a generator keyed by the drawn content
    own = random.Random(repr(('idx', pos['sizes'], spec['sizes'], pos['rate'], spec['rate'])))
    if own.random() < 0.4 and max(pos['sizes'] + spec['sizes']) < 200:
        ds['idx_dtype'] = own.choice(['u1', 'u1', 'u2', 'i4', 'i8'])
    # HDF5 storage layout of the main dataset: chunks that do NOT divide the shape (partial last chunks), sometimes
    # compressed - used by write_usid unless the caller asks for a layout of its own
    n, m = n_points(pos), n_points(spec)
    if own.random() < 0.3 and n * m > 1:
        ds['main_chunks'] = [own.randint(1, n), own.randint(1, m)]
        if own.random() < 0.3:
            ds['main_compression'] = 'gzip'
    return ds


def n_points(side):
    return int(np.prod(side['sizes'])) if side['sizes'] else 1


COMPOUND = np.dtype([('a', np.float32), ('b', np.int32)])


def main_array(n, m, dtype):
    tok = (np.arange(n * m).reshape(n, m)).astype(np.int64)
    if dtype == 'f8':
        return tok.astype(np.float64)
    if dtype == 'f4':
        return tok.astype(np.float32)
    if dtype == 'i4':
        return tok.astype(np.int32)
    if dtype == 'c16':
        return tok.astype(np.float64) + 1j * (tok + 1000).astype(np.float64)
    if dtype == 'c8':
        return (tok.astype(np.float64) + 1j * (tok + 1000).astype(np.float64)).astype(np.complex64)
    if dtype == 'compound':
        out = np.zeros((n, m), dtype=COMPOUND)
        out['a'] = tok
        out['b'] = tok + 1000
        return out
    raise ValueError(dtype)


def token(x):
    """canonical integer token of one main element (inverse of main_array)"""
    if isinstance(x, np.void) or (hasattr(x, 'dtype') and x.dtype.names):
        return int(x['a'])
    if np.iscomplexobj(x):
        return int(round(float(np.real(x))))
    return int(round(float(x)))


def tokens(arr):
    arr = np.asarray(arr)
    if arr.dtype.names:
        return np.asarray(arr['a']).astype(np.int64)
    if np.iscomplexobj(arr):
        return np.real(arr).round().astype(np.int64)
    return np.asarray(arr).round().astype(np.int64)


IDX_DTYPES = {'u4': np.uint32, 'u1': np.uint8, 'u2': np.uint16, 'i4': np.int32, 'i8': np.int64}


def write_anc(grp, base, side, is_spec, idx_dtype='u4', val_dtype='f4'):
    inds = index_matrix(side['sizes'], side['rate'])
    vals = value_matrix(side)
    if is_spec:
        inds, vals = inds.T, vals.T
    d_i = grp.create_dataset(base + '_Indices', data=np.ascontiguousarray(inds), dtype=IDX_DTYPES[idx_dtype])
    if val_dtype == 'f8':
        # double precision values that single precision cannot hold; (v * 4).round() still decodes the quarter units
        vals = np.asarray(vals, dtype=np.float64) + 0.1
    if val_dtype == 'i4':
        # reference values stored as integers (the caller supplies whole numbers)
        assert np.all(np.asarray(vals) == np.round(vals))
    d_v = grp.create_dataset(base + '_Values', data=np.ascontiguousarray(vals),
                             dtype={'f8': np.float64, 'i4': np.int32}.get(val_dtype, np.float32))
    for d in (d_i, d_v):
        d.attrs['labels'] = np.array(side['labels'], dtype='S')
        d.attrs['units'] = np.array(side['units'], dtype='S')
    return d_i, d_v


def write_usid(h5_group, ds, name='main', quantity='Current', units='nA', data=None, chunks=None,
               compression=None):
    """write one valid USID main dataset + four ancillaries into h5_group with raw h5py"""
    n, m = n_points(ds['pos']), n_points(ds['spec'])
    arr = main_array(n, m, ds.get('dtype', 'f8')) if data is None else data
    kw = {}
    if chunks:
        kw['chunks'] = chunks
    elif ds.get('main_chunks') and tuple(arr.shape) == (n, m) and ds['main_chunks'][0] <= n and ds['main_chunks'][1] <= m:
        kw['chunks'] = tuple(ds['main_chunks'])
        if ds.get('main_compression') and not compression:
            kw['compression'] = ds['main_compression']
    if compression:
        kw['compression'] = compression
    h5_main = h5_group.create_dataset(name, data=arr, **kw)
    h5_main.attrs['quantity'] = quantity
    h5_main.attrs['units'] = units
    pi, pv = write_anc(h5_group, 'Position', ds['pos'], False, ds.get('idx_dtype', 'u4'), ds.get('val_dtype', 'f4'))
    si, sv = write_anc(h5_group, 'Spectroscopic', ds['spec'], True, ds.get('idx_dtype', 'u4'), ds.get('val_dtype', 'f4'))
    h5_main.attrs['Position_Indices'] = pi.ref
    h5_main.attrs['Position_Values'] = pv.ref
    h5_main.attrs['Spectroscopic_Indices'] = si.ref
    h5_main.attrs['Spectroscopic_Values'] = sv.ref
    return h5_main


def all_perms(k):
    return [list(p) for p in itertools.permutations(range(k))]


def exhaustive_sides(max_dims, max_size, prefix):
    out = []
    for k in range(1, max_dims + 1):
        for sizes in itertools.product(range(1, max_size + 1), repeat=k):
            for rate in all_perms(k):
                out.append({'sizes': list(sizes), 'rate': rate,
                            'labels': [prefix + LETTERS[d] for d in range(k)],
                            'units': ['u' + prefix.lower() + str(d) for d in range(k)],
                            'values': [[3 * d + 2 * i + (i * i) for i in range(s)] for d, s in enumerate(sizes)]})
    return out
