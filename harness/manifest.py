"""Regenerates /verif/MANIFEST.json from the table below (kept valid against the schema at all times)."""
import json
import os

ROOT = os.path.dirname(os.path.dirname(os.path.abspath(__file__)))
ALL = ['C%02d' % i for i in range(1, 21)]

COMMON_NOTE = ('Trusted: Lean 4.33 kernel; axioms limited to propext/Classical.choice/Quot.sound (audited each run by '
               '#print axioms; no sorry/native_decide); the hand-written model is tied to /repo by a differential '
               'correspondence run on every invocation (sampling, not proof); harness generator/oracles. ')

CHECKS = {
    'C14': dict(
        technique='Lean 4 theorems over kernels translated from process.py on every run + differential correspondence',
        text=('Theorems (Usid/Properties/C14.lean) prove for every rank count >= 1, every job count (including fewer jobs '
              'than ranks), every mask and batch >= 1 that the per-rank ranges are consecutive, disjoint and cover the '
              'pending list, that each rank batches exactly its own range within its limit, and that socket masters are '
              'the lowest rank of each processor name. The range/window arithmetic is REGENERATED from '
              'Process.__assign_job_indices/_read_data_chunk by harness/py2lean.py on every run and proved equal to the '
              'hand model (start, end and - generated_assign_first_end - the first batch end, explicitly), so the kernel re-checks the theorem against the current source. ranks_see_initial_status - for EVERY '
              'number of ranks and EVERY schedule (any interleaving that respects the barriers) a rank derives its range '
              'before any completion mark has been written, provided the synchronisation skeleton of compute() is Safe '
              '(one assign, a barrier after it, no mark before that barrier); the skeleton is EXTRACTED from the current '
              'source on every run (AST: order of __assign_job_indices, barrier() and writes to the status dataset, helper '
              'methods followed) and Safe is evaluated on it by the Lean driver. The correspondence runs the real compute() '
              'once per simulated rank on private copies AND with all ranks interleaved on one file (threads under a '
              'deterministic cooperative scheduler with a fake mpi4py; lowest / highest runnable rank first).'),
        note=COMMON_NOTE + 'Real MPI / the mpio driver are not available in the sandbox: collective dataset creation is simulated '
             '(first rank creates, the others open); the status initialisation every rank performs for itself is not counted '
             'as a completion mark; two schedules per interleaved case. py2lean grammar, attribute table and the skeleton '
             'extractor are trusted.',
        ref='§5 C14'),
}

CHECKS['C15'] = dict(
    technique='Lean 4 theorems over kernels translated from process.py/comp_utils.py on every run (incl. __set_memory, floats as exact fractions) + differential correspondence',
    text=('Theorems (Usid/Properties/C15.lean): the GENERATED __set_memory (translated from process.py on every run, '
          'floats as exact fractions) equals the exact-arithmetic model for every available memory, limit of either '
          'sign, multiplier >= 1, worker count and row size (generated_set_memory_eq_hand), hence the budget inequality '
          '(generated_budget), monotonicity and admits-one-row hold of what the source says now; |multiplier| < 1, zero '
          'workers and zero-byte rows raise; sizing_then_compute: generated __set_cores + __set_memory + compute loop end to end '
          '(finishes tiling the pending range when the budget admits a row; ValueError and nothing marked when it admits none); 1 <= cores <= logical for the GENERATED __set_cores and '
          'recommend_cpu_cores for every request (None, negative, zero, beyond the machine), requested_cores=0 and '
          'num_jobs=0 raise; the compute loop assembled from the generated window/recommender terminates with the '
          'windows tiling the pending range when the batch is >= 1 and stops with ValueError, marking nothing, when it '
          'is 0. Correspondence: simulated machines (psutil patched in the harness), constructor sizing vs model, '
          'paired budgets for monotonicity, real compute() under a watchdog for zero/one-row budgets, fresh and resumed '
          '(completed set with holes), with every read of the source traced against the batch limit.'),
    note=COMMON_NOTE + 'IEEE rounding inside __set_memory is not modelled (exact rational of the float multiplier; '
         'generated multipliers are dyadic so float floor equals exact floor); MPI branch of __set_cores not modelled; '
         'zero-budget claim is about the default _unit_computation.',
    ref='§5 C15')
CHECKS['C03'] = dict(
    technique='Lean 4 theorems (induction over the batching loop) + differential correspondence on real compute() runs',
    text=('Theorems (Usid/Properties/C03.lean) prove for every mask, every batch limit >= 1 and every map function: '
          'batches are consecutive slices of the pending list (disjoint, ordered, non-empty, within the limit, covering '
          'exactly the pending positions); the call log is the pending list (exactly once, never a completed position); '
          'final results are f(row) on pending positions and untouched elsewhere; status is 1 everywhere; the outcome '
          'does not depend on the batch limit or the worker count; pending_at_start / legacy_resume - what "pending at start" '
          'is (initialStatus, the model of __create_compute_status_dataset): the zero entries of an existing status '
          'dataset, positions k..N-1 of a group left by an old version with last_pixel = k, every position of a fresh '
          'group, and resuming such a legacy group invokes the map function for k..N-1 only, leaves earlier results alone '
          'and marks everything. Correspondence: real compute() of a logging Process '
          'subclass (serial, joblib multi-core, lazy, separate target file) vs the model.'),
    note=COMMON_NOTE + 'joblib worker scheduling is not modelled: order preservation for cores > 1 is sampled, not proved.',
    ref='§5 C03')

CHECKS['C04'] = dict(
    technique='Lean 4 theorems (invariant over all event traces, induction over interruption lists) + differential crash injection at every h5py event',
    text=('Theorems (Usid/Properties/C04.lean): for EVERY trace of file events, the decidable acceptance WellFormed implies '
          'that at every crash point both survivors (gracefully closed / as of the last flush) mark no position complete '
          'unless its final result is stored; the modelled compute trace is WellFormed for every configuration; every '
          'survivor of the modelled run is a Good state; Good is preserved over ANY list of successive interruptions '
          '(own batch size, crash point, survivor kind each) and resuming from a Good state ends with exactly the '
          'results/status of the uninterrupted run, recomputing only unmarked positions; marks written before a '
          'checkpoint of their file are durable forever after, for results in the source file and in a separate file. '
          'Tie: the real compute() is traced through wrappers around h5py write/flush/attr/create calls; the observed '
          'trace is (a) evaluated by WellFormed in Lean, (b) compared with the modelled trace, (c) replayed in the Lean '
          'crash model whose predicted survivors are compared with the real files for an injected crash before EVERY '
          'event; model_trace_checkpointed - the modelled loop, flushing what the code flushes, marks a position only when '
          'its result is already durable in the results file (for every pending set / partition / placement); '
          '(d) the observed trace is required to pass the same stronger acceptance wfStrong - a completion mark is written only after its '
          'result was flushed to the results file (oracle checkpoint-missing: without per-batch checkpoints the durability '
          'clause would be void); every survivor is re-opened, resumed with another batch size and compared with the clean '
          'run; the same for interrupted groups in the legacy form (last_pixel only), for the map function itself raising, '
          'and for compute(override=True) on a survivor; '
          'thorough adds successive interruptions and real os._exit kills.'),
    note=COMMON_NOTE + 'HDF5 write-back below flush() is not modelled: the kill survivor is the bytes as of the last flush '
         '(file copy taken right after each flush), as the property defines it; real kills are sampled in the thorough tier.',
    ref='§5 C04')

CHECKS['C13'] = dict(
    technique='Lean 4 theorems over a string-level model of group naming (induction over request histories) + differential correspondence',
    text=('Theorems (Usid/Properties/C13.lean) over names as character lists: for EVERY parent group (any siblings of any '
          'kind) and non-empty base, create_indexed_group / create_results_group succeed, the created name is '
          '<base>_NNN with NNN one more than the highest number used for exactly that prefix (0 if none), it was absent, '
          'nothing else changes; a sibling name carries an index for at most one base (prefix-related names such as '
          'A_B_000, A_A_005 are never counted for A); any history of create/delete requests keeps succeeding; '
          'find_results_groups(d, t) returns a group created for (d2, t2) iff d2 = d, the normalised tool names agree and - '
          'inside the file of the dataset - the group does not record ANOTHER dataset of the same name as its source; '
          'tool/source provenance and recovery of the source dataset; parents_independent - for ANY history of requests '
          'addressed in turn to several parent groups of one file (runFile), the members of parent p and the outcome of '
          'every request addressed to it are exactly what the sub-history addressed to p produces on p alone. The zero-padded formatter and the digit parser '
          'are proved inverse. Correspondence: random and (thorough) exhaustive short histories on real HDF5 files over a '
          'vocabulary closed under prefix/substring relations.'),
    note=COMMON_NOTE + 'ASCII digits only (Unicode decimal digits accepted by str.isdecimal are outside the generated vocabulary); '
         'dataset names without "-" for the look-up theorem.',
    ref='§5 C13')

CHECKS['C16'] = dict(
    technique='Lean 4 theorems over an exact-rational model of check_for_matching_attrs + differential correspondence',
    text=('Theorems (Usid/Properties/C16.lean): for every dictionary over the supported types with distinct keys, comparing '
          'the stored attributes with the written dictionary is a match (reflexive); None entries are ignored wherever '
          'they sit; one failing entry fails the whole comparison whether or not the loop breaks there; an absent key, a '
          'changed scalar, a changed length are mismatches; a changed list element is a mismatch for strings and whole '
          'numbers always and for floats beyond np.allclose\'s tolerance (modelled exactly over Q); the full float '
          'statement is refuted by a kernel-checked counterexample (known finding KF-D10-float). Correspondence: random '
          'dictionaries written with write_simple_attrs to groups/datasets, all single-entry perturbations.'),
    note=COMMON_NOTE + 'sidpy attribute round trip is outside /repo and only observed; generated float perturbations '
         'stay a factor 10 away from the tolerance boundary; bool lists and mixed-type lists are outside the domain.',
    ref='§5 C16')

CHECKS['C05'] = dict(
    technique='Lean 4 theorems over the decision logic (name model + attribute model + progress records) + differential correspondence on group histories',
    text=('Theorems (Usid/Properties/C05.lean) over the model of check_for_old / _check_for_duplicates / the reuse decision '
          'of compute(): a group is returned without computing only if it exists, is named for exactly this dataset and '
          'tool, matches every requested parameter and carries a well-formed progress record marking every position; '
          'otherwise the LAST matching group with a well-formed incomplete record is resumed and there is no complete one; '
          'otherwise (iff neither exists) a fresh group; groups of other datasets/tools, with different parameters, or with '
          'malformed/missing records (wrong dtype/length/rank, non-dataset, values outside {0,1}, neither record) are '
          'never returned or resumed; a forced fresh computation is always fresh and construction leaves every group '
          'exactly as found; complete_iff_nothing_pending - the decision and the run read the progress record alike: for '
          'every usable record (status dataset or legacy last_pixel) a group is classified complete exactly when the '
          'pending list compute() derives from the same record (C03 initialStatus) is empty, and partial exactly when it '
          'is not. Correspondence: histories of raw-h5py result groups of every kind, same-file and separate '
          'file, then a real Process is constructed and compute(override) run; provenance oracle with harness tags.'),
    note=COMMON_NOTE + 'Known finding KF-D15: in a separate target file the source is identified by dataset name only. '
         'Parameter matching inherits C16 (float-array tolerance).',
    ref='§5 C05')

CHECKS['C06'] = dict(
    technique='Lean 4 theorem (exhaustive case analysis over a structural descriptor) + differential correspondence on corrupted HDF5 trees',
    text=('Theorem total_and_exact (Usid/Properties/C06.lean): for EVERY structural descriptor of an HDF5 object (any kind and '
          'rank, quantity/units absent / string / not a string, each of the four links absent / not a reference / '
          'dangling / to a group / to a dataset of any shape with or without labels and units) the statement-by-statement '
          'model of check_if_main returns True exactly when the independently written rule set MainRules holds, and it is '
          'a total boolean function (never raises); the wrapper gate (TypeError otherwise) and the exactness of '
          'get_all_main over any tree follow. Correspondence: trees of generator datasets with every single structural '
          'corruption and pairs, built with raw h5py; the descriptor fed to the model is re-read from the file with raw '
          'h5py; check_if_main, USIDataset() and get_all_main() are compared with the model and with an independent '
          'Python statement of the rules.'),
    note=COMMON_NOTE + 'The descriptor abstracts dataset contents and dtypes (not examined by check_if_main); scalar-string '
         'labels and string-valued link attributes that happen to be valid paths are outside the generated domain.',
    ref='§5 C06')

CHECKS['C08'] = dict(
    technique='Lean 4 theorems (tile/repeat index algebra, mixed-radix bijection) + differential correspondence, exhaustive small scope in thorough',
    text=('Theorems (Usid/Properties/C08.lean) for any number of dimensions, any sizes >= 1 and any values: entry (d,c) of the '
          'built indices matrix is c / prod(len_e, e<d) % len_d (first supplied dimension fastest) and the values matrix '
          'holds value_d[index_d]; the column -> digit-tuple map is a bijection onto all index combinations (each exactly '
          'once); position matrices are transposes; write_ind_val_dsets under BOTH ordering flags stores the dimensions '
          'slowest-first with the caller\'s fastest last and row j carries label, unit, indices and values of the same '
          'dimension; make_indices_matrix gives the same rows for sizes >= 2 (or [1]) and refuses every other list. '
          'Correspondence: the real builders and writer vs the model and vs direct enumeration; thorough enumerates ALL '
          'size tuples up to 4 dimensions x sizes 1..4.'),
    note=COMMON_NOTE + 'dtypes (uint32/float32) are checked by the harness, values are dyadic so float32 is exact; the '
         'INCOMPLETE/DEPENDENT dimension modes are not modelled.',
    ref='§5 C08')

CHECKS['C09'] = dict(
    technique='Lean 4 theorems over regular grids in any storage permutation (change counts, strides, sorting) + differential correspondence, exhaustive small scope in thorough',
    text=('Theorems (Usid/Properties/C09.lean, Usid/Basic/Grid.lean) for EVERY regular grid (any number of dimensions, sizes >= 1, '
          'any storage permutation): the wrap-around change count of a dimension times its stride equals N (0 for size 1); '
          'counts are strictly decreasing along the true rate order among dimensions of size > 1; get_dimensionality '
          'reports the true sizes (= numbers of distinct indices); the order computed by get_sort_order is a permutation '
          'whose strides equal the true strides for every dimension of size > 1 and which ranks those dimensions exactly '
          'as the true rate order, for EVERY tie-breaking of the sort; unit_values - get_unit_values on the index and '
          'value matrices of any such grid with distinct names returns every dimension\'s reference values in index '
          'order, every guard of the statement-by-statement model (not starting with 0, non-constant step sizes, ragged '
          'tiles) passing (Usid/Proofs/UnitValues.lean: list algebra for filters over range(H*P), tile structure of a '
          'periodic row); rebuild_indices - create_spec_inds_from_vals applied to the values matrix of any such grid whose '
          'dimensions carry pairwise distinct reference values returns exactly the index matrix (the column loop is a '
          'mixed-radix odometer over the rows sorted by change count: Usid/Proofs/Rebuild.lean odometer_step, '
          'digit_succ, digit_changes). The executable models are compared with the implementation and with the '
          'generator\'s ground truth on every case '
          '(thorough: all grids <= 3 dims x sizes <= 3 x all permutations).'),
    note=COMMON_NOTE + 'Guard: at most as many dimensions as points (the shape heuristic of get_sort_order / '
         'get_dimensionality transposes otherwise: known finding KF-D5a). uint32 wrap-around not modelled.',
    ref='§5 C09')

CHECKS['C01'] = dict(
    technique='Lean 4 theorems: coordinate map of reshape_to_n_dims for every regular grid / storage permutation, both orderings; wrapper views over any op history + differential correspondence with an element-by-element coordinate-map oracle',
    text=('Theorems (Usid/Properties/C01.lean): coordinate_map - for EVERY pair of regular grids (any number of '
          'dimensions, sizes >= 1, any storage permutation of the change rates, dimensions <= points per side), every Main '
          'matrix and distinct labels, reshape_to_n_dims(sort_dims=False) succeeds, returns labels and sizes in file order '
          'and the element at (position indices of row r ++ spectroscopic indices of column c) is main[r, c] for every r, '
          'c; coordinate_map_sorted - the same for sort_dims=True with dimensions listed slowest first in the order found '
          'by get_sort_order, for every tie-break of the sort among size-1 dimensions; wrapper_views - a USIDataset opened '
          'on such a dataset holds file-order labels/sizes, ONE permutation, a file-order N-D form that is the coordinate '
          'map and a sorted form whose element at the coordinates rearranged by that permutation is again main[r, c]; '
          'toggle_involutive, views_after_ops (after ANY list of toggles interleaved with reads only the flag differs: '
          'initial xor parity), one_permutation (labels, sizes, N-D form switch together). Proof chain: change counts of '
          'grid rows (C09), strides along any non-increasing order, mixed radix under any order, label-driven axis swap = '
          'inverse permutation, transpose access lemma. Correspondence: statement-by-statement executable model vs '
          'implementation (eager/lazy, HDF5 and in-memory ancillaries, wrapper with either flag and toggled); the oracle '
          'checks EVERY element of every returned view against a raw-h5py coordinate map.'),
    note=COMMON_NOTE + 'numpy/dask reshape and transpose semantics are modelled by NDArr (C order) and checked by the correspondence; '
         'np.argsort tie order among size-1 dimensions is unspecified, so the theorems hold for every order and views are compared after '
         'transposing to file order. Hypothesis "dimensions <= points per side" is exactly the known finding KF-D5a.',
    ref='§5 C01')
CHECKS['C10'] = dict(
    technique='Lean 4 theorems: both inverse laws of flatten / reshape for every regular grid and storage permutation, refusal and shape theorems + differential correspondence with round-trip oracle',
    text=('Theorems (Usid/Properties/C10.lean): flatten_reads_coordinates - for EVERY pair of regular grids (any sizes, any '
          'storage permutation, dimensions <= points, >= 1 dimension per side) and EVERY N-D array of the file-order shape, '
          'reshape_from_n_dims with both index matrices succeeds and element (r, c) of the result is the array element at '
          '(position indices of row r ++ spectroscopic indices of column c); flatten_of_reshape - flattening the N-D form '
          'of main returns exactly main (as arrays, not just element-wise); reshape_of_flatten - reshaping the flattened '
          'matrix returns exactly the N-D array (uses surjectivity of the grid enumeration, coords_surj); '
          'incompatible_raises / rank_mismatch_raises (an element-count mismatch, or an axis-count mismatch not explained '
          'by a single-point side, is refused for every input); result_shape; flatten_pos_only / flatten_spec_only - '
          'with only one index matrix (a regular grid in any storage permutation) and every size of the other side >= 2, '
          'the call succeeds and the axes of the missing side are flattened in C order, i.e. taken slowest-to-fastest '
          '(make_indices_matrix is the grid whose first dimension is fastest, its sort order is the identity, '
          'transpose_reshape_core); flatten_squeezed_pos / flatten_squeezed_spec - a one-point placeholder side whose axis '
          'is absent from the N-D array (the form reduce() hands over when a whole side is reduced) gives a 1 x M / N x 1 '
          'matrix holding the array element at the indices of each column / row; one_sided_pos_size / one_sided_spec_size '
          '- whatever a one-sided request returns is an N x M matrix with N (M) taken from the supplied matrix and N * M '
          'the number of elements of the array (numpy transpose keeps the element count: transposeND_size, a permutation '
          'argument); one_sided_pos_incompatible_raises / one_sided_spec_incompatible_raises - when the leading '
          '(trailing) axes that must hold the supplied side hold another number of points than that matrix has rows '
          '(columns), the request is refused for EVERY array and matrix - the criterion the oracle applies to arrays '
          'arranged the wrong way round. PARTIAL: a missing side containing a '
          'size-1 dimension (which make_indices_matrix refuses unless it is the only one) is decided by the '
          'oracle and the model comparison, not by a theorem. Correspondence: h5py / numpy / '
          'dask ancillaries, dask data, kept or squeezed size-1 axes, one-sided requests, all three branches.'),
    note=COMMON_NOTE + 'numpy/dask transpose/reshape semantics are modelled by NDArr (C order) and checked by the correspondence.',
    ref='§5 C10')

CHECKS['C07'] = dict(
    technique='Lean 4 theorems over the slicing model (row/column selection, eager fix-up, refusals) + differential correspondence with a numpy orthogonal-indexing oracle',
    text=('Theorems (Usid/Properties/C07.lean): the rows/columns of the 2-D path are exactly those whose indices fall in the '
          'selection of every dimension, each once, in increasing order; the eager post-processing (squeeze, '
          'atleast_2d, orientation fix-up) is the identity on every non-empty result - single row, single column, '
          'single element and square - hence eager = lazy; negative, out-of-range, empty, wrongly typed and '
          'unknown-label requests are refused with the stated error; two list selectors on the N-D path are refused '
          'with NotImplementedError; slice2D_elements - element (i, j) of an accepted 2-D slice is main[rows[i], cols[j]] '
          'with rows / cols coming from per-dimension selections that are the whole range or the accepted expansion of '
          'the selector (posSpecSlices_selected); sliceND_elements - an accepted N-D slice holds, in C order, the '
          'view\'s element at every combination of the kept per-axis indices (integer axes dropped from the shape); the '
          'view itself is the coordinate map by C01. CPython\'s slice.indices arithmetic is an executable definition '
          'compared with Python on every run, not re-derived. Correspondence: all four modes (ndim_form x lazy), file-order and sorted wrappers, slices '
          'with negative bounds/steps, lists/tuples/arrays, forced square and single-row results, malformed stream; '
          'oracle = np.take / np.ix_ on arrays read back independently.'),
    note=COMMON_NOTE + 'dask fancy-indexing semantics assumed by the N-D model; tuples are accepted by the 2-D path only.',
    ref='§5 C07')

CHECKS['C02'] = dict(
    technique='Lean 4 theorems over a step-ordered model of write_main_dataset on an abstract HDF5 group (atomicity, validity via the C06 rule set, coordinates via C08) + differential correspondence with retry',
    text=('Theorems (Usid/Properties/C02.lean): reject_atomic - for EVERY group and argument set, a rejected call returns the '
          'group exactly as it found it (all checks precede the first creation in the model, which follows the order of '
          'the source); malformed_reuse_rejected - an ancillary pair offered for reuse whose two matrices differ in '
          'shape is refused on either side and nothing has been created; accept_valid - an accepted call adds a main dataset satisfying every rule of the C06 rule set, '
          'linked to ancillary pairs covering exactly n positions / m spectroscopic points, and for a side given as a '
          'dimension list the linked pair is exactly writeIndVal(dims, slow_to_fast); accept_faithful - that pair stores '
          'the dimensions slowest-first under both flags with label, unit, indices and values of the same dimension on '
          'each row (C08). Correspondence: real write_main_dataset calls (numpy/dask/empty data, both flags, custom '
          'prefixes, reuse from same/other file, wrong types, size mismatches, clashing prior names, equal prefixes), '
          'group dump before/after, corrected retry in the same group; independent oracle validates the written file '
          '(C06 rules, data equality, coordinates read back with raw h5py).'),
    note=COMMON_NOTE + 'h5py failures after validation (unknown creation keyword, nested attribute dictionaries) and '
         'malformed reused ancillaries are outside the model (the property names sizes, clashing names and wrong types).',
    ref='§5 C02')

CHECKS['C11'] = dict(
    technique='Lean 4 theorems over the composition model (2-D slice + unit values + ancillary writer) + differential correspondence with a coordinate-map oracle on files read back with raw h5py',
    text=('Theorems (Usid/Properties/C11.lean): an accepted slice_to_dataset returns the 2-D slice of C07 as data; a side not '
          'named in the dictionary reuses the source\'s ancillaries, a sliced side gets writeIndVal(remaining dimensions, '
          'fastest-first) where the remaining dimensions are those with >= 2 unit values on the selected rows/columns, '
          'ordered by their number of changes; a placeholder dimension remains when none is left. For a side that is a '
          'regular grid (any sizes, any storage permutation) and ANY per-dimension selection lists with at least one '
          'in-range index each: selected_rows_subgrid - the selected rows, in increasing order, are the points of a '
          'sub-grid with the same rate order; sliced_side_dims - the statement-by-statement model of '
          '_get_dims_for_slice + order_fast_to_slow returns exactly the dimensions that stay multi-valued, fastest '
          'first, each with label, unit and the reference values at its selected indices (uses the unit-value theorem '
          'of C09 on relabelled periodic rows and a change-count ordering argument); sliced_side_coordinates - in the '
          'ancillaries written from them every remaining dimension has a row with its label and unit whose value at '
          'column i is the source value of that dimension at the i-th selected row (C08 written_slowest_first + sub-grid '
          'digits). The data block at (i, j) is main[rows[i], cols[j]] by C07 slice2D_elements. position_side_end_to_end / '
          'spectroscopic_side_end_to_end - for an ACCEPTED slice_to_dataset on a regular-grid side the hypothesis "every '
          'dimension keeps >= 1 in-range index" is discharged (expandSel_ok, sliceIndices_lt: every index produced by the '
          'model of CPython\'s slice.indices lies on the axis) and the returned side is exactly the writer applied to '
          'those dimensions, or the reused source ancillaries. Oracle on every case: the new dataset is read '
          'back with raw h5py and compared coordinate by coordinate with the source, no element missing or duplicated, '
          'unsliced side linked to the source\'s datasets, source unchanged, wrapper in file / sorted / toggled view. Sources: '
          'raw-h5py generator files in any storage order and files written by the library in both conventions.'),
    note=COMMON_NOTE + 'np.argsort(kind=stable) tie order among equally often changing dimensions cannot occur on a sub-grid with >= 2 values per kept dimension.',
    ref='§5 C11')

CHECKS['C12'] = dict(
    technique='Lean 4 theorems over the reduction model (group structure, rebuilt ancillaries) + differential correspondence with a group-by oracle, exhaustive subsets in thorough',
    text=('Theorems (Usid/Properties/C12.lean): for every N-D view and set of axes the reduced array has one axis per remaining '
          'dimension with its size, one cell per combination of remaining coordinates, and every cell collects exactly '
          'prod(reduced sizes) source elements; the in-memory reduction refuses empty / unknown dimension lists; rebuilt '
          'ancillaries carry exactly the labels/units of the remaining dimensions in order (one index and one value row '
          'each) or the one-point placeholder when a whole side is reduced; cell_exact - for every view, axis set and '
          'in-bounds index, the cell at the kept coordinates is the list of view elements over ALL indices of the reduced '
          'axes, contains view[idx], and every member has those kept coordinates (the view is the coordinate map by '
          'C01); file_form / file_form_pos_reduced / file_form_spec_reduced - the WRITTEN dataset, for regular-grid sides '
          'in any storage permutation: reduce(to_hdf5=True) succeeds, each side carries the labels / units of its '
          'remaining dimensions, the regular grid over them (same relative rate order) and the ORIGINAL reference values '
          '(an untouched side is the source\'s own matrices; a wholly reduced side the one-point placeholder), and element '
          '(r, c) of the N\' x M\' data is the cell at (position indices of row r ++ spectroscopic indices of column c) read '
          'from the NEW ancillaries (writeReducedAnc_grid: the kept columns are a sub-grid; kept_row: dropping size-1 '
          'dimensions and renumbering keeps every row; C10 flatten_reads_coordinates / flatten_squeezed_*); file_cells_exact - end to end for a dataset that is the regular grid of its ancillaries (main[r,c] given as an arbitrary function): the cell behind written element (r2, c2) contains main[r,c] for EVERY (r,c) whose remaining coordinates equal those of (r2, c2), nothing else, and has prod(reduced sizes) members. Guard: the '
          'remaining sides have at most as many dimensions as points (KF-D5a) and a wholly reduced side leaves >= 2 '
          'dimensions on the other (otherwise the result is 1-D and link_as_main refuses). The arithmetic of the reduction function is numpy\'s and is not modelled. The model returns the GROUP of every '
          'output cell and the harness applies the reduction function, so float rounding never enters the comparison. '
          'Correspondence/oracle: in-memory result vs group-by of the raw data for mean/sum/max/min/std; with '
          'to_hdf5=True the written file is read back with raw h5py and every element compared by coordinates, or the '
          'call must raise (it does whenever the result would lose a whole side together with part of the other).'),
    note=COMMON_NOTE + 'dask reduction order / float rounding not modelled (integer tokens; std compared with relative tolerance 1e-9).',
    ref='§5 C12')

CHECKS['C17'] = dict(
    technique='Lean 4 theorems over a lines-of-text model (join/split inverse, table layout) and a file-system state model + differential correspondence with csv-module parsing',
    text=('Theorems (Usid/Properties/C17.lean): splitting a joined line recovers its cells for every list of comma-free '
          'cells; for EVERY well-formed table (any P, Q, N, M >= 1) the exported lines parse back to exactly the expected '
          'table - per spectroscopic dimension P-1 empty cells, its descriptor and its value for every column; the '
          'position descriptors and dashes; per position its value along every position dimension followed by the data '
          'of that row; an existing output is refused unless forced and nothing changes; oversized datasets are skipped '
          'unless forced; after a normal return the output exists, the (fresh) scratch file does not and every other '
          'file is untouched; a kernel-checked counterexample shows why a FIXED scratch name breaks this (the repaired '
          'defect D16). Correspondence: real to_csv in a fresh working directory, default/explicit/relative paths, '
          'pre-existing outputs, a user temp.csv, force; file parsed with the csv module and compared cell by cell with '
          'the model\'s lines; directory listings before/after.'),
    note=COMMON_NOTE + 'numeric formatting is numpy runtime behaviour: numeric cells compared after parsing; descriptors containing commas are outside the domain.',
    ref='§5 C17')

CHECKS['C18'] = dict(
    technique='Lean 4 theorems over a group-member model of create_empty_dataset (any call sequence) + differential correspondence with raw h5py read-back',
    text=('Theorems (Usid/Properties/C18.lean): for EVERY destination group, source descriptor and request, a successful '
          'call returns a dataset of the source\'s shape and the requested type carrying the source\'s descriptive '
          'attributes and the new ones and linked to the source\'s ancillaries (same file) or to copies (other file); '
          'a newly created one has the source\'s chunking and compression and zero contents; an existing compatible '
          'dataset is returned with its contents flag unchanged (so a repeated call never erases); a non-dataset occupant '
          'is refused with the group unchanged; every other member of the group is untouched. Correspondence: the real '
          'create_empty_dataset on generator datasets x layouts x dtypes (real, complex, compound) x destinations (same '
          'group, other group, other file) x dashed names x 1-3 calls with data written in between x prior occupants; '
          'read back with raw h5py (shape, dtype, chunks, compression, attribute names, link targets, faithful copies, '
          'contents, Main validity by the C06 rules).'),
    note=COMMON_NOTE + 'HDF5 storage of chunks/filters and sidpy\'s copy_attributes / copy_linked_objects are modelled by their observable effect (attribute names, link targets) and checked by read-back, not verified.',
    ref='§5 C18')

CHECKS['C19'] = dict(
    technique='Lean 4 theorems over an N-D array / ancillary-matrix / output-path model of the three translators + differential correspondence with raw h5py coordinate maps',
    text=('Theorems (Usid/Properties/C19.lean): LABELLED DATASETS - for every array, every list of axes (any number, any '
          'typing and ordering of spatial and other axes, any sizes and values) and every element index, the element sits '
          'at (row, column) = (flat index of its spatial sub-index, flat index of the rest) and at that row / column the '
          'ancillaries carry the name, unit, index and value of every axis (sidpy_coords, built on C08\'s '
          'written_slowest_first and a mixed-radix digit lemma); a kernel-checked counterexample shows that flattening '
          'without moving spatial axes to the front (the repaired defect D12) misplaces elements. IMAGES - for every H x W '
          'and every pixel (y, x): row x*H+y of the (W*H, 1) matrix holds it and the stored position indices there are '
          '(X=x, Y=y). ARRAYS - the translator accepts exactly the inputs satisfying an independently stated validity '
          'predicate, rejects all others leaving the output path (empty or holding an earlier file) unchanged, and a '
          'valid input yields the standard layout with parameters, data and extra datasets verbatim and ancillaries '
          'whose coordinates follow from C08. Correspondence: real ArrayTranslator (numpy/dask, parameter dicts, extras, '
          '13 kinds of invalid input, pre-existing output), ImageTranslator (PNG/txt images 1-6 x 1-6, binning, '
          'normalisation, existing output) and write_sidpy_dataset (rank 1-4, every typing of axes); files read back '
          'with raw h5py into coordinate maps and compared with the input and with the model\'s matrices.'),
    note=COMMON_NOTE + 'PIL decoding/resampling and the normalisation arithmetic are runtime behaviour: for binned / normalised images the processed image is recomputed with PIL in the harness and only its placement is checked; dask scheduling and HDF5 storage are not modelled.',
    ref='§5 C19')

CHECKS['C20'] = dict(
    technique='Lean 4 frame / history-independence / refusal theorems over an op-level model (API calls as traces of storage primitives) + runtime tracing of h5py write entry points, SHA-256 and canonical-dump correspondence',
    text=('Theorems (Usid/Properties/C20.lean): for EVERY sequence, of any length, of read-side calls (incl. sort '
          'toggles) whose traces contain no primitive that needs a writable file, the file is exactly what it was, in '
          'read-only and writable mode alike, nothing raises, and every call returns what a fresh wrapper of the '
          'unchanged file with flag = initial flag xor parity(earlier toggles) returns (read_frame, '
          'history_independent_reads, by induction over the sequence); a call that reaches a modifying primitive or '
          'the library\'s own writability guard raises on a read-only file and leaves it unchanged (write_refused); on '
          'a read-only file no history at all changes the file (ro_never_changes); on a writable file a modifying call '
          'does change it (rw_write_changes). The premise - which primitives each of the 24 read-side and 13 write-side '
          'entry points emits - is OBSERVED on every run by tracing h5py\'s modifying entry points and compared with '
          'the model\'s kind table. Correspondence / oracle: generator files opened r and r+, random call sequences; '
          'after every call SHA-256 of the file (r) and a canonical dump of all datasets and attributes (both modes) vs '
          'the initial ones; every result recomputed on a fresh handle and wrapper; every write-side entry point on a '
          'read-only handle (alone and inside read sequences) and on a writable one.'),
    note=COMMON_NOTE + 'partial by nature: that the Python read paths call no h5py write API is observed by tracing on the generated inputs, not proved about the source; the Lean theorems are conditional on that observation and say so.',
    ref='§5 C20')

REASON_PENDING = 'check not built yet in this round (planned: Lean model + theorems + correspondence, see DESIGN.md §5)'


def build():
    checks = []
    for pid in ALL:
        if pid not in CHECKS:
            continue
        c = CHECKS[pid]
        checks.append({
            'property_id': pid,
            'quick_cmd': './check %s --tier quick' % pid,
            'thorough_cmd': './check %s --tier thorough' % pid,
            'evidence_file': 'evidence/%s.json' % pid,
            'replay_cmd_template': './check %s --replay {path}' % pid,
            'engine': 'lean+correspondence',
            'level_claimed': {'category': 'proof', 'text': c['text'], 'design_ref': c['ref']},
            'level_note': c['note'],
            'technique': c['technique'],
        })
    man = {
        'version': 1,
        # (every check rebuilds for itself and reports a failing build as a broken obligation: an incomplete build
        #  here must not keep the checks from running)
        'setup_cmd': 'cd lean && (lake build || echo "setup: build incomplete - every check rebuilds for itself")',
        'hooks': {
            'guard': 'PYUSID_VERIF',
            'enable': 'no source hooks: observation is done by wrapping h5py/psutil entry points inside the harness process; '
                      'pyUSID is an editable install of /repo so checks always import the working tree',
            'baseline_off_cmd': 'cd /repo && /venv/bin/python -m pytest -ra -q -p no:cacheprovider --timeout=900 '
                                '--continue-on-collection-errors',
            'source_commits': [],
            'add_only': True,
        },
        'engines': [
            {'name': 'lean', 'path': 'lean/', 'serves_properties': sorted(CHECKS),
             'kind_free_text': 'Lean 4 library Usid: executable models, helper lemmas, property theorems, JSON line driver'},
            {'name': 'correspondence', 'path': 'harness/', 'serves_properties': sorted(CHECKS),
             'kind_free_text': 'Python harness: generators, real-code runners, oracles, model/implementation diff, verdict'},
            {'name': 'py2lean', 'path': 'harness/py2lean.py', 'serves_properties': [p for p in ('C14', 'C15', 'C03') if p in CHECKS],
             'kind_free_text': 'AST translator regenerating the integer kernels of process.py/comp_utils.py as Lean on every run'},
        ],
        'checks': checks,
        'not_applicable': [{'property_id': p, 'reason': REASON_PENDING} for p in ALL if p not in CHECKS],
        'notes': 'See DESIGN.md. Exit codes: 0 held, 1 VIOLATION, 2 infrastructure problem.',
    }
    with open(os.path.join(ROOT, 'MANIFEST.json'), 'w') as fh:
        json.dump(man, fh, indent=1)
    return man


if __name__ == '__main__':
    man = build()
    try:
        import jsonschema
        jsonschema.validate(man, json.load(open('/root/.vp/MANIFEST.schema.json')))
        print('MANIFEST valid;', len(man['checks']), 'checks')
    except ImportError:
        print('written (jsonschema not available to validate)')
