"""Regenerates /verif/MANIFEST.json from the table below (kept valid against the schema at all times)."""
import json
import os

ROOT = os.path.dirname(os.path.dirname(os.path.abspath(__file__)))
ALL = ['C%02d' % i for i in range(1, 21)]

COMMON_NOTE = ('Trusted: Lean 4.33 kernel; axioms limited to propext/Classical.choice/Quot.sound (audited each run by '
               '#print axioms; no sorry/native_decide); the hand-written model is tied to /repo by a differential '
               'correspondence run on every invocation (sampling, not proof); harness generator/oracles. ')

CHECKS = {
    'C14': dict(
        technique='Lean 4 theorems over kernels translated from process.py on every run + differential correspondence',
        text=('Theorems (Usid/Properties/C14.lean) prove for every rank count >= 1, every job count (including fewer jobs '
              'than ranks), every mask and batch >= 1 that the per-rank ranges are consecutive, disjoint and cover the '
              'pending list, that each rank batches exactly its own range within its limit, and that socket masters are '
              'the lowest rank of each processor name. The range/window arithmetic is REGENERATED from '
              'Process.__assign_job_indices/_read_data_chunk by harness/py2lean.py on every run and proved equal to the '
              'hand model, so the kernel re-checks the theorem against the current source. The correspondence runs the '
              'real compute() once per simulated rank and compares batches/marks with the model.'),
        note=COMMON_NOTE + 'Real MPI concurrency is not available in the sandbox and not modelled (ranks simulated via '
             'mpi_rank/mpi_size on file copies). py2lean grammar and attribute table are trusted.',
        ref='§5 C14'),
}

REASON_PENDING = 'check not built yet in this round (planned: Lean model + theorems + correspondence, see DESIGN.md §5)'


def build():
    checks = []
    for pid in ALL:
        if pid not in CHECKS:
            continue
        c = CHECKS[pid]
        checks.append({
            'property_id': pid,
            'quick_cmd': './check %s --tier quick' % pid,
            'thorough_cmd': './check %s --tier thorough' % pid,
            'evidence_file': 'evidence/%s.json' % pid,
            'replay_cmd_template': './check %s --replay {path}' % pid,
            'engine': 'lean+correspondence',
            'level_claimed': {'category': 'proof', 'text': c['text'], 'design_ref': c['ref']},
            'level_note': c['note'],
            'technique': c['technique'],
        })
    man = {
        'version': 1,
        'setup_cmd': 'cd lean && lake build',
        'hooks': {
            'guard': 'PYUSID_VERIF',
            'enable': 'no source hooks: observation is done by wrapping h5py/psutil entry points inside the harness process; '
                      'pyUSID is an editable install of /repo so checks always import the working tree',
            'baseline_off_cmd': 'cd /repo && /venv/bin/python -m pytest -ra -q -p no:cacheprovider --timeout=900 '
                                '--continue-on-collection-errors',
            'source_commits': [],
            'add_only': True,
        },
        'engines': [
            {'name': 'lean', 'path': 'lean/', 'serves_properties': sorted(CHECKS),
             'kind_free_text': 'Lean 4 library Usid: executable models, helper lemmas, property theorems, JSON line driver'},
            {'name': 'correspondence', 'path': 'harness/', 'serves_properties': sorted(CHECKS),
             'kind_free_text': 'Python harness: generators, real-code runners, oracles, model/implementation diff, verdict'},
            {'name': 'py2lean', 'path': 'harness/py2lean.py', 'serves_properties': [p for p in ('C14', 'C15', 'C03') if p in CHECKS],
             'kind_free_text': 'AST translator regenerating the integer kernels of process.py/comp_utils.py as Lean on every run'},
        ],
        'checks': checks,
        'not_applicable': [{'property_id': p, 'reason': REASON_PENDING} for p in ALL if p not in CHECKS],
        'notes': 'See DESIGN.md. Exit codes: 0 held, 1 VIOLATION, 2 infrastructure problem.',
    }
    with open(os.path.join(ROOT, 'MANIFEST.json'), 'w') as fh:
        json.dump(man, fh, indent=1)
    return man


if __name__ == '__main__':
    man = build()
    try:
        import jsonschema
        jsonschema.validate(man, json.load(open('/root/.vp/MANIFEST.schema.json')))
        print('MANIFEST valid;', len(man['checks']), 'checks')
    except ImportError:
        print('written (jsonschema not available to validate)')
