"""A minimal Process subclass used by the C03/C04/C05/C14/C15 harnesses, plus helpers to build
prior-run groups with raw h5py and to trace / crash-inject h5py file-modifying calls."""
import os
import contextlib
import numpy as np
import h5py

LOG_ENV = 'VERIF_CALL_LOG'
RAISE_ENV = 'VERIF_MAP_RAISE_AT'       # serial runs only: the map function raises once that many calls were logged


class MapFault(RuntimeError):
    """an ordinary error raised by the user's map function"""
    pass


def map_value(row):
    """the user's map function as pure arithmetic on a row of integer tokens"""
    row = np.asarray(row)
    return float(np.sum(np.real(row)) * 3 + 1)


def logged_map(row, *args, **kwargs):
    """f(row), or f(row) * scale + offset when compute() is given a positional offset and / or scale=..."""
    path = os.environ.get(LOG_ENV)
    raise_at = os.environ.get(RAISE_ENV)
    if path and raise_at is not None and os.path.exists(path) and \
            len(open(path).read().split()) >= int(raise_at):
        raise MapFault('the map function fails on its call number %s' % raise_at)
    if path and raise_at == '0' and not os.path.exists(path):
        raise MapFault('the map function fails on its first call')
    if path:
        fd = os.open(path, os.O_WRONLY | os.O_APPEND | os.O_CREAT)
        try:
            os.write(fd, ('%d\n' % int(round(float(np.real(np.asarray(row)[0]))))).encode())
        finally:
            os.close(fd)
    return map_value(row) * float(kwargs.get('scale', 1)) + float(args[0] if args else 0)


def read_log(path, m):
    """positions for which the map function was invoked, in log order (row token // m)"""
    if not os.path.exists(path):
        return []
    return [int(l) // m for l in open(path).read().split()]


def make_proc_class(collective=False, guarded=False):
    """collective=True: creating the results datasets is a collective operation (as under MPI with the parallel
    HDF5 driver): the first rank to arrive creates them, the others open them"""
    from pyUSID.processing.process import Process
    from pyUSID.io.hdf_utils import create_results_group
    from sidpy.hdf.hdf_utils import write_simple_attrs

    class RowProc(Process):
        def __init__(self, h5_main, process_name='RowProc', parms=None, lazy=False, **kwargs):
            super(RowProc, self).__init__(h5_main, process_name, parms_dict=parms, lazy=lazy, **kwargs)
            self._lazy_flag = lazy
            self.batches = []
            self.h5_results = None

        def _create_results_datasets(self):
            if collective:
                name = '%s-%s_000' % (self.h5_main.name.split('/')[-1], self.process_name)
                if name in self.h5_main.parent:
                    self.h5_results_grp = self.h5_main.parent[name]
                    self.h5_results = self.h5_results_grp['Results']
                    return
            self.h5_results_grp = create_results_group(self.h5_main, self.process_name,
                                                       h5_parent_group=self._h5_target_group)
            write_simple_attrs(self.h5_results_grp, self.parms_dict)
            self.h5_results = self.h5_results_grp.create_dataset(
                'Results', data=np.full((self.h5_main.shape[0],), -1.0, dtype=np.float64))

        def _get_existing_datasets(self):
            if guarded and self.h5_results_grp is None:
                return          # (a class that guards the probing call the constructor makes before any group exists)
            self.h5_results = self.h5_results_grp['Results']

        def _write_results_chunk(self):
            pos = self._get_pixels_in_current_batch()
            self.batches.append([int(p) for p in pos])
            vals = np.array(self._results, dtype=np.float64)
            if len(pos) > 0:
                self.h5_results[list(pos)] = vals

        def _unit_computation(self, *args, **kwargs):
            if self._lazy_flag:
                self.data = np.asarray(self.data.compute())
            return super(RowProc, self)._unit_computation(*args, **kwargs)

        _map_function = staticmethod(logged_map)

    return RowProc


def make_prior_group(h5_parent, dset_name, tool, parms, n, mask=None, results=None, index=0,
                     last_pixel=None, status_kind='ok', source=None):
    """build, with raw h5py, the group an earlier (possibly partial) run of `tool` on `dset_name`
    would have left behind"""
    grp = h5_parent.create_group('%s-%s_%03d' % (dset_name, tool, index))
    grp.attrs['tool'] = tool
    grp.attrs['machine_id'] = 'verif'
    grp.attrs['timestamp'] = 'none'
    if source is not None:
        grp.attrs['source_000'] = source.ref
    for k, v in (parms or {}).items():
        grp.attrs[k] = v
    if results is None:
        results = np.full((n,), -1.0)
    grp.create_dataset('Results', data=np.asarray(results, dtype=np.float64))
    if mask is not None and status_kind == 'ok':
        grp.create_dataset('completed_positions', data=np.asarray(mask, dtype=np.uint8))
    if last_pixel is not None:
        grp.attrs['last_pixel'] = last_pixel
    return grp


# ------------------------------------------------------------------------------------------------
# event tracing / crash injection on h5py's file-modifying entry points
# ------------------------------------------------------------------------------------------------

class Crash(BaseException):
    """injected interruption; a BaseException (like KeyboardInterrupt) so that library code catching
    `Exception` cannot swallow it; once raised, every later file-modifying call raises it again"""
    pass


class SoftFault(OSError):
    """injected ordinary I/O error: raised ONCE by the file-modifying call it replaces; library code may catch it,
    run its handlers / finally blocks and go on writing - unlike Crash, nothing is blocked afterwards"""
    pass


class Tracer(object):
    """wraps Dataset.__setitem__, File.flush, AttributeManager.create/__setitem__/modify,
    Group.create_dataset/create_group/__setitem__/__delitem__.  Records canonical events;
    raises Crash (or hard-exits) *before* performing event number `crash_at`."""

    def __init__(self, crash_at=None, hard=False, on_flush=None, active=True, soft=False):
        self.events = []
        self.crash_at = crash_at
        self.hard = hard
        self.soft = soft
        self.on_flush = on_flush
        self.active = active
        self._depth = 0

    def _tick(self, ev):
        if getattr(self, 'crashed', False):
            raise Crash('already crashed')
        if not self.active or self._depth > 0:
            return
        idx = len(self.events)
        if self.crash_at is not None and idx == self.crash_at:
            if self.soft:
                self.crash_at = None          # one shot: whatever the library does next is performed normally
                raise SoftFault('injected I/O error instead of event %d %r' % (idx, ev))
            if self.hard:
                os._exit(9)
            self.active = False
            self.crashed = True
            raise Crash('injected crash before event %d %r' % (idx, ev))
        self.events.append(ev)

    @contextlib.contextmanager
    def installed(self):
        tr = self
        orig = {}

        def patch(cls, name, make):
            orig[(cls, name)] = getattr(cls, name)
            setattr(cls, name, make(orig[(cls, name)]))

        def wrap_setitem(f):
            def g(self_, key, val):
                tr._tick({'e': 'write', 'file': os.path.basename(self_.file.filename), 'dset': self_.name,
                          'key': _key(key), 'val': _val(val)})
                tr._depth += 1
                try:
                    return f(self_, key, val)
                finally:
                    tr._depth -= 1
            return g

        def wrap_flush(f):
            def g(self_):
                tr._tick({'e': 'flush', 'file': os.path.basename(self_.filename)})
                tr._depth += 1
                try:
                    r = f(self_)
                finally:
                    tr._depth -= 1
                if tr.on_flush is not None and tr.active:
                    tr.on_flush(self_)
                return r
            return g

        def wrap_attr_create(f):
            def g(self_, name, data, *a, **k):
                obj = h5py.h5i.get_name(self_._id)
                tr._tick({'e': 'attr', 'obj': obj.decode() if isinstance(obj, bytes) else obj,
                          'name': name, 'val': _val(data)})
                tr._depth += 1
                try:
                    return f(self_, name, data, *a, **k)
                finally:
                    tr._depth -= 1
            return g

        def wrap_create_dataset(f):
            def g(self_, name, *a, **k):
                tr._tick({'e': 'create_dataset', 'file': os.path.basename(self_.file.filename),
                          'grp': self_.name, 'name': name})
                tr._depth += 1
                try:
                    return f(self_, name, *a, **k)
                finally:
                    tr._depth -= 1
            return g

        def wrap_create_group(f):
            def g(self_, name, *a, **k):
                tr._tick({'e': 'create_group', 'file': os.path.basename(self_.file.filename),
                          'grp': self_.name, 'name': name})
                tr._depth += 1
                try:
                    return f(self_, name, *a, **k)
                finally:
                    tr._depth -= 1
            return g

        patch(h5py.Dataset, '__setitem__', wrap_setitem)
        patch(h5py.File, 'flush', wrap_flush)
        patch(h5py.AttributeManager, 'create', wrap_attr_create)
        patch(h5py.Group, 'create_dataset', wrap_create_dataset)
        patch(h5py.Group, 'create_group', wrap_create_group)
        try:
            yield self
        finally:
            for (cls, name), f in orig.items():
                setattr(cls, name, f)


def _key(key):
    if isinstance(key, slice):
        return ['slice'] + [None if x is None else int(x) for x in (key.start, key.stop, key.step)]
    if isinstance(key, (list, np.ndarray)):
        return ['list'] + [int(x) for x in np.asarray(key).ravel()]
    if isinstance(key, tuple):
        return ['tuple'] + [_key(k) for k in key]
    if isinstance(key, (int, np.integer)):
        return ['int', int(key)]
    return ['other', str(key)]


def _val(v):
    try:
        a = np.asarray(v)
        if a.dtype.kind in 'iufb' and a.size <= 64:
            return [float(x) for x in a.ravel()]
        return str(a.dtype) + str(a.shape)
    except Exception:
        return 'opaque'


def expand_key(key, n):
    """positions addressed by a canonical key on a 1-D dataset of length n"""
    kind = key[0]
    if kind == 'slice':
        return list(range(n))[slice(key[1], key[2], key[3])]
    if kind == 'list':
        return [int(x) for x in key[1:]]
    if kind == 'int':
        return [key[1]]
    if kind == 'tuple' and len(key) == 2:
        return expand_key(key[1], n)
    return []


@contextlib.contextmanager
def fake_mpi(rank, size):
    """a stand-in for mpi4py under which a Process believes it is rank `rank` of `size` (single thread: barriers are
    no-ops); h5py.File.driver reports the parallel driver, without which Process ignores MPI"""
    import sys
    import types

    class Comm(object):
        def Get_size(self):
            return size

        def Get_rank(self):
            return rank

        def barrier(self):
            pass
        Barrier = barrier

        def allgather(self, item):
            return [item] * size

        def bcast(self, item, root=0):
            return item
    fake = types.ModuleType('mpi4py.MPI')
    fake.COMM_WORLD = Comm()
    fake.Get_processor_name = lambda: 'node0'
    pkg = types.ModuleType('mpi4py')
    pkg.MPI = fake
    saved = {k: sys.modules.get(k) for k in ('mpi4py', 'mpi4py.MPI')}
    saved_driver = h5py.File.driver
    sys.modules['mpi4py'], sys.modules['mpi4py.MPI'] = pkg, fake
    h5py.File.driver = property(lambda self: 'mpio')
    try:
        yield
    finally:
        h5py.File.driver = saved_driver
        for k, v in saved.items():
            if v is None:
                sys.modules.pop(k, None)
            else:
                sys.modules[k] = v

