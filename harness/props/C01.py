"""C01 — N-D form equals the coordinate map defined by the ancillary matrices."""
import os
import numpy as np
import h5py
import gen
from core import derived_rng
from util import call, quiet

REQUIRED_THEOREMS = ['Usid.C01.coordinate_map', 'Usid.C01.coordinate_map_sorted', 'Usid.C01.wrapper_views',
                     'Usid.C01.toggle_involutive', 'Usid.C01.views_after_ops', 'Usid.C01.one_permutation']
RULE = ('[also: reference values that repeat within a dimension or are not increasing - the N-D form is defined by the indices] [also: index matrices stored as uint8 / uint16 / int32 / int64; a family with 8-bit indices on a side of more than 255 points] [also: up to 4 dimensions per side, int32 data, a chunked main dataset, verbose=True, the wrapper read lazily, explicit ancillaries as numpy / h5py / dask objects or for one side only, the two-value return form] generator datasets (1-3 dimensions per side, sizes 1-4 biased to 1 and equal sizes, every storage permutation '
        'reachable, dtypes float64/float32/complex128/compound, built with raw h5py); reshape_to_n_dims for '
        'sort_dims x lazy, with HDF5 and in-memory ancillaries; USIDataset(sort_dims in {F,T}) followed by a random '
        'list of toggles and reads; non-trivial = some side has >= 2 dimensions of size > 1 stored in non-identity '
        'rate order')
TRUSTED = ['numpy / dask reshape and transpose semantics are assumed by the theorems and exercised by the correspondence',
           'the order of TIED (size-1) dimensions in the sorted view depends on numpy\'s argsort tie-breaking: views '
           'are compared after transposing to the file order of the labels, plus the order of the size>1 labels']


def generate(seed, tier):
    n_cases = {'quick': 160, 'thorough': 2500, 'search': 1200}[tier]
    cases = []
    for i in range(n_cases):
        rng = derived_rng(seed, 'C01', i)
        while True:
            ds = gen.gen_dataset(rng, max_dims=(4 if i % 10 == 9 else 3), max_size=4,
                                 dtypes=('f8', 'f8', 'f4', 'c16', 'compound', 'i4'), long_prob=0.12,
                                 dup_prob=0.2, unsorted_prob=0.2)
            if gen.n_points(ds['pos']) * gen.n_points(ds['spec']) <= 700:
                break
        ops = [rng.choice(['toggle', 'read', 'toggle']) for _ in range(rng.randint(0, 5))]
        cases.append({'ds': ds, 'ops': ops, 'sort_init': rng.random() < 0.5,
                      # a chunked main dataset (the lazy forms then have several chunks), verbose output, how the wrapper
                      # is read (eager / lazy), how explicit ancillaries are handed over
                      'chunked': rng.random() < 0.35, 'verbose': rng.random() < 0.2, 'wrapper_lazy': rng.random() < 0.4,
                      'anc_as': rng.choice(['numpy', 'numpy', 'h5py', 'dask', 'pos_only', 'spec_only'])})
    # index matrices stored as 8-bit integers on a side with MORE points than 8 bits can count (every index itself
    # fits): anything the library counts in the element type of the matrix wraps around
    for i in range({'quick': 4, 'thorough': 30, 'search': 16}[tier]):
        rng = derived_rng(seed, 'C01w', i)
        sizes = list(rng.choice([[3, 100], [100, 3], [2, 2, 70], [5, 60], [130, 2]]))
        rate = list(range(len(sizes)))
        rng.shuffle(rate)
        big = {'sizes': sizes, 'rate': rate, 'labels': ['W' + gen.LETTERS[d] for d in range(len(sizes))],
               'units': ['uw%d' % d for d in range(len(sizes))], 'values': [[3 * d + j for j in range(s)] for d, s in enumerate(sizes)]}
        small = gen.gen_side(rng, 'V', 1, 2)
        ds = {'pos': big, 'spec': small, 'dtype': 'f8', 'idx_dtype': 'u1'} if i % 2 == 0 else \
            {'pos': dict(small, labels=['V' + l[1:] for l in small['labels']]), 'spec': big, 'dtype': 'f8', 'idx_dtype': 'u1'}
        cases.append({'ds': ds, 'ops': [rng.choice(['toggle', 'read']) for _ in range(2)], 'sort_init': rng.random() < 0.5,
                      'chunked': False, 'verbose': False, 'wrapper_lazy': False, 'anc_as': rng.choice(['h5py', 'numpy'])})
    return cases


def _arr(a):
    a = np.asarray(a.compute() if hasattr(a, 'compute') else a)
    return {'shape': list(a.shape), 'flat': gen.tokens(a).ravel().tolist()}


def _labels(l):
    return [x.decode() if isinstance(x, bytes) else str(x) for x in l]


def run_impl(inp, work):
    from pyUSID.io.hdf_utils import reshape_to_n_dims
    from pyUSID import USIDataset
    ds = inp['ds']
    path = os.path.join(work, 'a.h5')
    with h5py.File(path, 'w') as f:
        n_, m_ = gen.n_points(ds['pos']), gen.n_points(ds['spec'])
        gen.write_usid(f.create_group('G'), ds, chunks=((max(1, (n_ + 1) // 2), max(1, (m_ + 1) // 2)) if inp.get('chunked') else None))
    out = {'free': {}, 'wrapper': None, 'mem': None}
    vkw = {'verbose': True} if inp.get('verbose') else {}
    with h5py.File(path, 'r') as f:
        h5 = f['G/main']
        for sort in (False, True):
            for lazy in (False, True):
                with quiet():
                    r = call(reshape_to_n_dims, h5, get_labels=True, sort_dims=sort, lazy=lazy, **vkw)
                key = 'sort%d_lazy%d' % (sort, lazy)
                if r[0] == 'err':
                    out['free'][key] = {'err': r[1]}
                else:
                    nd, ok, labs = r[1]
                    out['free'][key] = dict(_arr(nd), labels=_labels(labs), success=(ok is True))
        import dask.array as da
        hp, hs = f['G/Position_Indices'], f['G/Spectroscopic_Indices']
        how = inp.get('anc_as', 'numpy')
        akw = {'numpy': dict(h5_pos=hp[()], h5_spec=hs[()]), 'h5py': dict(h5_pos=hp, h5_spec=hs),
               'dask': dict(h5_pos=da.from_array(hp[()], chunks=hp.shape), h5_spec=da.from_array(hs[()], chunks=hs.shape)),
               'pos_only': dict(h5_pos=hp[()]), 'spec_only': dict(h5_spec=hs[()])}[how]
        r = call(reshape_to_n_dims, h5, get_labels=True, **akw)
        if r[0] == 'err':
            out['mem'] = {'err': r[1]}
        else:
            nd, ok, labs = r[1]
            out['mem'] = dict(_arr(nd), labels=_labels(labs))
        # the two-value return form, and the N-D form flattened to real numbers
        r = call(reshape_to_n_dims, h5, sort_dims=inp['sort_init'])
        out['two_tuple'] = (dict(_arr(r[1][0]), n=len(r[1])) if r[0] == 'ok' else {'err': r[1]})
        r = call(USIDataset, h5, sort_dims=inp['sort_init'])
        if r[0] == 'err':
            out['wrapper'] = {'err': r[1]}
        else:
            u = r[1]

            def snap():
                rr = call(u.get_n_dim_form, lazy=True) if inp.get('wrapper_lazy') else call(u.get_n_dim_form)
                return {'labels': _labels(u.n_dim_labels), 'sizes': [int(x) for x in u.n_dim_sizes],
                        'view': _arr(rr[1]) if rr[0] == 'ok' else {'err': rr[1]}}
            snaps = [snap()]
            for op in inp['ops']:
                if op == 'toggle':
                    with quiet():
                        u.toggle_sorting()
                snaps.append(snap())
            out['wrapper'] = snaps
    return out


def _check_view(inp, view, labels, sorted_view, what, fails, default_labels=False):
    """the coordinate-map statement for one returned N-D array"""
    ds = inp['ds']
    pos, spec = ds['pos'], ds['spec']
    plabs = ['Position Dimension %d' % i for i in range(len(pos['sizes']))] if default_labels in (True, 'both', 'pos') else pos['labels']
    slabs = ['Spectral Dimension %d' % i for i in range(len(spec['sizes']))] if default_labels in (True, 'both', 'spec') else spec['labels']
    size_of = dict(zip(plabs + slabs, pos['sizes'] + spec['sizes']))
    n, m = gen.n_points(pos), gen.n_points(spec)
    if 'err' in view:
        fails.append('%s-raises: %s' % (what, view['err']))
        return
    if sorted(labels) != sorted(plabs + slabs):
        fails.append('%s-labels: returned labels %s are not the dimension labels' % (what, labels))
        return
    if not sorted_view and labels != plabs + slabs:
        fails.append('%s-label-order: file-order view has labels %s, expected %s' % (what, labels, plabs + slabs))
    if view['shape'] != [size_of[l] for l in labels]:
        fails.append('%s-shape: shape %s does not match the sizes of the labelled axes %s' % (what, view['shape'], labels))
        return
    if sorted_view:
        for side, labs in ((pos, plabs), (spec, slabs)):
            want = [labs[d] for d in reversed(side['rate']) if side['sizes'][d] > 1]
            got = [l for l in labels if l in labs and size_of[l] > 1]
            if got != want:
                fails.append('%s-sorted-order: axes %s are not ordered slowest to fastest (%s)' % (what, got, want))
        if [l in plabs for l in labels] != [True] * len(plabs) + [False] * len(slabs):
            fails.append('%s-sorted-sides: position axes do not precede spectroscopic axes' % what)
    arr = np.array(view['flat']).reshape(view['shape'])
    pi = gen.index_matrix(pos['sizes'], pos['rate'])
    si = gen.index_matrix(spec['sizes'], spec['rate'])
    coord = {}
    want = np.empty(view['shape'], dtype=np.int64)
    lab_pos = {l: i for i, l in enumerate(labels)}
    for r in range(n):
        for c in range(m):
            idx = [0] * len(labels)
            for d, l in enumerate(plabs):
                idx[lab_pos[l]] = int(pi[r, d])
            for d, l in enumerate(slabs):
                idx[lab_pos[l]] = int(si[c, d])
            want[tuple(idx)] = r * m + c
    if not np.array_equal(arr, want):
        bad = np.argwhere(arr != want)
        fails.append('%s-coordinate-map: %d of %d elements are not main[r, c] for the row/column carrying their '
                     'indices (first at %s)' % (what, len(bad), arr.size, bad[0].tolist()))


def oracle(inp, obs):
    fails = []
    for key, v in obs['free'].items():
        sort = key.startswith('sort1')
        _check_view(inp, v, v.get('labels', []), sort, 'free-' + key, fails)
        if 'err' not in v and not v.get('success'):
            fails.append('free-%s-success-flag: success flag is not True' % key)
    for sort in (0, 1):
        a, b = obs['free']['sort%d_lazy0' % sort], obs['free']['sort%d_lazy1' % sort]
        if a != b:
            fails.append('lazy-eager: lazy and eager N-D forms differ (sort_dims=%s)' % bool(sort))
    how = inp.get('anc_as', 'numpy')
    # labels are read from HDF5 ancillaries and generated ('Position Dimension 0' ...) for bare arrays, side by side
    _check_view(inp, obs['mem'], obs['mem'].get('labels', []), False, 'explicit-ancillaries-%s' % how, fails,
                default_labels={'numpy': 'both', 'dask': 'both', 'h5py': None, 'pos_only': 'pos', 'spec_only': 'spec'}[how])
    tt = obs.get('two_tuple')
    if tt is not None:
        key = 'sort%d_lazy0' % int(bool(inp['sort_init']))
        if 'err' in tt or tt.get('n') != 2 or (tt['shape'], tt['flat']) != (obs['free'][key].get('shape'), obs['free'][key].get('flat')):
            fails.append('two-value-return: reshape_to_n_dims without get_labels does not return (the same N-D form, success)')
    w = obs['wrapper']
    if isinstance(w, dict):
        fails.append('wrapper-raises: USIDataset raised %s' % w['err'])
        return fails
    flag = inp['sort_init']
    flags = [flag]
    for op in inp['ops']:
        if op == 'toggle':
            flag = not flag
        flags.append(flag)
    for i, (s, fl) in enumerate(zip(w, flags)):
        what = 'wrapper(init sort_dims=%s, after %d ops, sorted=%s)' % (inp['sort_init'], i, fl)
        _check_view(inp, s['view'], s['labels'], fl, what, fails)
        if 'err' not in s['view'] and s['sizes'] != s['view']['shape']:
            fails.append('%s-sizes: n_dim_sizes %s differ from the shape of the N-D form %s' % (what, s['sizes'], s['view']['shape']))
    # toggling twice restores
    for i in range(len(w) - 2):
        if inp['ops'][i] == 'toggle' and inp['ops'][i + 1] == 'toggle' and w[i] != w[i + 2]:
            fails.append('toggle-twice: two toggles did not restore the view')
    return fails


def nontrivial(inp, obs):
    for side in (inp['ds']['pos'], inp['ds']['spec']):
        big = [d for d in side['rate'] if side['sizes'][d] > 1]
        if len(big) >= 2 and big != sorted(big):
            return True
    return False


def _req(inp, op, **kw):
    ds = inp['ds']
    d = {'op': op, 'n': gen.n_points(ds['pos']), 'm': gen.n_points(ds['spec']),
         'pos': gen.index_matrix(ds['pos']['sizes'], ds['pos']['rate']).tolist(),
         'spec': gen.index_matrix(ds['spec']['sizes'], ds['spec']['rate']).T.tolist(),
         'plabs': ds['pos']['labels'], 'slabs': ds['spec']['labels']}
    d.update(kw)
    return d


def model_requests(inp):
    return [_req(inp, 'rs.to_nd', sort=False), _req(inp, 'rs.to_nd', sort=True),
            _req(inp, 'rs.wrapper', sort=inp['sort_init'], ops=inp['ops'])]


def _canon(inp, view, labels):
    """transpose to the file order of the labels + the order of the labels of size > 1"""
    ds = inp['ds']
    file_labels = ds['pos']['labels'] + ds['spec']['labels']
    if view is None or 'err' in view or sorted(labels) != sorted(file_labels):
        return {'err': True}
    size_of = dict(zip(file_labels, ds['pos']['sizes'] + ds['spec']['sizes']))
    if view['shape'] != [size_of[l] for l in labels]:
        return {'bad_shape': view['shape'], 'labels': labels}
    arr = np.array(view['flat']).reshape(view['shape'])
    perm = [labels.index(l) for l in file_labels]
    return {'big_order': [l for l in labels if size_of[l] > 1],
            'data': np.transpose(arr, perm).ravel().tolist() if arr.ndim else arr.ravel().tolist()}


def model_obs(inp, resp):
    f0, f1, w = resp
    out = {}
    for key, r in (('sort0', f0), ('sort1', f1)):
        out[key] = _canon(inp, r['ok'], r['ok']['labels']) if 'ok' in r else {'err': True}
    if 'ok' in w:
        out['wrapper'] = [_canon(inp, s['view'], s['labels']) for s in w['ok']]
    else:
        out['wrapper'] = {'err': True}
    return out


def project(inp, obs):
    out = {}
    for key, k2 in (('sort0', 'sort0_lazy0'), ('sort1', 'sort1_lazy0')):
        v = obs['free'][k2]
        out[key] = _canon(inp, v, v.get('labels', []))
    w = obs['wrapper']
    out['wrapper'] = {'err': True} if isinstance(w, dict) else [_canon(inp, s['view'], s['labels']) for s in w]
    return out


def _dims_gt_points(inp, obs, failure):
    ds = inp['ds']
    # KF-D5a shows, on such inputs, as a refusal (`...-raises`), as a shortened label list (`...-labels`) or as the
    # two-value return of the free function.  Misplaced elements, wrong shapes or sizes, eager/lazy or toggle
    # differences are NOT what the finding describes and are reported even on these inputs.
    key = failure.split(':')[0]
    if not (key.endswith('-raises') or key.endswith('-labels') or key == 'two-value-return'):
        return False
    return any(len(s['sizes']) > gen.n_points(s) for s in (ds['pos'], ds['spec']))


KNOWN_CLASSES = {'more_dims_than_points': _dims_gt_points}


def distribution(cases, obs):
    d = {'sort_init': 0, 'toggles': 0, 'dims>points': 0, 'with_size1': 0, 'dtype:f8': 0, 'dtype:f4': 0, 'dtype:c16': 0,
         'dtype:compound': 0, 'dtype:i4': 0, 'non_identity_rate': 0}
    for c in cases:
        ds = c['ds']
        d['sort_init'] += c['sort_init']
        d['toggles'] += c['ops'].count('toggle')
        d['dims>points'] += any(len(s['sizes']) > gen.n_points(s) for s in (ds['pos'], ds['spec']))
        d['with_size1'] += any(1 in s['sizes'] for s in (ds['pos'], ds['spec']))
        d['dtype:' + ds['dtype']] += 1
        d['non_identity_rate'] += any(s['rate'] != sorted(s['rate']) for s in (ds['pos'], ds['spec']))
    return d
