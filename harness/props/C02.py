"""C02 — writing a Main dataset yields a valid, coordinate-faithful structure."""
import os
import copy
import numpy as np
import h5py
import dask.array as da
import gen
from core import derived_rng
from util import call, quiet
from props.C06 import describe, rules

REQUIRED_THEOREMS = ['Usid.C02.reject_atomic', 'Usid.C02.accept_valid', 'Usid.C02.accept_faithful',
                     'Usid.C02.malformed_reuse_rejected']
RULE = ('[also: lazy data whose computation raises an error class of its own (RuntimeError) while being stored] [also: a reused ancillary pair without labels / units] [also: dimension values that are descending, shuffled or not distinct] [also: a pair reused from another file whose name is already taken in the target group] [also: an ancillary pair offered for reuse whose Values matrix has another number of dimensions than its Indices matrix] [also: verbose=True, lazy data in several chunks, main_dset_attrs, dimension values as float64 / float32 arrays; stored quantity / units observed] [also: refusals by HDF5 itself after the validation passed - an unknown compression filter, chunks larger than the dataset] [optional dtype= and compression= keyword arguments included; every eleventh case lazy data with an explicit element type] random calls of write_main_dataset: data as numpy / dask / empty shape + dtype, dimension lists whose product '
        'equals or differs from the data shape, slow_to_fast in {F,T}, custom prefixes (with "-"), reuse of ancillaries '
        'from the same or another file, wrong argument types, and prior group contents with clashing names of every '
        'kind (Position_*, Spectroscopic_*, the main name); after a rejection the corrected call is retried in the '
        'same group; non-trivial = the call is rejected, or >= 2 dimensions on a side')
PRIOR = ['Position_Indices', 'Position_Values', 'Spectroscopic_Indices', 'Spectroscopic_Values', 'MAIN', 'unrelated',
         'Spec_Y_Indices', 'Spec_Y_Values', 'My_Pos_Values', 'My_Pos_Indices', 'PosX_Indices', 'Same_Values', 'MA_IN']
ERRORS = ['none', 'none', 'none', 'none', 'pos_size', 'spec_size', 'pos_type', 'spec_type', 'quantity_type', 'data_rank',
          'empty_no_dtype', 'data_type',
          # refusals that can only come from HDF5 itself, i.e. after the arguments passed the library's own validation
          'bad_compression', 'bad_chunks',
          # an ancillary pair offered for reuse whose Values matrix describes another number of dimensions than its
          # Indices matrix (right length along the axis of the main dataset)
          'reuse_pair', 'reuse_pair',
          # ... or which lacks the description (labels / units) every ancillary dataset must carry: the shapes agree, so
          # the refusal can only come once the finished dataset is examined
          'reuse_undescribed',
          # lazy data whose computation fails with an error class of its own while it is being stored
          'lazy_fails']


def _dims(rng, side, prefix):
    return [{'name': l, 'units': u, 'values': v} for l, u, v in zip(side['labels'], side['units'], side['values'])]


def generate(seed, tier):
    n_cases = {'quick': 220, 'thorough': 3000, 'search': 1500}[tier]
    cases = []
    for i in range(n_cases):
        rng = derived_rng(seed, 'C02', i)
        while True:
            ds = gen.gen_dataset(rng, max_dims=3, max_size=4, dtypes=('f8', 'f4', 'c16'), long_prob=0.12,
                                 unsorted_prob=0.25, dup_prob=0.15)
            if gen.n_points(ds['pos']) * gen.n_points(ds['spec']) <= 400:
                break
        # dimensions are supplied in the order the caller declares (fastest first unless s2f)
        err = rng.choice(ERRORS)
        prior = [p for p in PRIOR if rng.random() < 0.18]
        cases.append({'ds': ds, 's2f': rng.random() < 0.5, 'err': err, 'prior': prior,
                      'data': rng.choice(['numpy', 'numpy', 'dask', 'empty']),
                      'reuse_pos': rng.choice([None, None, None, 'same', 'other']),
                      'reuse_spec': rng.choice([None, None, None, 'same', 'other']),
                      'pos_prefix': rng.choice(['Position_', 'Position_', 'My-Pos', 'PosX_', 'Same_']),
                      'spec_prefix': rng.choice(['Spectroscopic_', 'Spectroscopic_', 'Spec-Y_', 'Same_']),
                      'name': rng.choice(['MAIN', 'MAIN', ' MAIN ', 'MA-IN', 'Position_Values']),
                      # optional h5py keyword arguments handed through to the dataset creation
                      'kw_dtype': rng.choice([None, None, None, 'f4', 'f8']) if ds['dtype'] in ('f8', 'f4') else None,
                      'kw_compression': rng.choice([None, None, None, 'gzip']),
                      # verbose output, lazy data in several chunks, extra attributes for the main dataset, dimension
                      # values handed over as numpy arrays
                      'verbose': rng.random() < 0.15, 'multichunk': rng.random() < 0.5,
                      'main_attrs': rng.choice([None, None, {'note': 5}, {'comment': 'text', 'gain': 2.5}]),
                      'dim_values_as': rng.choice(['list', 'list', 'array', 'f4array'])})
        # a pair reused from ANOTHER file is copied into the group under its own names: something else already sits
        # at one of them
        rq = derived_rng(seed, 'C02q', i)
        for key in ('pos', 'spec'):
            if cases[-1]['reuse_' + key] == 'other' and rq.random() < 0.3:
                cases[-1]['prior'] = cases[-1]['prior'] + ['R%s_%s' % (key, rq.choice(['Indices', 'Values']))]
        if err == 'reuse_undescribed':
            rp = derived_rng(seed, 'C02u', i)
            side = rp.choice(['pos', 'spec'])
            cases[-1]['reuse_bad_side'] = side
            cases[-1]['reuse_bad_how'] = rp.choice(['labels', 'units', 'both', 'values_labels', 'indices_extra', 'indices_extra'])
            if not cases[-1]['reuse_' + side]:
                cases[-1]['reuse_' + side] = rp.choice(['same', 'other'])
        if err in ('reuse_undescribed', 'reuse_pair', 'lazy_fails') and derived_rng(seed, 'C02c', i).random() < 0.6:
            # ... with nothing else wrong, so that THIS refusal is the one that decides the call
            cases[-1].update(prior=[], name='MAIN', pos_prefix='Position_', spec_prefix='Spectroscopic_')
        if err == 'reuse_pair':
            rp = derived_rng(seed, 'C02r', i)
            side = rp.choice(['pos', 'spec'])
            cases[-1]['reuse_bad_side'] = side
            cases[-1]['reuse_bad_how'] = rp.choice(['more', 'more', 'fewer'])
            if not cases[-1]['reuse_' + side]:
                cases[-1]['reuse_' + side] = rp.choice(['same', 'other'])
        if i % 11 == 10:      # a valid call with lazy data and an element type narrower / wider than the data's
            cases[-1].update({'err': 'none', 'data': 'dask', 'kw_dtype': rng.choice(['f4', 'f8'])})
            cases[-1]['ds'] = dict(ds, dtype=rng.choice(['f8', 'f4']))
    return cases


def _dump_group(g):
    out = {}
    for k in sorted(g.keys()):
        o = g[k]
        if isinstance(o, h5py.Dataset):
            out[k] = [str(o.dtype), list(o.shape), sorted((a, str(np.asarray(o.attrs[a]).tolist()) if not isinstance(o.attrs[a], h5py.Reference) else 'ref')
                                                        for a in o.attrs.keys() if a not in ('timestamp', 'machine_id', 'platform'))]
        else:
            out[k] = 'group'
    return out


def _declared(side, s2f):
    """the caller's dimension list: rate order fastest first, reversed when declaring slowest first"""
    order = list(side['rate'])
    if s2f:
        order = order[::-1]
    return [{'name': side['labels'][d], 'units': side['units'][d], 'values': side['values'][d]} for d in order]


def _args(inp, err):
    """python-level argument description (JSON) for one attempt with error kind `err`"""
    ds = inp['ds']
    n, m = gen.n_points(ds['pos']), gen.n_points(ds['spec'])
    a = {'shape': [n, m], 'pos': _declared(ds['pos'], inp['s2f']), 'spec': _declared(ds['spec'], inp['s2f']),
         'pos_bad_type': err == 'pos_type', 'spec_bad_type': err == 'spec_type', 'quantity_ok': err != 'quantity_type',
         'data': inp['data'], 'data_rank_bad': err == 'data_rank', 'empty_no_dtype': err == 'empty_no_dtype',
         'data_bad_type': err == 'data_type', 'bad_compression': err == 'bad_compression', 'bad_chunks': err == 'bad_chunks',
         'reuse_pair_bad': inp.get('reuse_bad_side') if err == 'reuse_pair' else None,
         'reuse_undescribed': inp.get('reuse_bad_side') if err == 'reuse_undescribed' else None,
         'lazy_fails': err == 'lazy_fails'}
    if err == 'pos_size':
        a['pos'] = copy.deepcopy(a['pos'])
        a['pos'][0]['values'] = a['pos'][0]['values'] + [99]
    if err == 'spec_size':
        a['spec'] = copy.deepcopy(a['spec'])
        a['spec'][0]['values'] = a['spec'][0]['values'] + [99]
    return a


def _call(inp, grp, other, a, data_arr):
    from pyUSID.io.hdf_utils import write_main_dataset, write_ind_val_dsets
    from pyUSID.io.dimension import Dimension

    def mk(dl):
        conv = {'list': list, 'array': np.array, 'f4array': lambda v: np.array(v, dtype=np.float32)}[inp.get('dim_values_as', 'list')]
        return [Dimension(d['name'], d['units'], conv([v / 4.0 for v in d['values']])) for d in dl]
    kw = {'slow_to_fast': inp['s2f'], 'aux_pos_prefix': inp['pos_prefix'], 'aux_spec_prefix': inp['spec_prefix']}
    pos_dims = 'not dims' if a['pos_bad_type'] else mk(a['pos'])
    spec_dims = [1, 2] if a['spec_bad_type'] else mk(a['spec'])
    for side, key, dims, is_spec in (('pos', 'reuse_pos', a['pos'], False), ('spec', 'reuse_spec', a['spec'], True)):
        if inp[key]:
            tgt = grp if inp[key] == 'same' else other
            base = 'R%s_' % side
            if base + 'Indices' not in tgt:
                with quiet():
                    write_ind_val_dsets(tgt, mk(dims), is_spectral=is_spec, slow_to_fast=inp['s2f'], base_name=base)
            if a.get('reuse_pair_bad') == side:
                v = tgt[base + 'Values']
                mat, attrs = v[()], dict(v.attrs)
                del tgt[base + 'Values']
                ax = 0 if is_spec else 1
                if inp.get('reuse_bad_how') == 'fewer' and mat.shape[ax] >= 2:
                    mat = np.delete(mat, 0, axis=ax)
                else:
                    mat = np.concatenate([mat, np.take(mat, [0], axis=ax)], axis=ax)
                v = tgt.create_dataset(base + 'Values', data=mat)
                for k_, v_ in attrs.items():
                    v.attrs[k_] = v_
            if a.get('reuse_undescribed') == side:
                how = inp.get('reuse_bad_how')
                if how == 'indices_extra':
                    # the Indices matrix is described by MORE labels / units than the Values matrix (and than it has dimensions)
                    vi = tgt[base + 'Indices']
                    vi.attrs['labels'] = np.array(list(vi.attrs['labels']) + [b'ZZ'], dtype='S')
                    vi.attrs['units'] = np.array(list(vi.attrs['units']) + [b'zz'], dtype='S')
                    how = None
                victims = [tgt[base + 'Values']] if how == 'values_labels' else [tgt[base + 'Indices'], tgt[base + 'Values']]
                for v in victims:
                    for att in {'labels': ['labels'], 'units': ['units'], 'both': ['labels', 'units'],
                                'values_labels': ['labels'], None: []}[how]:
                        if att in v.attrs:
                            del v.attrs[att]
            kw['h5_%s_inds' % side] = tgt[base + 'Indices']
            kw['h5_%s_vals' % side] = tgt[base + 'Values']
            if side == 'pos':
                pos_dims = None
            else:
                spec_dims = None
    if a['data_bad_type']:
        data = 'not an array'
    elif a['data'] == 'empty':
        data = tuple(a['shape'])
        if not a['empty_no_dtype']:
            kw['dtype'] = np.float32
    else:
        arr = data_arr.reshape(-1) if a['data_rank_bad'] else data_arr
        chunks = tuple(max(1, (x + 1) // 2) for x in arr.shape) if inp.get('multichunk') else arr.shape
        data = da.from_array(arr, chunks=chunks) if a['data'] == 'dask' else arr
        if inp.get('kw_dtype') and not a['empty_no_dtype']:
            kw['dtype'] = {'f4': np.float32, 'f8': np.float64}[inp['kw_dtype']]
    if a.get('lazy_fails'):
        def _boom(block):
            raise RuntimeError('the acquisition buffer is gone')
        kw.pop('dtype', None)
        data = da.from_array(data_arr, chunks=data_arr.shape).map_blocks(_boom, dtype=data_arr.dtype)
    if inp.get('kw_compression'):
        kw['compression'] = inp['kw_compression']
    if a.get('bad_compression'):
        kw['compression'] = 'bogus'
    if a.get('bad_chunks'):
        kw['chunks'] = (a['shape'][0] + 1, a['shape'][1])
    if a['empty_no_dtype'] and a['data'] != 'empty':
        data = tuple(a['shape'])
    quantity = 'Current' if a['quantity_ok'] else 5
    if inp.get('verbose'):
        kw['verbose'] = True
    if inp.get('main_attrs'):
        kw['main_dset_attrs'] = dict(inp['main_attrs'])
    names_before = [[d.name for d in l] if isinstance(l, list) and all(hasattr(d, 'name') for d in l) else None
                    for l in (pos_dims, spec_dims)]
    with quiet():
        r = call(write_main_dataset, grp, data, inp['name'], quantity, 'nA', pos_dims, spec_dims, **kw)
    names_after = [[d.name for d in l] if isinstance(l, list) and all(hasattr(d, 'name') for d in l) else None
                   for l in (pos_dims, spec_dims)]
    _ARGS_MUTATED[0] = names_before != names_after
    return r


def run_impl(inp, work):
    ds = inp['ds']
    n, m = gen.n_points(ds['pos']), gen.n_points(ds['spec'])
    data_arr = gen.main_array(n, m, ds['dtype'])
    out = {}
    f = h5py.File(os.path.join(work, 'a.h5'), 'w')
    fo = h5py.File(os.path.join(work, 'b.h5'), 'w')
    try:
        grp = f.create_group('G')
        other = fo.create_group('O')
        for p in inp['prior']:
            if p == 'unrelated':
                grp.create_group('unrelated')
            else:
                grp.create_dataset(p, data=np.zeros(2))
        # reusable ancillaries are created first (they are part of the prior state)
        a1 = _args(inp, inp['err'])
        before = _dump_group(grp)
        r = _call(inp, grp, other, a1, data_arr)
        # the reused ancillaries were created by the harness inside _call before the library call: recompute `before`
        before = {k: v for k, v in _dump_group(grp).items() if k in before or k.startswith('R')} if False else before
        after = _dump_group(grp)
        before = {k: v for k, v in before.items()}
        # ancillaries supplied for reuse were made by the harness (the caller), not by the library
        for k in list(after.keys()):
            if (k.startswith('Rpos_') or k.startswith('Rspec_')) and k not in before and \
                    ((k.startswith('Rpos_') and inp['reuse_pos'] == 'same') or (k.startswith('Rspec_') and inp['reuse_spec'] == 'same')):
                before[k] = after[k]
        out['first'] = _result(inp, f, grp, r, before, after, data_arr)
        out['first']['args_mutated'] = bool(_ARGS_MUTATED[0])
        if r[0] == 'err':
            # corrected retry in the same group: fix the arguments and move clashing objects out of the way
            clash = [p for p in inp['prior'] if p != 'unrelated']
            for p in clash:
                if p in grp:
                    del grp[p]
            # the (possibly wrong) ancillaries the caller supplied are part of the arguments: supply correct ones
            for tgt in (grp, other):
                for k in [k for k in tgt.keys() if k.startswith('Rpos_') or k.startswith('Rspec_')]:
                    del tgt[k]
            a2 = _args(inp, 'none')
            inp2 = dict(inp)
            name = inp['name'].strip().replace('-', '_')
            pp, sp = _norm_prefix(inp['pos_prefix']), _norm_prefix(inp['spec_prefix'])
            new = [name] + ([] if inp['reuse_pos'] else [pp + 'Indices', pp + 'Values']) + \
                ([] if inp['reuse_spec'] else [sp + 'Indices', sp + 'Values'])
            if len(set(new)) != len(new):          # the corrected call uses distinct names
                inp2['pos_prefix'], inp2['spec_prefix'], inp2['name'] = 'CorrPos_', 'CorrSpec_', 'CORRECTED'
            before2 = _dump_group(grp)
            r2 = _call(inp2, grp, other, a2, data_arr)
            out['retry'] = _result(inp2, f, grp, r2, before2, _dump_group(grp), data_arr)
        return out
    finally:
        f.close()
        fo.close()


def _result(inp, f, grp, r, before, after, data_arr):
    name = inp['name'].strip().replace('-', '_')
    if r[0] == 'err':
        # ancillaries offered for reuse IN THIS GROUP were put there by the caller; copies of ancillaries that live
        # in another file are made by the library and must not survive a rejected call
        harness_made = {k for k in after if (k.startswith('Rpos_') and inp['reuse_pos'] == 'same') or
                        (k.startswith('Rspec_') and inp['reuse_spec'] == 'same')}
        left = sorted(k for k in after if k not in before and k not in harness_made)
        changed = sorted(k for k in before if k in after and before[k] != after[k])
        return {'err': r[1], 'cls': r[2], 'left_behind': left, 'changed': changed}
    h5 = grp[name]
    d = describe(f, h5)
    res = {'ok': True, 'valid': rules(d), 'desc': d,
           'quantity_units': [str(h5.attrs.get('quantity')), str(h5.attrs.get('units'))],
           'main_attrs_ok': all(k in h5.attrs and h5.attrs[k] == v for k, v in (inp.get('main_attrs') or {}).items())}
    if inp['data'] != 'empty':
        res['data_equal'] = bool(np.array_equal(h5[()], data_arr))
    else:
        res['data_equal'] = bool(h5.shape == data_arr.shape and not np.any(h5[()]))
    # coordinates: read the ancillaries back with raw h5py
    pi, pv = f[h5.attrs['Position_Indices']], f[h5.attrs['Position_Values']]
    si, sv = f[h5.attrs['Spectroscopic_Indices']], f[h5.attrs['Spectroscopic_Values']]

    def strs(a):
        return [x.decode() if isinstance(x, bytes) else str(x) for x in a]
    if any(a_ not in d_.attrs for d_ in (pi, si) for a_ in ('labels', 'units')):
        # an accepted dataset whose ancillaries lack their description: nothing more to read, the verdict is the oracle's
        res['anc'] = None
        res['new_members'] = sorted(k for k in after if k not in before)
        return res
    res['anc'] = {'pos_labels': strs(pi.attrs['labels']), 'spec_labels': strs(si.attrs['labels']),
                  'pos_units': strs(pi.attrs['units']), 'spec_units': strs(si.attrs['units']),
                  'pos_inds': pi[()].T.tolist(), 'spec_inds': si[()].tolist(),
                  'pos_vals': (np.asarray(pv[()], dtype=np.float64).T * 4).round().astype(int).tolist(),
                  'spec_vals': (np.asarray(sv[()], dtype=np.float64) * 4).round().astype(int).tolist(),
                  'pos_file': pi.file.filename == h5.file.filename, 'spec_file': si.file.filename == h5.file.filename,
                  'pos_names': [pi.name.split('/')[-1], pv.name.split('/')[-1]],
                  'spec_names': [si.name.split('/')[-1], sv.name.split('/')[-1]]}
    res['new_members'] = sorted(k for k in after if k not in before)
    return res


def _expect_error(inp):
    e = inp['err']
    name = inp['name'].strip().replace('-', '_')
    if e == 'pos_type' and inp['reuse_pos']:
        e = 'none'            # the reused datasets override the (wrongly typed) dimension list
    if e == 'spec_type' and inp['reuse_spec']:
        e = 'none'
    if e == 'data_rank' and inp['data'] == 'empty':
        e = 'none'            # an empty dataset is specified by its shape: there is no array whose rank could be wrong
    if e != 'none':
        return True
    pp = inp['pos_prefix'].replace('-', '_')
    pp = pp if pp.endswith('_') else pp + '_'
    sp = inp['spec_prefix'].replace('-', '_')
    sp = sp if sp.endswith('_') else sp + '_'
    if not inp['reuse_pos'] and any(pp + s in inp['prior'] for s in ('Indices', 'Values')):
        return True
    if not inp['reuse_spec'] and any(sp + s in inp['prior'] for s in ('Indices', 'Values')):
        return True
    if name in inp['prior']:
        return True
    for key in ('pos', 'spec'):
        if inp['reuse_' + key] == 'other' and any('R%s_%s' % (key, x) in inp['prior'] for x in ('Indices', 'Values')):
            return True
    new = [name] + ([] if inp['reuse_pos'] else [pp + 'Indices', pp + 'Values']) + \
        ([] if inp['reuse_spec'] else [sp + 'Indices', sp + 'Values'])
    if len(set(new)) != len(new):
        return True
    return False


def _check_ok(inp, res, what, fails):
    ds = inp['ds']
    if not res['valid']:
        fails.append('%s-invalid: the written dataset violates the USID Main rules' % what)
    if not res['data_equal']:
        fails.append('%s-data: stored values differ from the input' % what)
    if res.get('quantity_units', ['Current', 'nA']) != ['Current', 'nA']:
        fails.append('%s-quantity-units: stored quantity / units are %s' % (what, res['quantity_units']))
    if res.get('main_attrs_ok') is False:
        fails.append('%s-main-attrs: the extra attributes for the main dataset were not stored as given' % what)
    a = res['anc']
    if a is None:
        fails.append('%s-undescribed: the linked ancillary datasets carry no labels / units' % what)
        return
    n, m = gen.n_points(ds['pos']), gen.n_points(ds['spec'])
    for side, key in ((ds['pos'], 'pos'), (ds['spec'], 'spec')):
        # stored order must be slowest -> fastest; coordinates must be the caller's
        order = list(reversed(side['rate']))
        want_labels = [side['labels'][d] for d in order]
        want_inds = [[int(x) for x in gen.index_matrix(side['sizes'], side['rate'])[:, d]] for d in order]
        want_vals = [[side['values'][d][i] for i in row] for d, row in zip(order, want_inds)]
        if a[key + '_labels'] != want_labels or a[key + '_units'] != [side['units'][d] for d in order]:
            fails.append('%s-labels-%s: stored labels %s, expected slowest first %s' % (what, key, a[key + '_labels'], want_labels))
        elif a[key + '_inds'] != want_inds or a[key + '_vals'] != want_vals:
            fails.append('%s-coordinates-%s: ancillary matrices do not enumerate the Cartesian product with each element '
                         'under the coordinates the caller described (slow_to_fast=%s)' % (what, key, inp['s2f']))
        if not a[key + '_file']:
            fails.append('%s-anc-file-%s: ancillaries are not in the file of the main dataset' % (what, key))


def oracle(inp, obs):
    fails = []
    first = obs['first']
    if first.get('args_mutated'):
        fails.append('arguments-mutated: the dimension lists handed to write_main_dataset are in another order after the call '
                     '(a second dataset or a retry written with the same lists gets other coordinates)')
    if 'err' in first:
        if not _expect_error(inp):
            fails.append('accept-raises: a valid call raised %s' % first['cls'])
        if first['left_behind'] or first['changed']:
            fails.append('reject-not-atomic: the rejected call (%s) left %s behind / changed %s'
                         % (inp['err'] if inp['err'] != 'none' else 'name clash', first['left_behind'], first['changed']))
        retry = obs.get('retry')
        if retry is not None:
            if 'err' in retry:
                fails.append('retry-fails: the corrected retry raised %s after the rejection (%s)'
                             % (retry['cls'], inp['err'] if inp['err'] != 'none' else 'name clash'))
            else:
                _check_ok(inp, retry, 'retry', fails)
    else:
        if _expect_error(inp):
            fails.append('reject-missing: an invalid call (%s, prior %s) was accepted' % (inp['err'], inp['prior']))
        else:
            _check_ok(inp, first, 'accept', fails)
    return fails


def nontrivial(inp, obs):
    return 'err' in obs['first'] or any(len(s['sizes']) >= 2 for s in (inp['ds']['pos'], inp['ds']['spec']))


def _norm_prefix(p):
    p = p if p.endswith('_') else p + '_'
    return p.replace('-', '_')


_ARGS_MUTATED = [False]


def _model_req(inp, err, members):
    a = _args(inp, err)

    def side(key, dims, bad):
        if a.get('reuse_pair_bad') == key or a.get('reuse_undescribed') == key:
            return {'k': 'reuse_bad', 'base': 'R%s_' % key, 'same': inp['reuse_' + key] == 'same'}
        if inp['reuse_' + key]:
            return {'k': 'reuse', 'base': 'R%s_' % key, 'dims': dims, 'same': inp['reuse_' + key] == 'same'}
        return {'k': 'bad'} if bad else {'k': 'dims', 'dims': dims}
    if a['data_bad_type']:
        data = {'k': 'bad'}
    elif a['data'] == 'empty' or a['empty_no_dtype']:
        data = {'k': 'shape', 'len': 2, 'positive': True, 'dtype': not a['empty_no_dtype']}
    else:
        data = {'k': 'array', 'rank': 1 if a['data_rank_bad'] else 2}
    return {'op': 'main.write', 's2f': inp['s2f'], 'strings_ok': a['quantity_ok'],
            'name': inp['name'].strip().replace('-', '_'), 'n': a['shape'][0], 'm': a['shape'][1], 'data': data,
            'pos': side('pos', a['pos'], a['pos_bad_type']), 'spec': side('spec', a['spec'], a['spec_bad_type']),
            'pos_prefix': _norm_prefix(inp['pos_prefix']), 'spec_prefix': _norm_prefix(inp['spec_prefix']),
            'members': members, 'storage_ok': not (a.get('bad_compression') or a.get('bad_chunks') or a.get('lazy_fails'))}


def model_requests_obs(inp, obs):
    # members of the group when the library is called: prior objects + ancillaries supplied for reuse (same file)
    members = list(inp['prior'])
    for key in ('pos', 'spec'):
        if inp['reuse_' + key] == 'same':
            members += ['R%s_Indices' % key, 'R%s_Values' % key]
    return [_model_req(inp, inp['err'], members)]


def model_compare(inp, obs, resp):
    r = resp[0]
    first = obs['first']
    notes = []
    if ('err' in first) != (r['outcome'] != 'ok'):
        notes.append('outcome: impl %s model %s' % (first.get('cls', 'ok'), r['outcome']))
        return notes
    if 'ok' in first:
        members = list(inp['prior'])
        for key in ('pos', 'spec'):
            if inp['reuse_' + key] == 'same':
                members += ['R%s_Indices' % key, 'R%s_Values' % key]
        new_model = sorted(set(r['members']) - set(members))
        if new_model != first['new_members']:
            notes.append('created members: impl %s model %s' % (first['new_members'], new_model))
    return notes


def distribution(cases, obs):
    d = {'accepted': 0, 'rejected': 0, 'retry_ok': 0, 'reuse_pos': 0, 'reuse_spec': 0, 'dask': 0, 'empty': 0, 's2f': 0}
    for e in ERRORS:
        d['err:' + e] = 0
    for c, o in zip(cases, obs):
        d['accepted'] += 'ok' in o['first']
        d['rejected'] += 'err' in o['first']
        d['retry_ok'] += 'retry' in o and 'ok' in o['retry']
        d['reuse_pos'] += bool(c['reuse_pos'])
        d['reuse_spec'] += bool(c['reuse_spec'])
        d['dask'] += c['data'] == 'dask'
        d['empty'] += c['data'] == 'empty'
        d['s2f'] += c['s2f']
        d['err:' + c['err']] += 1
    return d
