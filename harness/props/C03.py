"""C03 — compute() maps every pending position exactly once and records it."""
import os
import numpy as np
import h5py
import gen
import procs
from core import derived_rng
from util import quiet
from props.C15 import Machine

REQUIRED_THEOREMS = ['Usid.C03.batches_partition', 'Usid.C03.batches_disjoint_ordered', 'Usid.C03.exactly_once',
                     'Usid.C03.final_state', 'Usid.C03.all_complete', 'Usid.C03.batch_irrelevant',
                     'Usid.C03.cores_irrelevant', 'Usid.C03.pending_at_start', 'Usid.C03.legacy_resume']
RULE = ('[also: prior groups in the LEGACY form - no status dataset, only the last_pixel attribute] [also: positional / keyword arguments handed through compute() to the map function, verbose=True, machines with 1 / 2 / 4 / 8 logical cores and negative or excessive core requests, multi-worker batches shorter than the pending list, a second compute() on the finished object; serial call order and the worker count observed] random (N, M, completion mask incl. N up to 1200 with < 0.5 % pending, batch limit, cores, lazy, same-file/separate target); real compute() of a '
        'Process subclass whose map function logs every call through an O_APPEND file; non-trivial = a pending '
        'position exists and (several batches or non-contiguous mask or multi-core)')
TRUSTED = ['joblib worker scheduling is not modelled: "identical results in identical order" for cores > 1 rests on '
           'joblib order preservation and is only sampled by the correspondence']


def gen_mask(rng, n):
    kind = rng.choice(['zero', 'zero', 'prefix', 'random', 'random', 'one-left', 'all-done'])
    if kind == 'zero':
        return [0] * n, kind
    if kind == 'prefix':
        k = rng.randint(0, n)
        return [1] * k + [0] * (n - k), kind
    if kind == 'random':
        return [rng.randint(0, 1) for _ in range(n)], kind
    if kind == 'one-left':
        mask = [1] * n
        mask[rng.randrange(n)] = 0
        return mask, kind
    return [1] * n, kind


def generate(seed, tier):
    n_cases = {'quick': 100, 'thorough': 1200, 'search': 600}[tier]
    cases = []
    for i in range(n_cases):
        rng = derived_rng(seed, 'C03', i)
        big = (i % 12 == 11)
        huge = (i % 12 == 5)            # many positions, very few pending: resumption must still find them
        n = rng.randint(90, 200) if big else (rng.randint(201, 1200) if huge else rng.randint(1, 40))
        mask, kind = gen_mask(rng, n)
        if huge:
            mask, kind = [1] * n, 'few-left'
            for _ in range(rng.randint(1, max(1, n // 250))):
                mask[rng.randrange(n)] = 0
        cases.append({'n': n, 'm': rng.randint(1, 6), 'mask': mask,
                      'batch': rng.randint(85, n + 3) if (big or huge) else rng.randint(1, n + 3),
                      'cores': rng.choice([2, 4, 16]) if big else rng.choice([1, 1, 2, 4, None]),
                      'lazy': rng.random() < 0.3, 'separate': rng.random() < 0.3,
                      'fresh': kind == 'zero' and rng.random() < 0.6,
                      'dtype': rng.choice(['f8', 'f8', 'f4', 'c16']),
                      # arguments handed through compute() to the map function; verbose output; the machine's size;
                      # a second compute() on the same object
                      'fargs': rng.choice([None, None, [2.0], [-1.5]]), 'fkw': rng.choice([None, None, {'scale': 3}]),
                      'verbose': rng.random() < 0.15, 'logical': rng.choice([16, 16, 1, 2, 4, 8]),
                      'again': rng.random() < 0.2})
        c = cases[-1]
        if c['logical'] != 16 and not big:
            c['cores'] = rng.choice([None, 1, 2, -3, 32, c['logical']])
        if big:
            c['logical'] = 16
        # what a run of an old version left behind: no status dataset, only the number of finished positions
        rl = derived_rng(seed, 'C03l', i)
        if kind == 'prefix' and not c['fresh'] and rl.random() < 0.6:
            c['legacy'] = True
        if i % 12 == 2:      # real multi-worker batches that are SHORTER than the pending list
            n2 = rng.randint(170, 420)
            c.update(n=n2, mask=[0] * n2, batch=rng.randint(85, 130), cores=rng.choice([2, 4]), logical=16, fresh=True)
    return cases


def run_impl(inp, work):
    n, m, mask = inp['n'], inp['m'], inp['mask']
    ds = {'pos': {'sizes': [n], 'rate': [0], 'labels': ['PX'], 'units': ['a'], 'values': [list(range(n))]},
          'spec': {'sizes': [m], 'rate': [0], 'labels': ['SX'], 'units': ['b'], 'values': [list(range(m))]},
          'dtype': inp['dtype']}
    src = os.path.join(work, 'src.h5')
    tgt = os.path.join(work, 'tgt.h5')
    log = os.path.join(work, 'log.txt')
    os.environ[procs.LOG_ENV] = log
    RowProc = procs.make_proc_class()
    prior = None if inp["fresh"] else [-1.0 if s == 0 else -100.0 - i for i, s in enumerate(mask)]
    with h5py.File(src, 'w') as f:
        g = f.create_group('G')
        hm = gen.write_usid(g, ds)
        if prior is not None and not inp['separate']:
            procs.make_prior_group(g, 'main', 'RowProc', {'a': 1}, n, mask=None if inp.get('legacy') else mask,
                                   last_pixel=sum(mask) if inp.get('legacy') else None, results=prior, source=hm)
    if inp['separate']:
        with h5py.File(tgt, 'w') as f:
            g = f.create_group('T')
            if prior is not None:
                procs.make_prior_group(g, 'main', 'RowProc', {'a': 1}, n, mask=None if inp.get('legacy') else mask,
                                       last_pixel=sum(mask) if inp.get('legacy') else None, results=prior)
    with Machine(inp.get('logical', 16), 2 ** 33):
        f = h5py.File(src, 'r+')
        ft = h5py.File(tgt, 'r+') if inp['separate'] else None
        try:
            with quiet():
                kw = {'h5_target_group': ft['T']} if ft is not None else {}
                if inp.get('verbose'):
                    kw['verbose'] = True
                p = RowProc(f['G/main'], parms={'a': 1}, cores=inp['cores'], lazy=inp['lazy'], **kw)
                p._max_pos_per_read = inp['batch']
                fargs, fkw = tuple(inp.get('fargs') or ()), dict(inp.get('fkw') or {})
                grp = p.compute(False, *fargs, **fkw) if (fargs or fkw) else p.compute()
                calls_first = len(procs.read_log(log, m))
                if inp.get('again'):
                    grp2 = p.compute(False, *fargs, **fkw) if (fargs or fkw) else p.compute()
                    again = {'same_group': grp2.name == grp.name, 'extra_calls': len(procs.read_log(log, m)) - calls_first}
                else:
                    again = None
            if 'completed_positions' in grp:
                status = [int(x) for x in grp['completed_positions'][()]]
            else:
                # a COMPLETE legacy group is returned as it is: its completion is recorded by last_pixel == N
                status = [1] * n if int(grp.attrs.get('last_pixel', -1)) == n else []
            results = [float(x) for x in grp['Results'][()]]
            main = f['G/main'][()]
            in_target = (grp.file.filename == (tgt if inp['separate'] else src))
        finally:
            f.close()
            if ft is not None:
                ft.close()
    scale = float((inp.get('fkw') or {}).get('scale', 1))
    offset = float((inp.get('fargs') or [0])[0])
    want = [procs.map_value(main[i]) * scale + offset for i in range(n)]
    calls = procs.read_log(log, m)
    computed = [i for i in range(n) if results[i] == want[i]]
    untouched = [i for i in range(n) if prior is not None and results[i] == prior[i]]
    return {'batches': p.batches, 'calls_sorted': sorted(calls), 'calls_in_order': calls == sorted(calls),
            'status': status, 'computed': computed, 'untouched': untouched, 'in_target': in_target,
            'workers': int(p._cores), 'again': again, 'calls_raw': calls[:2000]}


def oracle(inp, obs):
    fails = []
    n, mask = inp['n'], inp['mask']
    pend = [i for i, s in enumerate(mask) if s == 0]
    done = [i for i, s in enumerate(mask) if s != 0]
    if obs['status'] != [1] * n:
        fails.append('status: completion status is not 1 everywhere after compute(): %s' % obs['status'])
    if obs['calls_sorted'] != pend:
        fails.append('exactly-once: map function calls %s differ from the pending positions %s'
                     % (obs['calls_sorted'], pend))
    if obs['computed'] != pend and not inp['fresh']:
        fails.append('results: positions holding f(row) %s differ from the pending positions %s'
                     % (obs['computed'], pend))
    if inp['fresh'] and obs['computed'] != list(range(n)):
        fails.append('results: fresh run did not store f(row) for every position')
    if not inp['fresh'] and obs['untouched'] != done:
        fails.append('untouched: results of already-completed positions were modified')
    flat = [p for b in obs['batches'] for p in b]
    if flat != pend:
        fails.append('batches: concatenated batches %s are not the pending list %s' % (flat, pend))
    if any(len(b) > inp['batch'] or len(b) == 0 for b in obs['batches']):
        fails.append('batch-limit: a batch is empty or larger than the limit %d' % inp['batch'])
    if not obs['in_target']:
        fails.append('target: results group is not in the requested target file')
    if not (1 <= obs['workers'] <= inp.get('logical', 16)):
        fails.append('workers: %d workers on a machine with %d logical cores' % (obs['workers'], inp.get('logical', 16)))
    if obs.get('again') is not None and (obs['again']['extra_calls'] != 0 or not obs['again']['same_group']):
        fails.append('second-compute: calling compute() again on the finished object invoked the map function %d more '
                     'times / returned another group' % obs['again']['extra_calls'])
    if obs['workers'] == 1 and not obs['calls_in_order']:
        fails.append('serial-order: a serial run did not invoke the map function in the order of the pending positions')
    return fails


def nontrivial(inp, obs):
    pend = [i for i, s in enumerate(inp['mask']) if s == 0]
    return bool(pend) and (len(obs['batches']) > 1 or pend != list(range(pend[0], pend[-1] + 1)) or obs['workers'] > 1)


def model_requests(inp):
    if inp.get('legacy'):
        # the model derives the initial marks from the legacy attribute itself (initialStatus)
        return [{'op': 'proc.run', 'n': inp['n'], 'last_pixel': sum(inp['mask']), 'batch': inp['batch']}]
    if inp['fresh']:
        return [{'op': 'proc.run', 'n': inp['n'], 'batch': inp['batch']}]
    return [{'op': 'proc.run', 'status': inp['mask'], 'batch': inp['batch']}]


def model_obs(inp, resp):
    r = resp[0]
    return {'batches': r['batches'], 'calls_sorted': sorted(r['calls']), 'status': r['status'], 'computed': r['computed']}


def project(inp, obs):
    computed = obs['computed']
    if inp['fresh']:
        pass
    return {'batches': obs['batches'], 'calls_sorted': obs['calls_sorted'], 'status': obs['status'],
            'computed': [i for i in computed if inp['mask'][i] == 0]}


def distribution(cases, obs):
    d = {'multi_batch': 0, 'noncontiguous': 0, 'all_done': 0, 'separate_target': 0, 'lazy': 0, 'batch_ge_80_multicore': 0,
         'fresh': 0, 'legacy_prior': 0}
    for c, o in zip(cases, obs):
        d['legacy_prior'] += bool(c.get('legacy'))
        pend = [i for i, s in enumerate(c['mask']) if s == 0]
        d['multi_batch'] += len(o['batches']) > 1
        d['noncontiguous'] += bool(pend) and pend != list(range(pend[0], pend[-1] + 1))
        d['all_done'] += not pend
        d['separate_target'] += c['separate']
        d['lazy'] += c['lazy']
        d['fresh'] += c['fresh']
        d['batch_ge_80_multicore'] += (c['batch'] >= 80 and (c['cores'] or 2) > 1 and len(pend) >= 80)
    return d
