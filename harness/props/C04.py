"""C04 — checkpoints are crash-consistent; interrupted runs resume to the same result."""
import os
import shutil
import subprocess
import sys
import json
import numpy as np
import h5py
import gen
import procs
from core import derived_rng, err_of
from util import quiet
from props.C15 import Machine

REQUIRED_THEOREMS = ['Usid.C04.wf_implies_consistent', 'Usid.C04.model_trace_wf', 'Usid.C04.crash_survivors_good',
                     'Usid.C04.interruptions_good', 'Usid.C04.resume_equiv',
                     'Usid.C04.resume_recomputes_only_unmarked', 'Usid.C04.durable_marks',
                     'Usid.C04.durable_marks_model', 'Usid.C04.durable_marks_needs_results_flush',
                     'Usid.C04.model_trace_checkpointed', 'Usid.C04.checkpointed_implies_wf']
RULE = ('[also: a user class whose _get_existing_datasets() does not raise when probed before a results group exists] [also: two or three groups without any progress record left by earlier creation-time interruptions] [also: compute() called again ON THE SAME OBJECT after an ordinary error] [also: an older complete group of the same tool with other parameters next to the group at work] [also: the map function itself raising on its first / middle / last call, then compute(override=True) on that survivor] [also: interrupted groups in the LEGACY form - last_pixel attribute only, the status dataset is created by the resumed run] random (N, M, mask, batch, same-file/separate target, fresh/resumed); the clean run is traced through wrappers '
        'around h5py file-modifying calls; then an interruption is injected before EVERY event index - once as a kill-like '
        'stop (graceful survivor after closing the file, kill survivor = the copy taken at the last flush) and once as an '
        'ORDINARY exception raised by that call, after which the library\'s own handlers run (exception survivor); all are checked for '
        'consistency, re-opened, resumed with another batch size and compared with the clean run; distinct = '
        '(case, crash index); thorough adds successive interruptions and real os._exit kills')
TRUSTED = ['HDF5 write-back below flush() is not modelled: the kill survivor is "the bytes as of the last flush" (the '
           'property\'s own definition), realised as a file copy taken right after each flush; real os._exit kills '
           'are the only contact with the library\'s actual behaviour (thorough tier)']
SERIAL = False


def generate(seed, tier):
    n_cases = {'quick': 14, 'thorough': 120, 'search': 60}[tier]
    cases = []
    for i in range(n_cases):
        rng = derived_rng(seed, 'C04', i)
        n = rng.randint(2, 7 if tier == 'quick' else 10)
        kind = rng.choice(['zero', 'zero', 'prefix', 'random', 'random'])
        if kind == 'zero':
            mask = [0] * n
        elif kind == 'prefix':
            k = rng.randint(0, n - 1)
            mask = [1] * k + [0] * (n - k)
        else:
            mask = [rng.randint(0, 1) for _ in range(n)]
            if all(mask):
                mask[rng.randrange(n)] = 0
        cases.append({'n': n, 'm': rng.randint(1, 3), 'mask': mask, 'batch': rng.randint(1, n),
                      'batch2': rng.randint(1, n + 1), 'separate': rng.random() < 0.3,
                      'fresh': kind == 'zero' and rng.random() < 0.6,
                      'multi': [[rng.randint(0, 40), rng.random() < 0.5, rng.randint(1, n)]
                                for _ in range(rng.randint(1, 3))] if (tier != 'quick' or i % 3 == 0) else [],
                      'hard': tier == 'thorough' and i % 4 == 0})
        # the interrupted run of an OLD version: no status dataset, only last_pixel = number of finished positions
        rl = derived_rng(seed, 'C04l', i)
        if kind == 'prefix' and rl.random() < 0.6:
            cases[-1]['legacy'] = True
        # an older, COMPLETE results group of the same tool with other parameters sits next to the one at work
        if rl.random() < 0.4:
            cases[-1]['older'] = True
        # a user class whose _get_existing_datasets() tolerates the probing call made before any results group exists
        if rl.random() < 0.4:
            cases[-1]['guarded'] = True
        # what two or three earlier attempts left behind that were interrupted while their results group was still being
        # created: groups of the right name and parameters WITHOUT any progress record
        if cases[-1]['fresh'] and not cases[-1].get('older') and rl.random() < 0.5:
            cases[-1]['leftovers'] = rl.choice([2, 2, 3])
    # nearly complete large runs: only the last few crash points are explored
    for j in range({'quick': 1, 'thorough': 6, 'search': 2}[tier]):
        rng = derived_rng(seed, 'C04big', j)
        n = rng.choice([220, 240, 400])
        cases.append({'n': n, 'm': 1, 'mask': [0] * n, 'batch': 1, 'batch2': rng.randint(1, 7), 'separate': False,
                      'fresh': True, 'multi': [], 'hard': False, 'tail': 6})
    return cases


# ------------------------------------------------------------------------------------------------

def _setup(inp, d):
    n, m, mask = inp['n'], inp['m'], inp['mask']
    ds = {'pos': {'sizes': [n], 'rate': [0], 'labels': ['PX'], 'units': ['a'], 'values': [list(range(n))]},
          'spec': {'sizes': [m], 'rate': [0], 'labels': ['SX'], 'units': ['b'], 'values': [list(range(m))]},
          'dtype': 'f8'}
    os.makedirs(d, exist_ok=True)
    src, tgt = os.path.join(d, 'src.h5'), os.path.join(d, 'tgt.h5')
    prior = None if inp['fresh'] else [-1.0 if s == 0 else -100.0 - i for i, s in enumerate(mask)]
    idx = 1 if inp.get('older') else 0
    with h5py.File(src, 'w') as f:
        g = f.create_group('G')
        hm = gen.write_usid(g, ds)
        main = hm[()]
        final = [int(procs.map_value(main[i])) for i in range(n)]
        if inp.get('older') and not inp['separate']:
            procs.make_prior_group(g, 'main', 'RowProc', {'a': 2}, n, mask=[1] * n, results=[float(x) for x in final],
                                   index=0, source=hm)
        if inp.get('leftovers') and not inp['separate']:
            for k_ in range(inp['leftovers']):
                procs.make_prior_group(g, 'main', 'RowProc', {'a': 1}, n, mask=None, last_pixel=None, index=k_, source=hm)
        if prior is not None and not inp['separate']:
            procs.make_prior_group(g, 'main', 'RowProc', {'a': 1}, n, mask=None if inp.get('legacy') else mask,
                                   last_pixel=sum(mask) if inp.get('legacy') else None, results=prior, source=hm, index=idx)
    if inp['separate']:
        with h5py.File(tgt, 'w') as f:
            g = f.create_group('T')
            if inp.get('older'):
                procs.make_prior_group(g, 'main', 'RowProc', {'a': 2}, n, mask=[1] * n, results=[float(x) for x in final], index=0)
            if inp.get('leftovers'):
                for k_ in range(inp['leftovers']):
                    procs.make_prior_group(g, 'main', 'RowProc', {'a': 1}, n, mask=None, last_pixel=None, index=k_)
            if prior is not None:
                procs.make_prior_group(g, 'main', 'RowProc', {'a': 1}, n, mask=None if inp.get('legacy') else mask,
                                       last_pixel=sum(mask) if inp.get('legacy') else None, results=prior, index=idx)
    return final, prior


def _copy(d_from, d_to, separate):
    os.makedirs(d_to, exist_ok=True)
    for fn in ('src.h5', 'tgt.h5') if separate else ('src.h5',):
        shutil.copy(os.path.join(d_from, fn), os.path.join(d_to, fn))


def _attempt(d, inp, batch, crash_at=None, snap_dir=None, soft=False, map_raise=None, override=False, again=False):
    """one construction + compute() in directory d; returns dict"""
    separate = inp['separate']
    src, tgt = os.path.join(d, 'src.h5'), os.path.join(d, 'tgt.h5')
    log = os.path.join(d, 'log.txt')
    if os.path.exists(log):
        os.remove(log)
    os.environ[procs.LOG_ENV] = log
    if map_raise is not None:
        os.environ[procs.RAISE_ENV] = str(map_raise)
    else:
        os.environ.pop(procs.RAISE_ENV, None)
    RowProc = procs.make_proc_class(guarded=bool(inp.get('guarded')))

    def on_flush(h5f):
        if snap_dir is not None:
            shutil.copy(h5f.filename, os.path.join(snap_dir, os.path.basename(h5f.filename)))
    tr = procs.Tracer(crash_at=crash_at, on_flush=on_flush, soft=soft)
    out = {'crashed': False, 'error': None, 'group': None}
    f = h5py.File(src, 'r+')
    ft = h5py.File(tgt, 'r+') if separate else None
    p = None
    try:
        with Machine(4, 2 ** 33), tr.installed(), quiet():
            kw = {'h5_target_group': ft['T']} if ft is not None else {}
            p = RowProc(f['G/main'], parms={'a': 1}, cores=1, **kw)
            p._max_pos_per_read = batch
            try:
                grp = p.compute(override=True) if override else p.compute()
            except (procs.MapFault, procs.SoftFault):
                if not again:
                    raise
                # the notebook workflow: the SAME object is asked to compute() again after the error
                out['crashed'] = True
                os.environ.pop(procs.RAISE_ENV, None)
                grp = p.compute()
            out['group'] = grp.name
    except procs.Crash:
        out['crashed'] = True
    except procs.SoftFault:
        out['crashed'] = True
    except procs.MapFault:
        out['crashed'] = True
    except Exception as e:     # noqa
        out['error'] = '%s: %s' % (type(e).__name__, str(e)[:200])
    finally:
        os.environ.pop(procs.RAISE_ENV, None)
        f.close()
        if ft is not None:
            ft.close()
    out['events'] = tr.events
    out['calls'] = procs.read_log(log, inp['m'])
    out['batches'] = p.batches if p is not None else []
    return out


def _read_groups(d, separate):
    """{group name: (status or None, results or None)} of every results group in the results file"""
    path = os.path.join(d, 'tgt.h5' if separate else 'src.h5')
    out = {}
    try:
        with h5py.File(path, 'r') as f:
            parent = f['T'] if separate else f['G']
            for k in parent.keys():
                if isinstance(parent[k], h5py.Group) and '-RowProc_' in k:
                    g = parent[k]
                    st = [int(x) for x in g['completed_positions'][()]] if 'completed_positions' in g else None
                    rs = [float(x) for x in g['Results'][()]] if 'Results' in g else None
                    if st is None and rs is not None and 'last_pixel' in g.attrs:
                        # the progress record of an old version: the number of finished positions
                        lp = max(0, min(len(rs), int(g.attrs['last_pixel'])))
                        st = [1] * lp + [0] * (len(rs) - lp)
                    out[parent.name + '/' + k if parent.name != '/' else '/' + k] = (st, rs)
    except OSError as e:
        return {'__unopenable__': str(e)[:100]}
    return out


def _model_events(events, gname, separate, prefix=None, initial=()):
    """canonical model-form of observed h5py events for results group `gname`; `prefix` (a list) receives,
    for every observed index i, the number of model events produced by observed events < i"""
    resfile = 'tgt.h5' if separate else 'src.h5'
    out = []
    for e in events:
        if prefix is not None:
            prefix.append(len(out))
        if e['e'] == 'flush':
            out.append({'e': 'f', 'f': 0 if e['file'] == 'src.h5' else 1})
        elif e['e'] == 'write' and e['file'] == resfile and e['dset'].rsplit('/', 1)[0] == gname:
            name = e['dset'].rsplit('/', 1)[1]
            pos = procs.expand_key(e['key'], 10 ** 6) if e['key'][0] != 'slice' else \
                list(range(e['key'][1] or 0, e['key'][2]))
            if name == 'Results':
                vals = e['val'] if isinstance(e['val'], list) else []
                if len(vals) == 1 and len(pos) > 1:
                    vals = vals * len(pos)
                for p, v in zip(pos, vals):
                    out.append({'e': 'w', 'f': 1 if separate else 0, 'g': 0, 'p': p, 'v': int(v)})
            elif name == 'completed_positions' and e['val'] == [1.0]:
                # (a legacy group is given its status dataset by compute() itself, which marks the positions that
                #  were complete BEFORE this run in one write: that restates the initial state and is not progress)
                if pos and all(p in initial for p in pos):
                    out.append({'e': 'o'})
                for p in pos:
                    if p not in initial:
                        out.append({'e': 'm', 'f': 1 if separate else 0, 'g': 0, 'p': p})
            else:
                out.append({'e': 'o'})
        else:
            out.append({'e': 'o'})
    if prefix is not None:
        prefix.append(len(out))
    return out


def _consistent(groups, final, prior):
    """no position marked complete unless its final result (or the result it had when it was already
    complete before any of this started) is stored"""
    bad = []
    for name, (st, rs) in groups.items():
        if st is None or rs is None:
            continue
        for p, s in enumerate(st):
            if s == 1 and not (rs[p] == final[p] or (prior is not None and rs[p] == prior[p] and prior[p] != -1.0)):
                bad.append((name, p, rs[p]))
    return bad


def _initial(inp):
    return {p for p, s_ in enumerate(inp['mask']) if s_ == 1} if inp.get('legacy') else set()


def _results_ok(inp, rs, final, prior, group_was_prior):
    """the results of the finished run.  In a legacy group an interruption between the creation of the status
    dataset and the write that marks the old progress leaves a survivor in which NO position is marked: the resumed
    run then rightly recomputes the old positions too, so each of them may hold the old or the recomputed value"""
    if rs is None:
        return False
    want = _expected_final(inp, final, prior, group_was_prior)
    if not inp.get('legacy'):
        return rs == want
    return all(rs[i] == want[i] or (inp['mask'][i] == 1 and rs[i] == float(final[i])) for i in range(inp['n']))


def _expected_final(inp, final, prior, group_was_prior):
    if group_was_prior and prior is not None:
        return [prior[i] if inp['mask'][i] == 1 else float(final[i]) for i in range(inp['n'])]
    return [float(x) for x in final]


def run_impl(inp, work):
    base = os.path.join(work, 'base')
    final, prior = _setup(inp, base)
    sep = inp['separate']
    # ---- clean reference run -----------------------------------------------------------------
    ref_d = os.path.join(work, 'ref')
    _copy(base, ref_d, sep)
    ref = _attempt(ref_d, inp, inp['batch'])
    ref_groups = _read_groups(ref_d, sep)
    gname = ref['group']
    ref_status, ref_results = ref_groups.get(gname, (None, None))
    events = ref['events']
    L = len(events)
    prefix = []
    obs = {'n_events': L, 'ref_error': ref['error'], 'ref_group': gname, 'ref_status': ref_status,
           'ref_results_ok': ref_results == _expected_final(inp, final, prior, not inp['fresh']),
           'ref_calls': sorted(ref['calls']), 'model_events': _model_events(events, gname, sep, prefix, initial=_initial(inp)),
           'prefix': prefix,
           'final': final, 'crash': [], 'multi': None, 'hard': []}
    status0 = inp['mask'] if not inp['fresh'] else [0] * inp['n']
    obs['status0'] = status0
    # legacy group: index of the write with which the resumed run restates the old progress in its new status dataset
    obs['legacy_mark_event'] = None
    if inp.get('legacy'):
        ini = _initial(inp)
        for j, e in enumerate(events):
            if e['e'] == 'write' and e.get('dset', '').endswith('/completed_positions') and e.get('val') == [1.0]:
                pos = procs.expand_key(e['key'], 10 ** 6) if e['key'][0] != 'slice' else list(range(e['key'][1] or 0, e['key'][2]))
                if pos and all(p in ini for p in pos):
                    obs['legacy_mark_event'] = j
                    break
    # ---- every crash point ---------------------------------------------------------------------
    points = list(range(L)) if not inp.get('tail') else list(range(max(0, L - inp['tail']), L))
    obs['points'] = points
    for i in points:
        cd = os.path.join(work, 'c%d' % i)
        snap = os.path.join(work, 's%d' % i)
        _copy(base, cd, sep)
        _copy(base, snap, sep)          # kill survivor before any flush = the files as they were
        a = _attempt(cd, inp, inp['batch'], crash_at=i, snap_dir=snap)
        rec = {'i': i, 'crashed': a['crashed'], 'error': a['error']}
        # the same point as an ORDINARY exception raised by the file-modifying call (library handlers run)
        xd = os.path.join(work, 'x%d' % i)
        _copy(base, xd, sep)
        ax = _attempt(xd, inp, inp['batch'], crash_at=i, soft=True)
        rec['exception_raised'] = ax['crashed'] or ax['error'] is not None
        # per-batch checkpoints = maximal runs of consecutive flush events in the clean trace; the last one
        # COMPLETED before the crash point is what the durability clause refers to
        groups_f, cur = [], []
        for j, e in enumerate(events):
            if e['e'] == 'flush':
                cur.append(j)
            elif cur:
                groups_f.append(cur)
                cur = []
        if cur:
            groups_f.append(cur)
        done = [g for g in groups_f if g[-1] < i]
        last_ckpt_start = done[-1][0] if done else 0
        marks_before = sorted({e['p'] for e in _model_events(events[:last_ckpt_start], gname, sep, initial=_initial(inp)) if e['e'] == 'm'})
        for kind, d in (('graceful', cd), ('kill', snap), ('exception', xd)):
            groups = _read_groups(d, sep)
            if '__unopenable__' in groups:
                rec[kind] = {'unopenable': True}
                continue
            st, rs = groups.get(gname, (None, None))
            r = {'status': st, 'results_final': None if rs is None else
                 [int(rs[p]) if rs[p] == final[p] else None for p in range(inp['n'])],
                 'inconsistent': _consistent(groups, final, prior)}
            if kind == 'kill':
                r['durable_missing'] = [p for p in marks_before if st is None or st[p] != 1]
            # resume on a copy of the survivor
            rd = os.path.join(work, 'r')
            if os.path.exists(rd):
                shutil.rmtree(rd)
            _copy(d, rd, sep)
            before = groups
            b = _attempt(rd, inp, inp['batch2'])
            after = _read_groups(rd, sep)
            g2 = b['group']
            st2, rs2 = after.get(g2, (None, None)) if g2 else (None, None)
            was_prior = (not inp['fresh'])
            r['resume'] = {
                'error': b['error'], 'status_done': st2 == [1] * inp['n'],
                'results_ok': _results_ok(inp, rs2, final, prior, was_prior),
                'same_group': g2 == gname, 'survivor_has_group': gname in groups, 'survivor_has_status': st is not None,
                'calls_ok': sorted(b['calls']) == ([p for p in range(inp['n']) if before[g2][0][p] == 0]
                                                   if g2 in before and before[g2][0] is not None
                                                   else list(range(inp['n']))),
                'untouched_ok': all(after[k][1][p] == before[k][1][p]
                                    for k in before if before[k][0] is not None and before[k][1] is not None
                                    for p in range(inp['n']) if before[k][0][p] == 1)}
            rec[kind] = r
        obs['crash'].append(rec)
        shutil.rmtree(cd, ignore_errors=True)
        shutil.rmtree(snap, ignore_errors=True)
        shutil.rmtree(xd, ignore_errors=True)
    # ---- the user's map function raises on its k-th call (an interruption BETWEEN file-modifying steps) ------------
    obs['mapfault'] = []
    npend = sum(1 for x in status0 if x == 0)
    for kcall in sorted({0, npend // 2, max(0, npend - 1)}) if (npend and not inp.get('tail')) else []:
        xd = os.path.join(work, 'mf%d' % kcall)
        _copy(base, xd, sep)
        a = _attempt(xd, inp, inp['batch'], map_raise=kcall)
        rec = {'k': kcall, 'raised': a['crashed'], 'error': a['error']}
        groups = _read_groups(xd, sep)
        if '__unopenable__' in groups:
            rec['survivor'] = {'unopenable': True}
        else:
            st, rs = groups.get(gname, (None, None))
            r = {'status': st, 'inconsistent': _consistent(groups, final, prior)}
            rd = os.path.join(work, 'r')
            if os.path.exists(rd):
                shutil.rmtree(rd)
            _copy(xd, rd, sep)
            b = _attempt(rd, inp, inp['batch2'])
            after = _read_groups(rd, sep)
            g2 = b['group']
            st2, rs2 = after.get(g2, (None, None)) if g2 else (None, None)
            r['resume'] = {
                'error': b['error'], 'status_done': st2 == [1] * inp['n'],
                'results_ok': _results_ok(inp, rs2, final, prior, not inp['fresh']),
                'same_group': g2 == gname, 'survivor_has_group': gname in groups, 'survivor_has_status': st is not None,
                'calls_ok': sorted(b['calls']) == ([p for p in range(inp['n']) if groups[g2][0][p] == 0]
                                                   if g2 in groups and groups[g2][0] is not None
                                                   else list(range(inp['n']))),
                'untouched_ok': all(after[k][1][p] == groups[k][1][p]
                                    for k in groups if groups[k][0] is not None and groups[k][1] is not None
                                    for p in range(inp['n']) if groups[k][0][p] == 1)}
            # compute(override=True) on the survivor: a fresh group, everything computed, the interrupted group untouched
            od = os.path.join(work, 'ov')
            if os.path.exists(od):
                shutil.rmtree(od)
            _copy(xd, od, sep)
            c = _attempt(od, inp, inp['batch2'], override=True)
            after_o = _read_groups(od, sep)
            g3 = c['group']
            st3, rs3 = after_o.get(g3, (None, None)) if g3 else (None, None)
            r['override'] = {'error': c['error'], 'new_group': g3 is not None and g3 not in groups,
                             'complete': st3 == [1] * inp['n'] and rs3 == [float(x) for x in final],
                             'calls_all': sorted(c['calls']) == list(range(inp['n'])),
                             'others_untouched': all(after_o.get(k) == groups[k] for k in groups)}
            rec['survivor'] = r
        obs['mapfault'].append(rec)
        shutil.rmtree(xd, ignore_errors=True)
    # ---- compute() called AGAIN ON THE SAME OBJECT after an ordinary error (map function / a file-modifying call that
    #      comes after the first result was written, i.e. once the results group is complete) --------------------------
    obs['same_object'] = []
    first_w = next((j for j, e in enumerate(obs['model_events']) if e['e'] == 'w'), None)
    pts = []
    if first_w is not None and not inp.get('tail'):
        # model events and observed events are not index-aligned: map back through `prefix`
        first_obs = next((j for j in range(L) if prefix[j] >= first_w), L)
        span = list(range(first_obs + 1, L))
        pts = span[::max(1, len(span) // 4)][:4]
    for what, arg in [('map', k_) for k_ in (sorted({0, max(0, npend - 1)}) if (npend and not inp.get('tail')) else [])] + \
            [('event', j) for j in pts]:
        sd = os.path.join(work, 'so')
        if os.path.exists(sd):
            shutil.rmtree(sd)
        _copy(base, sd, sep)
        a = _attempt(sd, inp, inp['batch'], again=True, **({'map_raise': arg} if what == 'map' else {'crash_at': arg, 'soft': True}))
        groups = _read_groups(sd, sep)
        st, rs = groups.get(a['group'], (None, None)) if a['group'] else (None, None)
        obs['same_object'].append({'what': what, 'at': arg, 'raised': a['crashed'], 'error': a['error'],
                                   'status_done': st == [1] * inp['n'],
                                   'results_ok': _results_ok(inp, rs, final, prior, not inp['fresh']),
                                   'calls': len(a['calls'])})
        shutil.rmtree(sd, ignore_errors=True)
    # ---- successive interruptions -------------------------------------------------------------------
    if inp['multi']:
        md = os.path.join(work, 'multi')
        _copy(base, md, sep)
        steps = []
        for (ci, kill, bt) in inp['multi']:
            snap = os.path.join(work, 'msnap')
            if os.path.exists(snap):
                shutil.rmtree(snap)
            _copy(md, snap, sep)
            a = _attempt(md, inp, bt, crash_at=ci % max(1, L), snap_dir=snap)
            if a['crashed'] and kill:
                shutil.rmtree(md)
                _copy(snap, md, sep)
            steps.append({'crashed': a['crashed'], 'error': a['error'],
                          'inconsistent': _consistent(_read_groups(md, sep), final, prior)
                          if '__unopenable__' not in _read_groups(md, sep) else 'unopenable'})
        b = _attempt(md, inp, inp['batch2'])
        after = _read_groups(md, sep)
        st2, rs2 = after.get(b['group'], (None, None)) if b['group'] else (None, None)
        obs['multi'] = {'steps': steps, 'error': b['error'], 'status_done': st2 == [1] * inp['n'],
                        'results_ok': _results_ok(inp, rs2, final, prior, not inp['fresh']) or
                        (inp['fresh'] and rs2 == [float(x) for x in final])}
    # ---- real kills (child process exits with os._exit at the event) ------------------------------
    if inp.get('hard'):
        for i in range(0, L, max(1, L // 6)):
            kd = os.path.join(work, 'k%d' % i)
            _copy(base, kd, sep)
            code = ('import sys, json; sys.path.insert(0, %r); import warnings; warnings.filterwarnings("ignore");'
                    'import props.C04 as c; c._hard_child(%r, json.loads(%r), %d)'
                    % (os.path.dirname(os.path.dirname(os.path.abspath(__file__))), kd, json.dumps(inp), i))
            subprocess.run([sys.executable, '-c', code], stdout=subprocess.DEVNULL, stderr=subprocess.DEVNULL)
            groups = _read_groups(kd, sep)
            if '__unopenable__' in groups:
                obs['hard'].append({'i': i, 'unopenable': True})
            else:
                obs['hard'].append({'i': i, 'inconsistent': _consistent(groups, final, prior)})
            shutil.rmtree(kd, ignore_errors=True)
    return obs


def _hard_child(d, inp, i):
    src, tgt = os.path.join(d, 'src.h5'), os.path.join(d, 'tgt.h5')
    RowProc = procs.make_proc_class()
    tr = procs.Tracer(crash_at=i, hard=True)
    f = h5py.File(src, 'r+')
    ft = h5py.File(tgt, 'r+') if inp['separate'] else None
    with Machine(4, 2 ** 33), tr.installed(), quiet():
        kw = {'h5_target_group': ft['T']} if ft is not None else {}
        p = RowProc(f['G/main'], parms={'a': 1}, cores=1, **kw)
        p._max_pos_per_read = inp['batch']
        p.compute()
    os._exit(0)


# ------------------------------------------------------------------------------------------------

def oracle(inp, obs):
    fails = []
    tag = 'separate-target' if inp['separate'] else 'same-file'
    if obs['ref_error'] or obs['ref_status'] != [1] * inp['n'] or not obs['ref_results_ok']:
        fails.append('clean-run: the uninterrupted run did not complete correctly (%s)' % obs['ref_error'])
    # the per-batch checkpoint: a completion mark may only be written once the result it vouches for has been flushed
    # to the file that holds the results (otherwise "the last per-batch checkpoint" of the durability clause is empty
    # and a kill loses marks and results alike)
    resfile = 1 if inp['separate'] else 0
    written, flushed = {}, set()
    for e in obs['model_events']:
        if e['e'] == 'w':
            written[e['p']] = e['v']
            flushed.discard(e['p'])
        elif e['e'] == 'f' and e['f'] == resfile:
            flushed.update(written.keys())
        elif e['e'] == 'm' and e['p'] not in flushed:
            fails.append('checkpoint-missing: the completion mark of position %d was written before its result was flushed '
                         'to the results file (%s)' % (e['p'], tag))
            break
    for rec in obs['crash']:
        if rec['error']:
            fails.append('crash-run-error: unexpected %s at crash index %d' % (rec['error'], rec['i']))
        for kind in ('graceful', 'kill', 'exception'):
            r = rec.get(kind)
            if r is None:
                continue
            where = '%s survivor, crash before event %d, %s' % (kind, rec['i'], tag)
            if r.get('unopenable'):
                fails.append('unopenable-%s: %s cannot be opened' % (kind, where))
                continue
            if r['inconsistent']:
                fails.append('consistent-%s: position marked complete without its final result %s (%s)'
                             % (kind, r['inconsistent'][:3], where))
            res = r['resume']
            if res['error']:
                fails.append('resume-error-%s: re-constructing / resuming raised %s (%s)' % (kind, res['error'], where))
            else:
                if not res['status_done'] or not res['results_ok']:
                    fails.append('resume-result-%s: resumed run does not end like the uninterrupted one (%s)'
                                 % (kind, where))
                if not res['calls_ok']:
                    fails.append('resume-calls-%s: resumed run did not recompute exactly the unmarked positions (%s)'
                                 % (kind, where))
                if not res['untouched_ok']:
                    fails.append('resume-untouched-%s: an already-completed result was rewritten (%s)' % (kind, where))
                # resumes IN the interrupted group when it is resumable, otherwise starts a fresh one
                # (an ordinary exception may be swallowed by an attribute writer: the group then lacks a parameter and is
                #  rightly not recognised - the group check is made for graceful / kill survivors)
                if kind != 'exception' and res.get('survivor_has_status') and not res['same_group']:
                    fails.append('resume-group-%s: the interrupted group has a progress record but the computation went on '
                                 'in another group (%s)' % (kind, where))
                if kind != 'exception' and res.get('survivor_has_group') and res.get('survivor_has_status') is False and res['same_group']:
                    fails.append('resume-group-%s: the interrupted group has no progress record yet was reused (%s)' % (kind, where))
            if kind == 'kill' and r.get('durable_missing'):
                fails.append('durable-%s: marks %s written before the last checkpoint are not in the kill survivor '
                             '(crash before event %d)' % (tag, r['durable_missing'], rec['i']))
    for rec in obs.get('mapfault', []):
        where = 'the map function raised on call %d, %s' % (rec['k'], tag)
        if rec['error'] or not rec['raised']:
            fails.append('mapfault-propagation: the error of the map function did not reach the caller as it was raised (%s, %s)'
                         % (rec['error'], where))
        r = rec['survivor']
        if r.get('unopenable'):
            fails.append('unopenable-mapfault: %s' % where)
            continue
        if r['inconsistent']:
            fails.append('consistent-mapfault: position marked complete without its final result %s (%s)'
                         % (r['inconsistent'][:3], where))
        res = r['resume']
        if res['error']:
            fails.append('resume-error-mapfault: re-constructing / resuming raised %s (%s)' % (res['error'], where))
        else:
            if not res['status_done'] or not res['results_ok']:
                fails.append('resume-result-mapfault: resumed run does not end like the uninterrupted one (%s)' % where)
            if not res['calls_ok']:
                fails.append('resume-calls-mapfault: resumed run did not recompute exactly the unmarked positions (%s)' % where)
            if not res['untouched_ok']:
                fails.append('resume-untouched-mapfault: an already-completed result was rewritten (%s)' % where)
            ov = r.get('override')
            if ov is not None and (ov['error'] or not (ov['new_group'] and ov['complete'] and ov['calls_all'] and ov['others_untouched'])):
                fails.append('override-on-survivor: compute(override=True) on the interrupted state must start a fresh group, '
                             'compute every position and leave the interrupted group alone: %s (%s)' % (ov, where))
            if res.get('survivor_has_status') and not res['same_group']:
                fails.append('resume-group-mapfault: the interrupted group has a progress record but the computation went '
                             'on in another group (%s)' % where)
    for rec in obs.get('same_object', []):
        if rec['error'] or not rec['status_done'] or not rec['results_ok']:
            fails.append('same-object-resume: compute() called again on the same object after an error (%s %s) did not end '
                         'like the uninterrupted run: error %s, all marked %s, results %s (%s)'
                         % (rec['what'], rec['at'], rec['error'], rec['status_done'], rec['results_ok'], tag))
    if obs['multi']:
        mu = obs['multi']
        for s in mu['steps']:
            if s['inconsistent']:
                fails.append('consistent-multi: inconsistent survivor in a sequence of interruptions: %s' % (s['inconsistent'],))
        if mu['error'] or not mu['status_done'] or not mu['results_ok']:
            fails.append('resume-multi: after successive interruptions the final run does not end like the '
                         'uninterrupted one (%s)' % mu['error'])
    for h in obs['hard']:
        if h.get('unopenable'):
            fails.append('unopenable-hardkill-%s: file cannot be opened after a real kill at event %d' % (tag, h['i']))
        elif h['inconsistent']:
            fails.append('consistent-hardkill: inconsistent file after a real kill at event %d' % h['i'])
    return fails


def nontrivial(inp, obs):
    return obs['n_events'] > 3


def model_requests_obs(inp, obs):
    """the model side needs the implementation's observed trace"""
    sep = inp['separate']
    return [{'op': 'crash.wf', 'final': obs['final'], 'events': obs['model_events'], 'f': 1 if sep else 0, 'g': 0,
             'status0': obs['status0'], 'points': sorted({obs['prefix'][i] for i in obs['points']})},
            {'op': 'crash.trace', 'final': obs['final'], 'status0': obs['status0'], 'batch': inp['batch'],
             'same': not sep, 'g': 0}]


def _segs(t):
    """drop `other`; events between two flushes compared as a multiset"""
    cur, res = [], []
    for e in t:
        if e['e'] == 'o':
            continue
        if e['e'] == 'f':
            res.append(sorted(json.dumps(x, sort_keys=True) for x in cur))
            res.append(['flush %d' % e['f']])
            cur = []
        else:
            cur.append(e)
    res.append(sorted(json.dumps(x, sort_keys=True) for x in cur))
    return res


def model_compare(inp, obs, r):
    """returns list of disagreement strings"""
    out = []
    status0, final = obs['status0'], obs['final']
    wf, mtrace = r[0], r[1]
    if not wf.get('wf'):
        out.append('observed trace is not accepted by WellFormed')
    if not wf.get('strong'):
        out.append('observed trace is not accepted by wfStrong (a mark written before its result was durable)')
    if _segs(obs['model_events']) != _segs(mtrace):
        out.append('observed event trace differs from the modelled compute trace')
    # survivors predicted by the crash model from the observed trace vs the real files
    for rec in obs['crash']:
        s = [x for x in wf['survivors'] if x['i'] == obs['prefix'][rec['i']]][0]
        for kind, sk, rk in (('graceful', 'vs', 'vr'), ('kill', 'ds', 'dr'), ('exception', 'vs', 'vr')):
            if kind == 'exception' and not rec.get('exception_raised'):
                continue        # the library swallowed the injected error and went on: the stop-here model does not apply
            real = rec.get(kind)
            if real is None or real.get('unopenable'):
                continue
            if real['status'] is None:
                if s[sk] != status0:
                    out.append('model predicts marks but the group does not exist (%s, %d)' % (kind, rec['i']))
                continue
            lme = obs.get('legacy_mark_event')
            if inp.get('legacy') and lme is not None and rec['i'] <= lme and real['status'] == [0] * inp['n']:
                # the window between the creation of the status dataset and the write that restates the old progress:
                # the still-empty status dataset supersedes last_pixel, the old progress is forgotten (work is
                # repeated, nothing wrong is stored) - the stop-here model keeps the initial marks and is not compared
                continue
            if real['status'] != s[sk]:
                out.append('survivor status differs (%s, crash %d): real %s model %s'
                           % (kind, rec['i'], real['status'], s[sk]))
            pred = [x if x is not None and x == final[p] else None for p, x in enumerate(s[rk])]
            if real['results_final'] != pred:
                out.append('survivor results differ (%s, crash %d): real %s model %s'
                           % (kind, rec['i'], real['results_final'], pred))
    return out


KNOWN_CLASSES = {
    # D9: with a separate target file compute() flushes only the source file
    'separate_target_not_flushed': lambda inp, obs, failure: inp['separate'] and (
        failure.startswith('durable-separate-target') or failure.startswith('unopenable-hardkill-separate-target')),
}


def distribution(cases, obs):
    d = {'cases': len(cases), 'crash_points': 0, 'separate': 0, 'fresh': 0, 'multi_sequences': 0, 'hard_kills': 0,
         'crash_in_group_creation': 0}
    for c, o in zip(cases, obs):
        d['crash_points'] += len(o['crash'])
        d['separate'] += c['separate']
        d['fresh'] += c['fresh']
        d['multi_sequences'] += bool(o['multi'])
        d['hard_kills'] += len(o['hard'])
        d['crash_in_group_creation'] += sum(1 for r in o['crash'] if r['graceful'] and not r['graceful'].get('unopenable')
                                            and r['graceful']['status'] is None)
    return d
