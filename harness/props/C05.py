"""C05 — results are reused only for same dataset, tool, parameters, and if complete."""
import os
import copy
import numpy as np
import h5py
import gen
import procs
from core import derived_rng
from util import quiet, call
from props.C15 import Machine
from props.C16 import _enc_dict

REQUIRED_THEOREMS = ['Usid.C05.returned_is_genuine', 'Usid.C05.resume_is_most_recent_partial', 'Usid.C05.else_fresh',
                     'Usid.C05.malformed_never_used', 'Usid.C05.override_fresh_and_frame', 'Usid.C05.complete_iff_nothing_pending']
RULE = ('[also: the re-check pattern of child classes - constructed without parameters, parameters set, earlier results looked up again] [also: the same construction as rank 1 of an MPI job - every rank must classify the earlier groups alike] [also: histories written by the library itself for two datasets of the same name in different groups, results next to the source / in a common group / in another file] [also: float / string lists and booleans as parameters, one value against a list of values, a recorded source reference pointing at this or at ANOTHER dataset of the file, verbose=True; no group other than the reused one may change] histories of 0-5 earlier result groups (built with raw h5py) over dataset names {Raw, Raw_Data, Data, aw} x tools '
        '{Fit, Fitter, it, Fit_x}, parameters equal or differing in one value (including a large whole number off by one and a float off by a relative 4e-8)/type/length/key, progress records of every '
        'kind (complete, partial, legacy attribute only, neither, wrong dtype/length/rank, non-dataset, values outside '
        '{0,1}, nearly complete large N), same-file and separate-file targets (also a foreign source with the same '
        'dataset name); then a Process is constructed and compute(override) is run; non-trivial = at least one prior '
        'group whose name contains the dataset and tool text')
DSETS = ['Raw', 'Raw_Data', 'Data', 'aw']
TOOLS = ['Fit', 'Fitter', 'it', 'Fit_x', 'Fit_2', 'Fit-x']
BASE_PARMS = {'a': 1, 'b': 'x', 'c': [1, 2, 3], 'd': 2.5, 'e': 250000, 'f': [0.5, 1.5], 'g': ['x', 'yy'], 'h': True}
PROGRESS = ['complete', 'partial', 'partial', 'legacy-complete', 'legacy-partial', 'neither', 'wrong-dtype',
            'wrong-length', 'rank2', 'not-dataset', 'values-2', 'complete', 'partial']
TRUSTED = ['the source of a results group in another file is identified by name only (known finding KF-D15)']


def _nt(t):
    """the tool name as it appears in group names ('-' is replaced by the library)"""
    return t.replace('-', '_')


def perturb_parms(rng):
    p = copy.deepcopy(BASE_PARMS)
    k = rng.choice(['same', 'same', 'same', 'same', 'value', 'type', 'length', 'missing', 'extra', 'str', 'near-int', 'near-float',
                    'flist', 'slist', 'bool', 'scalar-as-list', 'list-as-scalar', 'flist-int', 'slist-short', 'nan-scalar'])
    if k == 'value':
        p['a'] = 2
    elif k == 'flist':
        p['f'] = [0.5, 2.5]
    elif k == 'slist':
        p['g'] = ['x', 'yz']
    elif k == 'nan-scalar':          # a stored NaN where a number is requested (NaN equals only itself)
        p['d'] = '__nan__'
    elif k == 'flist-int':           # stored whole numbers, requested fractions with the same integer parts
        p['f'] = [0, 1]
    elif k == 'slist-short':         # stored strings that are prefixes of the requested ones
        p['g'] = ['x', 'y']
    elif k == 'bool':
        p['h'] = False
    elif k == 'scalar-as-list':         # one value against a list of that value
        p['a'] = [1, 1]
    elif k == 'list-as-scalar':
        p['c'] = 1
    elif k == 'near-int':            # a large whole number off by one: relative difference 4e-6
        p['e'] = 250001
    elif k == 'near-float':          # a scalar float off by a relative 4e-8
        p['d'] = 2.5000001
    elif k == 'type':
        p['a'] = '1'
    elif k == 'length':
        p['c'] = [1, 2]
    elif k == 'missing':
        del p['b']
    elif k == 'extra':
        p['z'] = 9
    elif k == 'str':
        p['b'] = 'xy'
    return p, k


def generate(seed, tier):
    n_cases = {'quick': 200, 'thorough': 2500, 'search': 1200}[tier]
    cases = []
    for i in range(n_cases):
        rng = derived_rng(seed, 'C05', i)
        big = (i % 10 == 9)
        n = rng.choice([240, 400]) if big else rng.randint(2, 6)
        d, t = rng.choice(DSETS), rng.choice(TOOLS)
        prior = []
        used = {}
        for _ in range(rng.randint(0, 5)):
            if rng.random() < 0.6:
                pd, pt = d, t
            else:
                pd, pt = rng.choice(DSETS), rng.choice(TOOLS)
            idx = used.get((pd, _nt(pt)), 0)
            used[(pd, _nt(pt))] = idx + 1
            parms, pk = perturb_parms(rng)
            prog = rng.choice(PROGRESS)
            if prog == 'partial':
                if big and rng.random() < 0.7:
                    mask = [1] * n
                    mask[rng.randrange(n)] = 0           # > 99.5 % complete but not complete
                else:
                    mask = [rng.randint(0, 1) for _ in range(n)]
                    if all(mask):
                        mask[rng.randrange(n)] = 0
            elif prog == 'values-2':
                mask = [2] * ((n + 1) // 2) + [0] * (n - (n + 1) // 2)
            else:
                mask = [1] * n
            # what the library itself writes: the status dataset AND the legacy attribute (the dataset decides)
            also_lp = None
            if prog in ('complete', 'partial') and rng.random() < 0.35:
                also_lp = rng.choice([0, n, rng.randint(0, n)])
            prior.append({'also_last_pixel': also_lp, 'src_ref': rng.choice(['none', 'none', 'this', 'other']),
                          'dset': pd, 'tool': pt, 'index': idx, 'parms': parms, 'parms_kind': pk, 'progress': prog,
                          'mask': mask, 'last_pixel': rng.randint(0, n - 1) if prog == 'legacy-partial' else n,
                          'foreign': False})
        # a group of a tool whose name EXTENDS this tool's name (Fit_2, Fit_x, Fitter), same dataset, same parameters,
        # complete or partial: 'Raw-Fit_2_000' must never be taken for results of tool 'Fit' (own stream: the
        # cases drawn above stay what they were)
        rc = derived_rng(seed, 'C05c', i)
        if t == 'Fit' and rc.random() < 0.5:
            pt = rc.choice(['Fit_2', 'Fit_2', 'Fit_x', 'Fitter', 'Fit-x'])
            idx = used.get((d, _nt(pt)), 0)
            used[(d, _nt(pt))] = idx + 1
            prog = rc.choice(['complete', 'partial'])
            mask = [1] * n
            if prog == 'partial':
                mask[rc.randrange(n)] = 0
            prior.append({'also_last_pixel': None, 'src_ref': rc.choice(['none', 'this']),
                          'dset': d, 'tool': pt, 'index': idx, 'parms': copy.deepcopy(BASE_PARMS), 'parms_kind': 'same',
                          'progress': prog, 'mask': mask, 'last_pixel': n, 'foreign': False})
        separate = rng.random() < 0.3
        if separate and prior and rng.random() < 0.4:
            prior[rng.randrange(len(prior))]['foreign'] = True
        recheck = derived_rng(seed, 'C05r', i).random() < 0.25
        cases.append({'recheck': recheck, 'n': n, 'm': 2, 'dset': d, 'tool': t, 'prior': prior, 'separate': separate,
                      'override': rng.random() < 0.25, 'query_parms': copy.deepcopy(BASE_PARMS),
                      'verbose': rng.random() < 0.15})
    # histories written by the LIBRARY itself: two datasets of the same name in different groups of one file, results
    # placed next to the source / in a common group of the file / in another file; then the same and the twin dataset
    for i in range({'quick': 12, 'thorough': 60, 'search': 30}[tier]):
        rng = derived_rng(seed, 'C05t', i)
        cases.append({'kind': 'twin', 'n': rng.randint(2, 5), 'm': 2, 'place': ['default', 'common', 'other_file'][i % 3],
                      'first_complete': rng.random() < 0.7, 'parms': rng.choice([{'a': 1}, {'a': 1, 'g': ['x', 'yy'], 'f': [0.5, 1.5]}])})
    return cases


def _mk_main(grp, name, n, m, anc):
    d = grp.create_dataset(name, data=np.arange(n * m, dtype=np.float64).reshape(n, m))
    d.attrs['quantity'] = 'q'
    d.attrs['units'] = 'u'
    for k, v in anc.items():
        d.attrs[k] = v.ref
    return d


def _mk_prior(parent, pr, n, mains):
    name = '%s-%s_%03d' % (pr['dset'], _nt(pr['tool']), pr['index'])
    g = parent.create_group(name)
    g.attrs['tool'] = _nt(pr['tool'])
    g.attrs['verif_source'] = ('foreign:' if pr['foreign'] else 'this:') + pr['dset']
    if parent.file == mains[pr['dset']].file and pr.get('src_ref', 'none') != 'none':
        # the reference create_results_group() records within one file: to this very dataset, or to ANOTHER one
        other = [d for d in DSETS if d != pr['dset']][0]
        g.attrs['source_000'] = (mains[pr['dset']] if pr['src_ref'] == 'this' else mains[other]).ref
    for k, v in pr['parms'].items():
        if isinstance(v, str) and v == '__nan__':
            g.attrs[k] = float('nan')
            continue
        g.attrs[k] = v if not isinstance(v, list) else (np.array(v) if not isinstance(v[0], str) else np.array(v, dtype='S'))
    g.create_dataset('Results', data=np.full((n,), -5.0))
    prog = pr['progress']
    if prog in ('complete', 'partial', 'values-2'):
        g.create_dataset('completed_positions', data=np.array(pr['mask'], dtype=np.uint8))
        if pr.get('also_last_pixel') is not None:
            g.attrs['last_pixel'] = pr['also_last_pixel']
    elif prog == 'wrong-dtype':
        g.create_dataset('completed_positions', data=np.array(pr['mask'], dtype=np.int32))
    elif prog == 'wrong-length':
        g.create_dataset('completed_positions', data=np.ones(n + 1, dtype=np.uint8))
    elif prog == 'rank2':
        g.create_dataset('completed_positions', data=np.ones((n, 1), dtype=np.uint8))
    elif prog == 'not-dataset':
        g.create_group('completed_positions')
    elif prog in ('legacy-complete', 'legacy-partial'):
        g.attrs['last_pixel'] = pr['last_pixel']
    return name


def _dump(g):
    out = {'attrs': {}}
    for k in sorted(g.attrs.keys()):
        v = g.attrs[k]
        out['attrs'][k] = str(v) if isinstance(v, h5py.Reference) else np.asarray(v).tolist() \
            if np.asarray(v).dtype.kind not in 'SO' else str(v)
        if isinstance(out['attrs'][k], float) and out['attrs'][k] != out['attrs'][k]:
            out['attrs'][k] = 'nan'          # (NaN is unequal to itself: canonical text, or every dump would differ)
    for k in sorted(g.keys()):
        o = g[k]
        out[k] = [str(o.dtype), list(o.shape), np.asarray(o[()]).ravel().tolist()] if isinstance(o, h5py.Dataset) else 'group'
    return out


def _run_twin(inp, work):
    n, m = inp['n'], inp['m']
    ds = {'pos': {'sizes': [n], 'rate': [0], 'labels': ['PX'], 'units': ['a'], 'values': [list(range(n))]},
          'spec': {'sizes': [m], 'rate': [0], 'labels': ['SX'], 'units': ['b'], 'values': [list(range(m))]}, 'dtype': 'f8'}
    src, tgt = os.path.join(work, 'src.h5'), os.path.join(work, 'tgt.h5')
    log = os.path.join(work, 'log.txt')
    os.environ[procs.LOG_ENV] = log
    RowProc = procs.make_proc_class()
    out = {}
    f = h5py.File(src, 'w')
    ft = h5py.File(tgt, 'w') if inp['place'] == 'other_file' else None
    try:
        ga, gb = f.create_group('GA'), f.create_group('GB')
        ma = gen.write_usid(ga, ds, name='Raw')
        mb = gen.write_usid(gb, ds, name='Raw', data=gen.main_array(n, m, 'f8') + 1000.0)
        kw = {'default': {}, 'common': {'h5_target_group': f.create_group('T')},
              'other_file': {'h5_target_group': ft.create_group('T') if ft else None}}[inp['place']]

        def run(main, stop_after=None):
            before = len(procs.read_log(log, m))
            with Machine(4, 2 ** 33), quiet():
                p = RowProc(main, parms=dict(inp['parms']), cores=1, **kw)
                dups = [g.name for g in p.duplicate_h5_groups]
                parts = [g.name for g in p.partial_h5_groups]
                if stop_after is not None:
                    p._max_pos_per_read = 1
                    p._create_results_datasets()                   # a first run that did not get far: nothing marked
                    return {'group': p.h5_results_grp.name, 'dups': dups, 'partials': parts, 'calls': 0, 'results_ok': None}
                g = p.compute()
            res = [float(x) for x in g['Results'][()]]
            want = [procs.map_value(main[i]) for i in range(n)]
            return {'group': g.name, 'dups': dups, 'partials': parts, 'calls': len(procs.read_log(log, m)) - before,
                    'results_ok': res == want}
        out['first'] = run(ma) if inp['first_complete'] else run(ma, stop_after=0)
        out['twin'] = run(mb)                    # another dataset of the same name: nothing of the first run is its own
        out['again'] = run(ma)                   # the first dataset again
        out['twin_again'] = run(mb)
        return out
    except Exception as e:      # noqa
        out['err'] = '%s: %s' % (type(e).__name__, str(e)[:100])
        return out
    finally:
        f.close()
        if ft is not None:
            ft.close()


def _oracle_twin(inp, obs):
    fails = []
    n = inp['n']
    what = 'results placed %s' % inp['place']
    if 'err' in obs:
        return ['twin-raises: %s (%s)' % (obs['err'], what)]
    first, twin, again, twin2 = obs['first'], obs['twin'], obs['again'], obs['twin_again']
    if inp['place'] != 'other_file':
        # within one file the recorded source tells the two datasets apart
        if twin['group'] == first['group'] or first['group'] in twin['dups'] + twin['partials']:
            fails.append('twin-reuse: results of /GA/Raw were %s for /GB/Raw, a different dataset of the same name (%s)'
                         % ('returned' if twin['calls'] == 0 else 'resumed', what))
        if twin['calls'] != n or not twin['results_ok']:
            fails.append('twin-computed: the twin dataset was not computed afresh (calls %s, results ok %s; %s)'
                         % (twin['calls'], twin['results_ok'], what))
        if twin2['calls'] != 0 or twin2['group'] != twin['group']:
            fails.append('twin-own-results: the twin dataset\'s own complete results were not returned (%s)' % what)
    tag = 'own-results'
    if inp['place'] == 'other_file':
        # across files the name is all there is (known finding KF-D15): the twin's groups are taken for the dataset's own
        tag = 'genuine-foreign-source-twin'
    if inp['first_complete']:
        if again['calls'] != 0 or again['group'] != first['group']:
            fails.append('%s: the complete results of /GA/Raw were not returned for /GA/Raw (%s)' % (tag, what))
    elif not again['results_ok']:
        fails.append('%s: /GA/Raw does not end with its results (%s)' % (tag, what))
    return fails


def run_impl(inp, work):
    if inp.get('kind') == 'twin':
        return _run_twin(inp, work)
    n, m = inp['n'], inp['m']
    ds = {'pos': {'sizes': [n], 'rate': [0], 'labels': ['PX'], 'units': ['a'], 'values': [list(range(n))]},
          'spec': {'sizes': [m], 'rate': [0], 'labels': ['SX'], 'units': ['b'], 'values': [list(range(m))]}}
    src, tgt = os.path.join(work, 'src.h5'), os.path.join(work, 'tgt.h5')
    log = os.path.join(work, 'log.txt')
    os.environ[procs.LOG_ENV] = log
    RowProc = procs.make_proc_class()
    f = h5py.File(src, 'w')
    ft = h5py.File(tgt, 'w') if inp['separate'] else None
    try:
        ancg = f.create_group('anc')
        pi, pv = gen.write_anc(ancg, 'Position', ds['pos'], False)
        si, sv = gen.write_anc(ancg, 'Spectroscopic', ds['spec'], True)
        anc = {'Position_Indices': pi, 'Position_Values': pv, 'Spectroscopic_Indices': si, 'Spectroscopic_Values': sv}
        P = f.create_group('P')
        mains = {d: _mk_main(P, d, n, m, anc) for d in DSETS}
        parent = P if ft is None else ft.create_group('Q')
        names = [_mk_prior(parent, pr, n, mains) for pr in inp['prior']]
        before = {k: _dump(parent[k]) for k in names}
        with Machine(4, 2 ** 33), quiet():
            kw = {} if ft is None else {'h5_target_group': parent}
            if inp.get('verbose'):
                kw['verbose'] = True
            if inp.get('recheck'):
                # the pattern of child classes: construct without parameters (every group of the tool matches), set the
                # parameters, look for earlier results AGAIN
                def _construct():
                    q = RowProc(mains[inp['dset']], process_name=inp['tool'], parms={}, cores=1, **kw)
                    q.parms_dict = dict(inp['query_parms'])
                    q.duplicate_h5_groups, q.partial_h5_groups = q._check_for_duplicates()
                    return q
                r = call(_construct)
            else:
                r = call(lambda: RowProc(mains[inp['dset']], process_name=inp['tool'], parms=inp['query_parms'],
                                         cores=1, **kw))
        if r[0] == 'err':
            return {'construct_err': r[1]}
        p = r[1]
        out = {'dups': [g.name.split('/')[-1] for g in p.duplicate_h5_groups],
               'partials': [g.name.split('/')[-1] for g in p.partial_h5_groups]}
        # what ANOTHER rank of an MPI job makes of the same groups (every rank must reach the same verdict)
        with procs.fake_mpi(1, 2), Machine(4, 2 ** 33), quiet():
            r1 = call(lambda: RowProc(mains[inp['dset']], process_name=inp['tool'], parms=inp['query_parms'], cores=1, **kw))
        if r1[0] == 'ok' and getattr(r1[1], 'mpi_rank', 0) == 1:
            out['rank1'] = {'dups': [g.name.split('/')[-1] for g in r1[1].duplicate_h5_groups],
                            'partials': [g.name.split('/')[-1] for g in r1[1].partial_h5_groups]}
        elif r1[0] == 'err':
            out['rank1'] = {'err': r1[1]}
        after_construct = {k: _dump(parent[k]) for k in names}
        with Machine(4, 2 ** 33), quiet():
            r2 = call(lambda: p.compute(override=inp['override']))
        if r2[0] == 'err':
            out['compute_err'] = r2[1]
            out['returned'] = None
        else:
            g = r2[1]
            out['returned'] = g.name.split('/')[-1]
            out['status'] = np.asarray(g['completed_positions'][()]).astype(np.int64).tolist() if 'completed_positions' in g and \
                isinstance(g['completed_positions'], h5py.Dataset) else None
        out['calls'] = sorted(procs.read_log(log, m))
        after = {k: _dump(parent[k]) for k in names}
        out['changed_by_construct'] = sorted(k for k in names if before[k] != after_construct[k])
        out['changed'] = sorted(k for k in names if before[k] != after[k])
        out['what_changed'] = {k: sorted(set(kk for kk in set(before[k]) | set(after_construct[k])
                                             if before[k].get(kk) != after_construct[k].get(kk)) |
                                         set('attr:' + a for a in set(before[k]['attrs']) | set(after_construct[k]['attrs'])
                                             if before[k]['attrs'].get(a) != after_construct[k]['attrs'].get(a)))
                               for k in out['changed_by_construct']}
        out['listing'] = sorted(parent.keys())
        return out
    finally:
        f.close()
        if ft is not None:
            ft.close()


def _genuine(inp, pr):
    """does the prior group really belong to (this dataset, this tool, these parameters)?"""
    return pr['dset'] == inp['dset'] and _nt(pr['tool']) == _nt(inp['tool']) and not pr['foreign'] and \
        pr['parms_kind'] in ('same', 'extra') and not (pr.get('src_ref') == 'other' and not inp['separate'])


def _kind(pr, n):
    """complete / partial / malformed according to the property's reading of the progress record"""
    p = pr['progress']
    if p == 'complete' or p == 'legacy-complete':
        return 'complete'
    if p == 'partial' or p == 'legacy-partial':
        return 'partial'
    return 'malformed'


def oracle(inp, obs):
    if inp.get('kind') == 'twin':
        return _oracle_twin(inp, obs)
    fails = []
    if 'construct_err' in obs:
        return ['construct: constructing the process raised %s' % obs['construct_err']]
    if 'rank1' in obs and (obs['rank1'].get('err') or obs['rank1'].get('dups') != obs['dups'] or
                           obs['rank1'].get('partials') != obs['partials']):
        fails.append('ranks-disagree: rank 1 of an MPI job classifies the earlier groups as %s, rank 0 as dups %s / partials %s'
                     % (obs['rank1'], obs['dups'], obs['partials']))
    names = ['%s-%s_%03d' % (pr['dset'], _nt(pr['tool']), pr['index']) for pr in inp['prior']]
    byname = dict(zip(names, inp['prior']))
    n = inp['n']
    good_complete = [nm for nm in names if _genuine(inp, byname[nm]) and _kind(byname[nm], n) == 'complete']
    good_partial = [nm for nm in names if _genuine(inp, byname[nm]) and _kind(byname[nm], n) == 'partial']
    ret = obs['returned']
    if 'compute_err' in obs:
        fails.append('compute-raises: compute() raised %s' % obs['compute_err'])
        return fails
    if inp['override']:
        if ret in names:
            fails.append('override-reuse: forced fresh computation returned the existing group %s' % ret)
        if obs['changed']:
            legacy = all(byname[k]['progress'].startswith('legacy') for k in obs['changed'])
            fails.append('override-frame%s: existing groups %s were altered by a forced fresh computation (%s)'
                         % ('-legacy-upgrade' if legacy else '', obs['changed'], obs['what_changed']))
    else:
        if ret in names:
            pr = byname[ret]
            computed = bool(obs['calls'])
            if not _genuine(inp, pr):
                why = 'foreign-source' if (pr['foreign'] and pr['dset'] == inp['dset'] and _nt(pr['tool']) == _nt(inp['tool'])
                                           and pr['parms_kind'] in ('same', 'extra')) else 'other'
                fails.append('genuine-%s: group %s (dataset %s%s, tool %s, parms %s) was %s for (%s, %s)'
                             % (why, ret, 'FOREIGN ' if pr['foreign'] else '', pr['dset'], pr['tool'], pr['parms_kind'],
                                'resumed' if computed else 'returned', inp['dset'], inp['tool']))
            elif _kind(pr, n) == 'malformed':
                fails.append('malformed-used: group %s with a %s progress record was %s'
                             % (ret, pr['progress'], 'resumed' if computed else 'returned as complete'))
            elif not computed:
                if _kind(pr, n) != 'complete':
                    fails.append('incomplete-returned: group %s (%s) was returned without computing' % (ret, pr['progress']))
            else:
                if good_complete:
                    fails.append('complete-ignored: resumed %s although complete results %s exist' % (ret, good_complete))
                elif ret != good_partial[-1]:
                    fails.append('not-most-recent: resumed %s, most recent matching incomplete group is %s'
                                 % (ret, good_partial[-1]))
            if computed and obs['status'] != [1] * n:
                fails.append('resume-incomplete: resumed group does not end complete')
        else:
            if good_complete or good_partial:
                fails.append('reuse-missed: a fresh group %s was created although %s exist'
                             % (ret, good_complete or good_partial))
            if obs['calls'] != list(range(n)):
                fails.append('fresh-calls: fresh computation did not map every position')
        # whatever is reused, no OTHER group may be written into
        touched = [k for k in obs['changed'] if k != ret]
        if touched:
            fails.append('frame: groups %s were altered although %s was the one returned / resumed' % (touched, ret))
    return fails


def nontrivial(inp, obs):
    if inp.get('kind') == 'twin':
        return True
    return any(inp['dset'] in pr['dset'] and inp['tool'] in pr['tool'] for pr in inp['prior'])


def _enc_status(pr, n):
    p = pr['progress']
    if p in ('complete', 'partial', 'values-2'):
        return {'k': 'ds', 'len': n, 'rank': 1, 'u8': True, 'vals': pr['mask']}
    if p == 'wrong-dtype':
        return {'k': 'ds', 'len': n, 'rank': 1, 'u8': False, 'vals': pr['mask']}
    if p == 'wrong-length':
        return {'k': 'ds', 'len': n + 1, 'rank': 1, 'u8': True, 'vals': [1] * (n + 1)}
    if p == 'rank2':
        return {'k': 'ds', 'len': n, 'rank': 2, 'u8': True, 'vals': [1] * n}
    if p == 'not-dataset':
        return {'k': 'notds'}
    return {'k': 'absent'}


def model_requests(inp):
    if inp.get('kind') == 'twin':
        return []
    groups = []
    prior = sorted(inp['prior'], key=lambda pr: '%s-%s_%03d' % (pr['dset'], _nt(pr['tool']), pr['index']))
    for pr in prior:
        attrs = dict(pr['parms'])
        attrs['tool'] = _nt(pr['tool'])
        groups.append({'other_source': pr.get('src_ref') == 'other' and not inp['separate'],
                       'name': '%s-%s_%03d' % (pr['dset'], _nt(pr['tool']), pr['index']), 'is_group': True,
                       'attrs': _enc_dict(attrs), 'status': _enc_status(pr, inp['n']),
                       'last_pixel': pr['last_pixel'] if pr['progress'].startswith('legacy') else pr.get('also_last_pixel')})
    return [{'op': 'dup.decide', 'groups': groups, 'dset': inp['dset'], 'tool': inp['tool'],
             'parms': _enc_dict(inp['query_parms']), 'n': inp['n'], 'override': inp['override']}]


def model_obs(inp, resp):
    if inp.get('kind') == 'twin':
        return {'twin': True}
    r = resp[0]
    return {'dups': r['dups'], 'partials': r['partials'], 'decision': r['decision']}


def project(inp, obs):
    if inp.get('kind') == 'twin':
        return {'twin': True}
    if 'construct_err' in obs or 'compute_err' in obs:
        return {'err': True}
    names = ['%s-%s_%03d' % (pr['dset'], _nt(pr['tool']), pr['index']) for pr in inp['prior']]
    ret = obs['returned']
    if ret in names:
        dec = {'kind': 'resume' if obs['calls'] else 'return', 'name': ret}
    else:
        dec = {'kind': 'fresh'}
    return {'dups': obs['dups'], 'partials': obs['partials'], 'decision': dec}


KNOWN_CLASSES = {
    'foreign_source_same_name': lambda inp, obs, failure: (failure.startswith('genuine-foreign-source') and inp.get('separate')) or
    (failure.startswith('genuine-foreign-source-twin') and inp.get('place') == 'other_file'),
    'legacy_upgrade_write': lambda inp, obs, failure: failure.startswith('override-frame-legacy-upgrade'),
}


def distribution(cases, obs):
    d = {'return': 0, 'resume': 0, 'fresh': 0, 'override': 0, 'separate': 0, 'foreign': 0, 'errors': 0, 'big_n': 0}
    for k in PROGRESS:
        d['progress:' + k] = 0
    d['twin_histories'] = sum(1 for c in cases if c.get('kind') == 'twin')
    for c, o in zip(cases, obs):
        if c.get('kind') == 'twin':
            continue
        d['override'] += c['override']
        d['separate'] += c['separate']
        d['big_n'] += c['n'] > 100
        for pr in c['prior']:
            d['progress:' + pr['progress']] += 1
            d['foreign'] += pr['foreign']
        if 'construct_err' in o or 'compute_err' in o:
            d['errors'] += 1
            continue
        p = project(c, o)['decision']['kind']
        d[p] += 1
    return d
