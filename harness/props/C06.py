"""C06 — Main-dataset recognition is total and matches the structural definition."""
import os
import numpy as np
import h5py
import gen
from core import derived_rng
from util import call, quiet

REQUIRED_THEOREMS = ['Usid.C06.total_and_exact', 'Usid.C06.wrapper_gate', 'Usid.C06.get_all_main_exact']
RULE = ('[also: groups nested up to two levels and the search started at every top-level group, verbose=True, bytes / variable-length encodings of the string attributes, consistently short label lists, the return type] trees of 1-4 datasets, each a generator-valid Main dataset with 0, 1 or 2 structural corruptions drawn from '
        '%d kinds (missing/mistyped quantity or units; each link missing / not a reference / dangling / to a group / to '
        'a dataset of rank 0,1,3 / wrong rows or columns / indices-values shape mismatch; labels or units missing, '
        'inconsistent or of the wrong count) plus unrelated non-main datasets; all built with raw h5py; the descriptor '
        'given to the model is re-read from the file with raw h5py; non-trivial = at least one corrupted dataset')
LINKS = ['Position_Indices', 'Position_Values', 'Spectroscopic_Indices', 'Spectroscopic_Values']
LINK_CORR = ['missing', 'notref', 'dangling', 'group', 'rank1', 'rank0', 'rank3', 'rows', 'cols', 'nolabels', 'nounits',
             'labels_diff', 'units_diff', 'labels_len', 'units_len', 'both_len', 'both_short', 'labels_last_diff',
             'units_last_diff']
MAIN_CORR = ['no_quantity', 'no_units', 'quantity_nonstr', 'units_nonstr', 'main_rank1', 'main_rank3', 'pair_shape_pos',
             'pair_shape_spec', 'both_labels_len_pos', 'both_labels_len_spec',
             # both ancillaries of one side resized TOGETHER: consistent with each other, not with the Main dataset
             'side_more_pos', 'side_more_spec', 'side_less_pos', 'side_less_spec',
             # both ancillaries of a side list consistently too FEW labels and units
             'both_labels_short_pos', 'both_labels_short_spec',
             # both ancillaries of a side list the SAME wrong number of units (one more / one fewer than labels)
             'both_units_more_pos', 'both_units_more_spec', 'both_units_less_pos', 'both_units_less_spec']
ALL_CORR = MAIN_CORR + ['%s:%s' % (l, c) for l in LINKS for c in LINK_CORR]
RULE = RULE % len(ALL_CORR)


def generate(seed, tier):
    n_cases = {'quick': 220, 'thorough': 2500, 'search': 1500}[tier]
    cases = []
    for i in range(n_cases):
        rng = derived_rng(seed, 'C06', i)
        tree = []
        for j in range(rng.randint(1, 4)):
            ds = gen.gen_dataset(rng, max_dims=2, max_size=3)
            k = rng.choice([0, 1, 1, 1, 2])
            corr = [ALL_CORR[(i * 7 + j * 3 + q * 11 + rng.randint(0, len(ALL_CORR) - 1)) % len(ALL_CORR)] for q in range(k)]
            tree.append({'ds': ds, 'corr': corr,
                         # other (equally valid) encodings of the string attributes: bytes scalars, variable-length strings
                         'enc': rng.choice([None, None, None, 'bytes', 'vlen'])})
        cases.append({'tree': tree, 'extra': rng.random() < 0.5, 'verbose': rng.random() < 0.25,
                      # some groups are nested one or two levels down; the recursive search is also started there
                      'nest': [rng.choice([0, 0, 1, 2]) for _ in tree]})
    if tier in ('thorough',):
        rng = derived_rng(seed, 'C06x', 0)
        ds = gen.gen_dataset(rng, max_dims=2, max_size=3)
        for c in ALL_CORR:           # every single corruption at least once
            cases.append({'tree': [{'ds': ds, 'corr': [c]}], 'extra': False})
    return cases


def _bl(a):
    return [x if isinstance(x, bytes) else str(x).encode() for x in a]


def _replace(grp, name, shape, dtype, like):
    attrs = dict(like.attrs)
    del grp[name]
    d = grp.create_dataset(name, data=np.zeros(shape, dtype=dtype))
    for k, v in attrs.items():
        d.attrs[k] = v
    return d


def _corrupt(grp, h5_main, corr):
    h5_main = grp['main']
    if corr == 'no_quantity' and 'quantity' not in h5_main.attrs:
        return
    if corr == 'no_units' and 'units' not in h5_main.attrs:
        return
    if corr in ('main_rank1', 'main_rank3') and len(h5_main.shape) != 2:
        return
    if corr == 'no_quantity':
        del h5_main.attrs['quantity']
    elif corr == 'no_units':
        del h5_main.attrs['units']
    elif corr == 'quantity_nonstr':
        h5_main.attrs['quantity'] = 5
    elif corr == 'units_nonstr':
        h5_main.attrs['units'] = np.array([1.5, 2.5])
    elif corr in ('main_rank1', 'main_rank3'):
        attrs = dict(h5_main.attrs)
        n, m = h5_main.shape
        name = h5_main.name.split('/')[-1]
        del grp[name]
        d = grp.create_dataset(name, data=np.zeros((n * m,) if corr == 'main_rank1' else (n, m, 1)))
        for k, v in attrs.items():
            d.attrs[k] = v
    elif corr.startswith('pair_shape'):
        base = 'Position' if corr.endswith('pos') else 'Spectroscopic'
        v = grp[base + '_Values']
        if len(v.shape) != 2:
            return
        shp = (v.shape[0], v.shape[1] + 1) if base == 'Position' else (v.shape[0] + 1, v.shape[1])
        d = _replace(grp, base + '_Values', shp, np.float32, v)
        grp['main'].attrs[base + '_Values'] = d.ref
    elif corr.startswith('side_more') or corr.startswith('side_less'):
        base = 'Position' if corr.endswith('pos') else 'Spectroscopic'
        delta = 1 if corr.startswith('side_more') else -1
        for suffix in ('_Indices', '_Values'):
            if base + suffix not in grp or not isinstance(grp[base + suffix], h5py.Dataset):
                return
            if len(grp[base + suffix].shape) != 2:
                return
        r, cc = grp[base + '_Indices'].shape
        shp = (r + delta, cc) if base == 'Position' else (r, cc + delta)
        if min(shp) < 1:
            shp = (r + 2, cc) if base == 'Position' else (r, cc + 2)
        for suffix in ('_Indices', '_Values'):
            d = grp[base + suffix]
            nd = _replace(grp, base + suffix, shp, d.dtype, d)
            grp['main'].attrs[base + suffix] = nd.ref
    elif corr.startswith('both_labels_short'):
        base = 'Position' if corr.endswith('pos') else 'Spectroscopic'
        for suffix in ('_Indices', '_Values'):
            if base + suffix not in grp or not isinstance(grp[base + suffix], h5py.Dataset):
                return
            d = grp[base + suffix]
            if 'labels' not in d.attrs or 'units' not in d.attrs or len(d.attrs['labels']) < 2:
                return
        for suffix in ('_Indices', '_Values'):
            d = grp[base + suffix]
            d.attrs['labels'] = np.array(_bl(d.attrs['labels'])[:-1], dtype='S')
            d.attrs['units'] = np.array(_bl(d.attrs['units'])[:-1], dtype='S')
    elif corr.startswith('both_units_more') or corr.startswith('both_units_less'):
        base = 'Position' if corr.endswith('pos') else 'Spectroscopic'
        for suffix in ('_Indices', '_Values'):
            if base + suffix not in grp or not isinstance(grp[base + suffix], h5py.Dataset) or \
                    'units' not in grp[base + suffix].attrs:
                return
        for suffix in ('_Indices', '_Values'):
            d = grp[base + suffix]
            u_ = _bl(d.attrs['units'])
            if corr.startswith('both_units_more') or len(u_) < 2:
                d.attrs['units'] = np.array(u_ + [b'zz'], dtype='S')
            else:
                d.attrs['units'] = np.array(u_[:-1], dtype='S')
    elif corr.startswith('both_labels_len'):
        base = 'Position' if corr.endswith('pos') else 'Spectroscopic'
        for suffix in ('_Indices', '_Values'):
            d = grp[base + suffix]
            if 'labels' not in d.attrs or 'units' not in d.attrs:
                continue
            d.attrs['labels'] = np.array(_bl(d.attrs['labels']) + [b'ZZ'], dtype='S')
            d.attrs['units'] = np.array(_bl(d.attrs['units']) + [b'zz'], dtype='S')
    else:
        link, c = corr.split(':')
        main = grp['main'] if 'main' in grp and isinstance(grp['main'], h5py.Dataset) else None
        if main is None:
            return
        if link not in grp or not isinstance(grp[link], h5py.Dataset):
            return
        d = grp[link]
        if c == 'missing':
            if link in main.attrs:
                del main.attrs[link]
        elif c == 'notref':
            main.attrs[link] = 5
        elif c == 'dangling':
            t = grp.create_dataset('tmp_' + link, data=np.zeros(2))
            main.attrs[link] = t.ref
            del grp['tmp_' + link]
        elif c == 'group':
            g = grp.require_group('grp_' + link)
            main.attrs[link] = g.ref
        elif c in ('rank1', 'rank0', 'rank3', 'rows', 'cols'):
            if len(d.shape) != 2:
                return
            r, cc = d.shape
            shp = {'rank1': (r * cc,), 'rank0': (), 'rank3': (r, cc, 1), 'rows': (r + 1, cc), 'cols': (r, cc + 1)}[c]
            nd = _replace(grp, link, shp, d.dtype, d)
            main.attrs[link] = nd.ref
        elif c == 'nolabels':
            if 'labels' in d.attrs:
                del d.attrs['labels']
        elif c == 'nounits':
            if 'units' in d.attrs:
                del d.attrs['units']
        elif ('labels' not in d.attrs) or ('units' not in d.attrs):
            return
        elif c == 'labels_diff':
            lab = _bl(d.attrs['labels'])
            lab[0] = b'QQ'
            d.attrs['labels'] = np.array(lab, dtype='S')
        elif c == 'units_diff':
            lab = _bl(d.attrs['units'])
            lab[0] = b'qq'
            d.attrs['units'] = np.array(lab, dtype='S')
        elif c == 'labels_len':
            d.attrs['labels'] = np.array(_bl(d.attrs['labels']) + [b'ZZ'], dtype='S')
        elif c == 'units_len':
            d.attrs['units'] = np.array(_bl(d.attrs['units']) + [b'zz'], dtype='S')
        elif c == 'both_len':          # labels AND units of this one dataset extended (still a common prefix)
            d.attrs['labels'] = np.array(_bl(d.attrs['labels']) + [b'ZZ'], dtype='S')
            d.attrs['units'] = np.array(_bl(d.attrs['units']) + [b'zz'], dtype='S')
        elif c == 'both_short':        # ... or both truncated by one
            if len(d.attrs['labels']) > 1 and len(d.attrs['units']) > 1:
                d.attrs['labels'] = np.array(_bl(d.attrs['labels'])[:-1], dtype='S')
                d.attrs['units'] = np.array(_bl(d.attrs['units'])[:-1], dtype='S')
        elif c == 'labels_last_diff':
            lab = _bl(d.attrs['labels'])
            lab[-1] = lab[-1] + b'_'
            d.attrs['labels'] = np.array(lab, dtype='S')
        elif c == 'units_last_diff':
            lab = _bl(d.attrs['units'])
            lab[-1] = lab[-1] + b'_'
            d.attrs['units'] = np.array(lab, dtype='S')


def describe(f, obj):
    """structural descriptor of an HDF5 object, read with raw h5py only"""
    d = {'is_dataset': isinstance(obj, h5py.Dataset), 'shape': list(obj.shape) if isinstance(obj, h5py.Dataset) else [],
         'quantity': 'absent', 'units': 'absent'}
    for a in ('quantity', 'units'):
        if a in obj.attrs:
            v = obj.attrs[a]
            d[a] = 'str' if isinstance(v, (str, bytes, np.bytes_, np.str_)) else 'nonstr'
    for key, link in zip(('pi', 'pv', 'si', 'sv'), LINKS):
        if link not in obj.attrs:
            d[key] = {'k': 'absent'}
            continue
        v = obj.attrs[link]
        if not isinstance(v, h5py.Reference):
            d[key] = {'k': 'notref'}
            continue
        try:
            t = f[v]
        except Exception:
            d[key] = {'k': 'dangling'}
            continue
        if not isinstance(t, h5py.Dataset):
            d[key] = {'k': 'group'}
            continue

        def strs(name):
            if name not in t.attrs:
                return None
            return [x.decode() if isinstance(x, bytes) else str(x) for x in np.atleast_1d(t.attrs[name])]
        d[key] = {'k': 'dataset', 'shape': list(t.shape), 'labels': strs('labels'), 'units': strs('units')}
    return d


def rules(d):
    """independent Python statement of the USID Main rules on a descriptor"""
    if not d['is_dataset'] or len(d['shape']) != 2 or d['quantity'] != 'str' or d['units'] != 'str':
        return False
    for inds, vals, spec in ((d['pi'], d['pv'], False), (d['si'], d['sv'], True)):
        if inds['k'] != 'dataset' or vals['k'] != 'dataset':
            return False
        if len(inds['shape']) != 2 or inds['shape'] != vals['shape']:
            return False
        if inds['labels'] is None or inds['units'] is None or vals['labels'] is None or vals['units'] is None:
            return False
        if inds['labels'] != vals['labels'] or inds['units'] != vals['units'] or len(inds['labels']) != len(inds['units']):
            return False
        npts = d['shape'][1] if spec else d['shape'][0]
        if inds['shape'][1 if spec else 0] != npts or inds['shape'][0 if spec else 1] != len(inds['labels']):
            return False
    return True


def run_impl(inp, work):
    from pyUSID.io import hdf_utils
    from pyUSID import USIDataset
    path = os.path.join(work, 'a.h5')
    with h5py.File(path, 'w') as f:
        for j, t in enumerate(inp['tree']):
            depth = (inp.get('nest') or [0] * len(inp['tree']))[j]
            g = f.create_group('/'.join(['N%d' % j, 'sub'][:depth] + ['G%d' % j]))
            gen.write_usid(g, t['ds'])
            if t.get('enc') == 'bytes':
                for a in ('quantity', 'units'):
                    g['main'].attrs[a] = np.bytes_(g['main'].attrs[a])
            elif t.get('enc') == 'vlen':
                for nm in LINKS:
                    for a in ('labels', 'units'):
                        g[nm].attrs[a] = np.array([x.decode() for x in g[nm].attrs[a]], dtype=h5py.string_dtype())
            for c in t['corr']:
                _corrupt(g, g['main'] if 'main' in g else None, c)
        if inp['extra']:
            f.create_dataset('unrelated', data=np.zeros((3, 2)))
            f.create_group('empty_group')
    out = {'descs': [], 'check': [], 'wrap': []}
    with h5py.File(path, 'r') as f:
        names = []
        f.visititems(lambda n, o: names.append(n) if isinstance(o, h5py.Dataset) else None)
        names = sorted(names)
        for n in names:
            out['descs'].append({'name': '/' + n, 'desc': describe(f, f[n])})
            with quiet():
                r = call(hdf_utils.check_if_main, f[n], verbose=True) if inp.get('verbose') else call(hdf_utils.check_if_main, f[n])
            out['check'].append(bool(r[1]) if r[0] == 'ok' else {'err': r[1], 'cls': r[2]})
            if r[0] == 'ok' and not isinstance(r[1], (bool, np.bool_)):
                out.setdefault('not_bool', []).append([n, type(r[1]).__name__])
            r = call(USIDataset, f[n])
            out['wrap'].append('ok' if r[0] == 'ok' else r[1])
        with quiet():
            r = call(hdf_utils.get_all_main, f, verbose=True) if inp.get('verbose') else call(hdf_utils.get_all_main, f)
        out['all_main'] = sorted(x.name for x in r[1]) if r[0] == 'ok' else {'err': r[1], 'cls': r[2]}
        # the recursive search started at every top-level group
        out['sub_search'] = {}
        for top in sorted(f.keys()):
            if isinstance(f[top], h5py.Group):
                r = call(hdf_utils.get_all_main, f[top])
                out['sub_search'][top] = sorted(x.name for x in r[1]) if r[0] == 'ok' else {'err': r[1], 'cls': r[2]}
        # a group instead of a dataset
        g0 = [n for n in names if n.endswith('G0/main') or '/G0/' in '/' + n]
        r = call(hdf_utils.check_if_main, f[g0[0]].parent if g0 else f[sorted(f.keys())[0]])
        out['group_check'] = bool(r[1]) if r[0] == 'ok' else {'err': r[1]}
    return out


def oracle(inp, obs):
    fails = []
    valid = []
    for nd, chk, wr in zip(obs['descs'], obs['check'], obs['wrap']):
        want = rules(nd['desc'])
        if want:
            valid.append(nd['name'])
        what = '%s with %s' % (nd['name'], _corr_of(inp, nd['name']))
        if isinstance(chk, dict):
            fails.append('raises-%s: check_if_main raised %s for %s' % (chk['cls'], chk['cls'], what))
        elif chk != want:
            fails.append('inexact: check_if_main returned %s, structural rules say %s for %s' % (chk, want, what))
        if want and wr != 'ok':
            fails.append('wrapper-refuses: USIDataset raised %s for the valid %s' % (wr, what))
        if not want and wr != 'typeErr':
            fails.append('wrapper-gate: USIDataset gave %s instead of TypeError for %s' % (wr, what))
    if isinstance(obs['all_main'], dict):
        fails.append('search-raises: get_all_main raised %s' % obs['all_main']['cls'])
    elif obs['all_main'] != sorted(valid):
        fails.append('search-inexact: get_all_main returned %s, valid Main datasets are %s' % (obs['all_main'], sorted(valid)))
    for top, got in obs.get('sub_search', {}).items():
        want_sub = sorted(v for v in valid if v.startswith('/' + top + '/'))
        if isinstance(got, dict):
            fails.append('search-raises: get_all_main(%s) raised %s' % (top, got['cls']))
        elif got != want_sub:
            fails.append('search-inexact-subgroup: get_all_main(/%s) returned %s, valid Main datasets below it are %s' % (top, got, want_sub))
    if obs.get('not_bool'):
        fails.append('not-a-boolean: check_if_main returned %s' % (obs['not_bool'][:3],))
    if obs['group_check'] is not False:
        fails.append('group: check_if_main on a group gave %s' % (obs['group_check'],))
    return fails


def _corr_of(inp, name):
    try:
        j = int([p for p in name.split('/') if p.startswith('G')][0][1:])
        return inp['tree'][j]['corr'] or 'no corruption'
    except Exception:
        return 'unrelated'


def nontrivial(inp, obs):
    return any(t['corr'] for t in inp['tree'])


def model_requests_obs(inp, obs):
    return [{'op': 'main.check', 'tree': obs['descs']}]


def model_compare(inp, obs, resp):
    r = resp[0]
    notes = []
    for nd, a, b in zip(obs['descs'], obs['check'], r['check']):
        if a != b:
            notes.append('check_if_main(%s): impl %s model %s' % (nd['name'], a, b))
    for nd, a, b in zip(obs['descs'], obs['wrap'], r['wrap']):
        if a != b:
            notes.append('USIDataset(%s): impl %s model %s' % (nd['name'], a, b))
    if obs['all_main'] != sorted(r['all_main']):
        notes.append('get_all_main: impl %s model %s' % (obs['all_main'], sorted(r['all_main'])))
    return notes


def distribution(cases, obs):
    d = {'datasets': 0, 'valid': 0, 'raised': 0}
    for c, o in zip(cases, obs):
        for t in c['tree']:
            for k in t['corr']:
                kk = k.split(':')[-1]
                d['corr:' + kk] = d.get('corr:' + kk, 0) + 1
        d['datasets'] += len(o['descs'])
        d['valid'] += sum(1 for x in o['check'] if x is True)
        d['raised'] += sum(1 for x in o['check'] if isinstance(x, dict))
    return d
