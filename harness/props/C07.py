"""C07 — slicing returns exactly the selected elements, or refuses explicitly."""
import os
import numpy as np
import h5py
import gen
from core import derived_rng
from util import call, quiet

REQUIRED_THEOREMS = ['Usid.C07.rows_exact', 'Usid.C07.eager_fixup_identity', 'Usid.C07.rejections_2d',
                     'Usid.C07.two_lists_refused', 'Usid.C07.slice2D_elements', 'Usid.C07.posSpecSlices_selected',
                     'Usid.C07.sliceND_elements']
RULE = ('[also: index lists / arrays with entries that are not whole numbers] [also: numpy integers as scalar selectors, repeated indices inside lists, slice_dict=None, a list of pairs instead of a dictionary, 0-2 toggle_sorting calls before slicing, main dtypes f8/f4/i4/c16/compound; success flag and lazy/eager container type observed] generator datasets (any storage order) x slicing dictionaries with, per dimension, absent / each int / '
        'contiguous and strided slices (negative bounds and steps) / non-empty index subsets as list, tuple or ndarray, '
        'ndim_form and lazy in {F,T}, file-order and sorted wrapper; >= 15 %% of the 2-D results forced square and '
        '>= 10 %% single row/column; a malformed stream (negative, out-of-range, unknown label, float/str selectors, '
        'two list selectors); non-trivial = at least one dimension actually restricted')
TRUSTED = ['dask fancy-indexing semantics (one list selector allowed, two refused) are assumed by the N-D model']


def gen_sel(rng, size, kind=None):
    kind = kind or rng.choice(['int', 'int', 'slice', 'slice', 'slice', 'list', 'tuple', 'array', 'full'])
    if kind == 'int':
        return {'t': 'int', 'i': rng.randrange(size)}
    if kind == 'full':
        return {'t': 'slice', 'a': None, 'b': None, 's': None}
    if kind == 'slice':
        a = rng.choice([None, rng.randint(-size, size)])
        b = rng.choice([None, rng.randint(-size, size + 1)])
        s = rng.choice([None, 1, 2, -1, -2, 3])
        return {'t': 'slice', 'a': a, 'b': b, 's': s}
    k = rng.randint(1, size)
    idx = rng.sample(range(size), k)
    if rng.random() < 0.6:
        idx = sorted(idx)
    return {'t': 'list', 'l': idx, 'as': kind}


def malformed(rng, size):
    return rng.choice([{'t': 'int', 'i': -1}, {'t': 'int', 'i': size}, {'t': 'int', 'i': size + 3},
                       {'t': 'list', 'l': [0, -1], 'as': 'list'}, {'t': 'list', 'l': [size], 'as': 'list'},
                       {'t': 'other', 'py': 'float'}, {'t': 'other', 'py': 'str'}, {'t': 'list', 'l': [], 'as': 'list'},
                       {'t': 'slice', 'a': size, 'b': None, 's': None},
                       # index sequences whose entries are not whole numbers (below the size, not negative)
                       {'t': 'other', 'py': 'fraclist'}, {'t': 'other', 'py': 'fraclist1'}, {'t': 'other', 'py': 'fracarray'}])


def generate(seed, tier):
    n_cases = {'quick': 300, 'thorough': 4000, 'search': 2000}[tier]
    cases = []
    for i in range(n_cases):
        rng = derived_rng(seed, 'C07', i)
        while True:
            ds = gen.gen_dataset(rng, max_dims=3, max_size=4, dtypes=('f8', 'f8', 'f4', 'i4', 'c16', 'compound'))
            n, m = gen.n_points(ds['pos']), gen.n_points(ds['spec'])
            if n * m <= 500 and all(len(s['sizes']) <= gen.n_points(s) for s in (ds['pos'], ds['spec'])):
                break
        labs = ds['pos']['labels'] + ds['spec']['labels']
        sizes = ds['pos']['sizes'] + ds['spec']['sizes']
        sd = []
        mode = i % 10
        for lab, sz in zip(labs, sizes):
            if rng.random() < 0.55:
                sd.append({'k': lab, 'v': gen_sel(rng, sz)})
        if mode == 0 and sd:            # malformed stream
            j = rng.randrange(len(sd))
            sd[j]['v'] = malformed(rng, sizes[labs.index(sd[j]['k'])])
        elif mode == 1:
            sd.append({'k': 'NoSuchDim', 'v': {'t': 'int', 'i': 0}})
        elif mode in (2, 3):            # force a square 2-D result
            kpos = [(l, s) for l, s in zip(ds['pos']['labels'], ds['pos']['sizes']) if s >= 2]
            kspec = [(l, s) for l, s in zip(ds['spec']['labels'], ds['spec']['sizes']) if s >= 2]
            if kpos and kspec:
                sd = [{'k': l, 'v': {'t': 'int', 'i': 0}} for l in labs if l not in (kpos[0][0], kspec[0][0])]
                sd.append({'k': kpos[0][0], 'v': {'t': 'list', 'l': [0, kpos[0][1] - 1], 'as': 'list'}})
                sd.append({'k': kspec[0][0], 'v': {'t': 'slice', 'a': 0, 'b': 2, 's': None}})
        elif mode == 5:                 # a long dimension with an IRREGULAR index list (near-regular patterns included)
            side = rng.choice(['pos', 'spec'])
            long_size = rng.choice([7, 8, 9])
            pre = 'P' if side == 'pos' else 'S'
            ds[side] = {'sizes': [long_size, 2], 'rate': rng.choice([[0, 1], [1, 0]]), 'labels': [pre + 'X', pre + 'Y'],
                        'units': ['ua', 'ub'], 'values': [list(range(0, 4 * long_size, 4)), [3, 9]]}
            other = 'spec' if side == 'pos' else 'pos'
            if gen.n_points(ds[other]) > 12:
                ds[other] = {'sizes': [3], 'rate': [0], 'labels': [('S' if side == 'pos' else 'P') + 'X'], 'units': ['uc'],
                             'values': [[1, 2, 7]]}
            tricky = [[0, 2, 3], [0, 2, 3, 6], [0, 2, 5, 6], [1, 3, 4], [0, 1, 3, 6], [0, 3, 4, 6], [1, 2, 5, 6]]
            lst = rng.choice(tricky) if rng.random() < 0.7 else sorted(rng.sample(range(long_size), rng.randint(3, 5)))
            sd = [{'k': pre + 'X', 'v': {'t': 'list', 'l': lst, 'as': rng.choice(['list', 'array'])}}]
            if rng.random() < 0.3:
                sd.append({'k': pre + 'Y', 'v': {'t': 'int', 'i': rng.randrange(2)}})
        elif mode == 4:                 # a single row or column
            side = rng.choice(['pos', 'spec'])
            sd = [x for x in sd if x['k'] not in ds[side]['labels']] + \
                 [{'k': l, 'v': {'t': 'int', 'i': rng.randrange(s)}} for l, s in zip(ds[side]['labels'], ds[side]['sizes'])]
        rng.shuffle(sd)
        seen, sd2 = set(), []
        for x in sd:
            if x['k'] not in seen:
                seen.add(x['k'])
                sd2.append(x)
        # numpy integers as scalar selectors; an index repeated inside a list
        npk = rng.choice([None, None, 'int64', 'int32', 'int16'])
        for x in sd2:
            if x['v'].get('t') == 'int' and npk and x['v']['i'] >= 0:
                x['v'] = dict(x['v'], **{'as': npk})
            elif x['v'].get('t') == 'list' and x['v']['l'] and rng.random() < 0.12:
                l = list(x['v']['l'])
                l.insert(rng.randrange(len(l) + 1), rng.choice(l))
                x['v'] = dict(x['v'], l=l)
        case = {'ds': ds, 'sd': sd2, 'sort': rng.random() < 0.3, 'lazy': rng.random() < 0.4,
                'toggles': rng.choice([0, 0, 0, 1, 2])}
        if i % 40 == 39:
            case['sd'], case['whole'] = [], True                 # slice_dict=None: everything
        elif i % 40 == 38:
            case['nondict'] = True                               # a list of pairs instead of a dictionary
        cases.append(case)
    return cases


def _py_sel(v):
    if v['t'] == 'int':
        return {'int64': np.int64, 'int32': np.int32, 'int16': np.int16}.get(v.get('as'), int)(v['i'])
    if v['t'] == 'slice':
        return slice(v['a'], v['b'], v['s'])
    if v['t'] == 'list':
        return {'list': list, 'tuple': tuple, 'array': lambda l: np.array(l, dtype=np.int64)}[v.get('as', 'list')](v['l'])
    return {'float': 1.5, 'str': 'a', 'fraclist': [0.5, 0], 'fraclist1': [0.5], 'fracarray': np.array([0.0, 0.5])}[v['py']]


def _tok(a):
    a = np.asarray(a.compute() if hasattr(a, 'compute') else a)
    return {'shape': list(a.shape), 'flat': gen.tokens(a).ravel().tolist()}


def run_impl(inp, work):
    from pyUSID import USIDataset
    ds = inp['ds']
    path = os.path.join(work, 'a.h5')
    with h5py.File(path, 'w') as f:
        gen.write_usid(f.create_group('G'), ds)
    sd = {x['k']: _py_sel(x['v']) for x in inp['sd']}
    if inp.get('whole'):
        sd = None
    elif inp.get('nondict'):
        sd = list(sd.items())
    out = {}
    with h5py.File(path, 'r') as f:
        u = USIDataset(f['G/main'], sort_dims=inp['sort'])
        for _ in range(inp.get('toggles', 0)):
            u.toggle_sorting()
        out['labels'] = [str(x) for x in u.n_dim_labels]
        for key, kw in (('nd', dict(ndim_form=True, lazy=False)), ('nd_lazy', dict(ndim_form=True, lazy=True)),
                        ('2d', dict(ndim_form=False, lazy=False)), ('2d_lazy', dict(ndim_form=False, lazy=True))):
            r = call(u.slice, (dict(sd) if isinstance(sd, dict) else sd), **kw)
            if r[0] == 'err':
                out[key] = {'err': r[1], 'cls': r[2]}
            else:
                out[key] = dict(_tok(r[1][0]), success=(r[1][1] is True),
                                container=('dask' if hasattr(r[1][0], 'compute') else type(r[1][0]).__name__))
        r = call(u._get_pos_spec_slices, (dict(sd) if isinstance(sd, dict) else sd))
        out['rows'] = {'rows': [int(x) for x in r[1][0]], 'cols': [int(x) for x in r[1][1]]} if r[0] == 'ok' else {'err': r[1]}
        out['nd_full'] = _tok(u.get_n_dim_form())
    return out


def _expected(inp, obs):
    """orthogonal indexing computed independently with numpy on the full N-D form / main matrix"""
    ds = inp['ds']
    labs_file = ds['pos']['labels'] + ds['spec']['labels']
    sizes_file = ds['pos']['sizes'] + ds['spec']['sizes']
    size_of = dict(zip(labs_file, sizes_file))
    sd = {x['k']: x['v'] for x in inp['sd']}
    bad = None
    for x in inp['sd']:
        if x['k'] not in labs_file:
            bad = 'unknown-label'
        elif x['v']['t'] == 'other':
            bad = 'wrong-type'
    return size_of, sd, bad


def oracle(inp, obs):
    fails = []
    ds = inp['ds']
    size_of, sd, bad = _expected(inp, obs)
    labels = obs['labels']
    nd = np.array(obs['nd_full']['flat']).reshape(obs['nd_full']['shape'])
    n, m = gen.n_points(ds['pos']), gen.n_points(ds['spec'])
    main = np.arange(n * m).reshape(n, m)
    if inp.get('nondict'):
        bad = 'not-a-dictionary'
    for key in ('nd', 'nd_lazy', '2d', '2d_lazy'):
        o = obs[key]
        if 'err' not in o:
            if o.get('success') is not True:
                fails.append('success-flag: %s returned data with success != True' % key)
            is_dask = o.get('container') == 'dask'
            if 'container' in o and is_dask != key.endswith('lazy'):
                fails.append('container: %s returned a %s (lazy results are dask arrays, eager ones are not)'
                             % (key, o.get('container')))
    if bad:
        for key in ('nd', 'nd_lazy', '2d', '2d_lazy'):
            if 'err' not in obs[key]:
                fails.append('reject-%s: %s request was not refused by the %s path' % (bad, bad, key))
        return fails
    # ---------------- N-D path: ordinary (orthogonal) indexing along the named axes
    n_lists = sum(1 for l in labels if l in sd and sd[l]['t'] == 'list')
    out_of_range = any(v['t'] == 'int' and not (-size_of[k] <= v['i'] < size_of[k]) for k, v in sd.items()) or \
        any(v['t'] == 'list' and any(not (-size_of[k] <= i < size_of[k]) for i in v['l']) for k, v in sd.items())
    has_tuple = any(v['t'] == 'list' and v.get('as') == 'tuple' for v in sd.values())
    for key in ('nd', 'nd_lazy'):
        o = obs[key]
        if has_tuple and 'err' in o:
            continue            # a tuple is not an index list/array: the N-D path may refuse it (dask does)
        if n_lists > 1:
            if 'err' not in o:
                fails.append('nd-unsupported: two list selectors returned data instead of raising (%s)' % key)
            continue
        if out_of_range:
            if 'err' not in o:
                fails.append('nd-out-of-range: out-of-range request returned data (%s)' % key)
            continue
        want = nd
        ax = 0
        for lab in labels:
            v = sd.get(lab)
            if v is None:
                ax += 1
                continue
            if v['t'] == 'int':
                want = np.take(want, v['i'], axis=ax)
            elif v['t'] == 'slice':
                idx = list(range(size_of[lab]))[slice(v['a'], v['b'], v['s'])]
                want = np.take(want, idx, axis=ax)
                ax += 1
            else:
                want = np.take(want, v['l'], axis=ax)
                ax += 1
        if 'err' in o:
            fails.append('nd-raises: %s path raised %s for a valid request %s' % (key, o['cls'], inp['sd']))
        elif o['shape'] != list(want.shape) or o['flat'] != want.ravel().tolist():
            fails.append('nd-indexing: %s result differs from ordinary indexing of the N-D form along the named axes' % key)
    if 'err' not in obs['nd'] and 'err' not in obs['nd_lazy'] and \
            (obs['nd']['shape'], obs['nd']['flat']) != (obs['nd_lazy']['shape'], obs['nd_lazy']['flat']):
        fails.append('nd-lazy-eager: lazy and eager N-D slices differ')
    # ---------------- 2-D path
    neg = any(v['t'] == 'int' and v['i'] < 0 for v in sd.values()) or \
        any(v['t'] == 'list' and any(i < 0 for i in v['l']) for v in sd.values())
    oor = any(v['t'] == 'int' and v['i'] >= size_of[k] for k, v in sd.items()) or \
        any(v['t'] == 'list' and any(i >= size_of[k] for i in v['l']) for k, v in sd.items())
    sel = {}
    empty = False
    for k, v in sd.items():
        if v['t'] == 'int':
            sel[k] = {v['i']}
        elif v['t'] == 'slice':
            sel[k] = set(list(range(size_of[k]))[slice(v['a'], v['b'], v['s'])])
        else:
            sel[k] = set(v['l'])
        empty = empty or not sel[k]
    pi = gen.index_matrix(ds['pos']['sizes'], ds['pos']['rate'])
    si = gen.index_matrix(ds['spec']['sizes'], ds['spec']['rate'])
    rows = [r for r in range(n) if all(int(pi[r, d]) in sel.get(l, range(10 ** 6)) for d, l in enumerate(ds['pos']['labels']))]
    cols = [c for c in range(m) if all(int(si[c, d]) in sel.get(l, range(10 ** 6)) for d, l in enumerate(ds['spec']['labels']))]
    for key in ('2d', '2d_lazy'):
        o = obs[key]
        if neg or oor or empty:
            if 'err' not in o:
                fails.append('2d-reject: negative / out-of-range / empty selection returned data (%s)' % key)
            continue
        want = main[np.ix_(rows, cols)]
        shape_tag = 'square' if len(rows) == len(cols) and len(rows) > 1 else 'other'
        if 'err' in o:
            fails.append('2d-raises: %s path raised %s for a valid request' % (key, o['cls']))
        elif o['shape'] != list(want.shape) or o['flat'] != want.ravel().tolist():
            fails.append('2d-result-%s: %s result is not main[rows, cols] in original order and orientation '
                         '(rows %s cols %s, got shape %s)' % (shape_tag, key, rows, cols, o['shape']))
    if not (neg or oor or empty) and obs['rows'] != {'rows': rows, 'cols': cols}:
        fails.append('2d-rows: selected rows/columns %s are not exactly those whose indices fall in the selection' % (obs['rows'],))
    return fails


def nontrivial(inp, obs):
    return any(x['v'].get('t') != 'slice' or x['v'].get('a') is not None or x['v'].get('b') is not None
               for x in inp['sd'])


def _base(inp):
    ds = inp['ds']
    return {'n': gen.n_points(ds['pos']), 'm': gen.n_points(ds['spec']),
            'pos': gen.index_matrix(ds['pos']['sizes'], ds['pos']['rate']).tolist(),
            'spec': gen.index_matrix(ds['spec']['sizes'], ds['spec']['rate']).T.tolist(),
            'plabs': ds['pos']['labels'], 'slabs': ds['spec']['labels'],
            'psizes': ds['pos']['sizes'], 'ssizes': ds['spec']['sizes'],
            'sd': [{'k': x['k'], 'v': dict({k: v for k, v in x['v'].items() if k not in ('as', 'py')},
                                           t=('tuple' if x['v'].get('as') == 'tuple' else x['v']['t']))} for x in inp['sd']]}


def model_requests(inp):
    b = _base(inp)
    eff_sort = bool(inp['sort']) != (inp.get('toggles', 0) % 2 == 1)
    return [dict(b, op='slice.nd', sort=eff_sort), dict(b, op='slice.2d', lazy=False), dict(b, op='slice.2d', lazy=True)]


def _e(x):
    if isinstance(x, dict) and 'err' in x:
        return {'err': True}
    if isinstance(x, dict) and 'ok' in x:
        return x['ok']
    return x


def model_obs(inp, resp):
    nd, d2, d2l = resp
    if inp.get('nondict'):       # the model's slicing dictionary is a dictionary by type: a list of pairs is refused
        return {'nd': {'err': True}, '2d': {'err': True}, '2d_lazy': {'err': True}, 'rows': {'err': True}}
    return {'nd': _e(nd), '2d': _e(d2['data']), '2d_lazy': _e(d2l['data']), 'rows': _e(d2['rows'])}


def project(inp, obs):
    def p(o):
        return {'err': True} if 'err' in o else {'shape': o['shape'], 'flat': o['flat']}
    return {'nd': p(obs['nd']), '2d': p(obs['2d']), '2d_lazy': p(obs['2d_lazy']), 'rows': _e(obs['rows'])}


def distribution(cases, obs):
    d = {'square_2d': 0, 'single_row_or_col': 0, 'errors_nd': 0, 'errors_2d': 0, 'sorted_view': 0, 'two_lists': 0}
    for c, o in zip(cases, obs):
        if 'err' not in o['2d']:
            sh = o['2d']['shape']
            d['square_2d'] += len(sh) == 2 and sh[0] == sh[1] and sh[0] > 1
            d['single_row_or_col'] += len(sh) == 2 and 1 in sh
        d['errors_nd'] += 'err' in o['nd']
        d['errors_2d'] += 'err' in o['2d']
        d['sorted_view'] += c['sort']
        d['two_lists'] += sum(1 for x in c['sd'] if x['v']['t'] == 'list') > 1
    return d
