"""C08 — generated ancillary matrices are exact Cartesian products in documented order."""
import os
import itertools
import numpy as np
import h5py
from core import derived_rng
from util import call, quiet

REQUIRED_THEOREMS = ['Usid.C08.indices_formula', 'Usid.C08.each_combination_once', 'Usid.C08.position_is_transpose',
                     'Usid.C08.written_slowest_first', 'Usid.C08.make_indices_matrix']
RULE = ('[also: sizes handed over as a uint8 array whose products overflow that type] [also: a generated matrix edited in place by its owner, then generated again] [also: the sequence of the caller re-read after the call and the same sequence written a second time] [also: values not increasing / not distinct; defaults relied upon, tuples, a bare Dimension / int, Dimension(int length), base_name, verbose, a nested parent; thorough: every size tuple (<= 3 dims) under all four flag combinations] [values handed over as float lists, python ints, int64 / int32 / uint8 / float32 arrays] tuples of dimension sizes (1..4 per dimension, up to 4 dimensions; thorough: ALL such tuples) with non-uniform '
        'dyadic values (quarters), labels/units with deliberate repeats, is_spectral in {F,T}, slow_to_fast in {F,T}; '
        'build_ind_val_matrices, make_indices_matrix and write_ind_val_dsets are run for real; non-trivial = at least two '
        'dimensions of size > 1')
EXHAUSTIVE = {'thorough': True}


def _case(rng, sizes):
    dims = []
    for d, s in enumerate(sizes):
        start = rng.randint(-8, 8)
        vals = [start]
        for _ in range(s - 1):
            vals.append(vals[-1] + rng.randint(1, 6))
        dims.append({'name': 'D%d' % d, 'units': rng.choice(['m', 's', 'm']), 'values': vals})
    case = {'dims': dims, 'spec': rng.random() < 0.5, 's2f': rng.random() < 0.5}
    if rng.random() < 0.25:          # reference values that are not increasing / not distinct
        d = rng.choice(dims)
        if len(d['values']) >= 2:
            if rng.random() < 0.5:
                d['values'] = rng.sample(d['values'], len(d['values'])) if rng.random() < 0.5 else d['values'][::-1]
            else:
                j = rng.randrange(1, len(d['values']))
                d['values'][j] = d['values'][rng.randrange(0, j)]
    # how the functions are called: defaults relied upon, tuples instead of lists, a bare Dimension / int for a
    # single dimension, base_name, verbose, a nested parent group
    case['form'] = {'defaults': rng.random() < 0.2, 'tuple': rng.random() < 0.25, 'bare': rng.random() < 0.3,
                    'steps_as': rng.choice(['list', 'list', 'tuple', 'array']),
                    'base_name': rng.choice([None, None, None, 'Aux', 'Aux_']), 'verbose': rng.random() < 0.15,
                    'nested': rng.random() < 0.2}
    if rng.random() < 0.4:
        # the builder functions take "array-like" values: hand some dimensions over as integers (python ints,
        # integer / unsigned / float32 arrays) next to dimensions with fractional values
        for d in dims:
            if rng.random() < 0.5:
                kind = rng.choice(['int-list', 'int64', 'int32', 'uint8', 'f4'])
                if kind == 'f4':
                    d['as'] = kind
                    continue
                vals = [4 * v for v in d['values']]              # whole numbers
                if kind == 'uint8':
                    lo = min(vals)
                    vals = [v - lo for v in vals]
                    if max(vals) // 4 > 255:
                        kind = 'int64'
                d['values'], d['as'] = vals, kind
    return case


def _container(d):
    vals = [v / 4.0 for v in d['values']]
    kind = d.get('as')
    if kind == 'int-list':
        return [int(v) for v in vals]
    if kind in ('int64', 'int32', 'uint8'):
        return np.array([int(v) for v in vals], dtype=kind)
    if kind == 'f4':
        return np.array(vals, dtype=np.float32)
    return vals


def generate(seed, tier):
    cases = []
    if tier == 'thorough':
        i = 0
        for k in range(1, 5):
            for sizes in itertools.product(range(1, 5), repeat=k):
                cases.append(_case(derived_rng(seed, 'C08', i), sizes))
                if k <= 3:                       # ... under every combination of the two ordering flags
                    for sp, sf in ((False, False), (False, True), (True, False), (True, True)):
                        c = _case(derived_rng(seed, 'C08', i), sizes)
                        c.update(spec=sp, s2f=sf)
                        cases.append(c)
                i += 1
        for a in range(5, 130):           # a long fastest dimension under a short slow one: every length once
            cases.append(_case(derived_rng(seed, 'C08', i), [a, 2]))
            i += 1
        for sizes in ([7, 7, 3], [7, 7, 2, 2], [11, 9, 2], [13, 8, 3]):
            cases.append(_case(derived_rng(seed, 'C08', i), sizes))
            i += 1
        return cases
    n_cases = {'quick': 200, 'search': 1200}[tier]
    for i in range(n_cases):
        rng = derived_rng(seed, 'C08', i)
        k = rng.randint(1, 4)
        sizes = [rng.choice([1, 2, 2, 3, 3, 4, 5]) for _ in range(k)]
        if rng.random() < 0.2:
            sizes = [sizes[0]] * k
        if i % 8 == 5:                    # long dimensions (the builders use floating-point ramps internally)
            sizes = rng.choice([[rng.randint(5, 129), 2], [7, 7, rng.choice([2, 3])], [rng.choice([49, 98, 103, 107]), 2],
                                [rng.randint(5, 40), rng.randint(2, 6), 2]])
        cases.append(_case(rng, sizes))
    # sizes handed over as a NARROW integer array whose running products do not fit that type (every size does)
    for j in range({'quick': 4, 'search': 16}.get(tier, 4)):
        rng = derived_rng(seed, 'C08n', j)
        c = _case(rng, rng.choice([[16, 16, 2], [20, 20, 3], [17, 16, 2, 2], [30, 9, 2]]))
        c.setdefault('form', {})['steps_as'] = rng.choice(['u1array', 'i1array' if False else 'u1array', 'u1array'])
        cases.append(c)
    return cases


def _q(a):
    """values matrix -> integer quarters (exactness is part of the check)"""
    a = np.asarray(a, dtype=np.float64) * 4
    if not np.all(a == np.round(a)):
        return 'inexact'
    return np.round(a).astype(np.int64).tolist()


def run_impl(inp, work):
    from pyUSID.io.anc_build_utils import build_ind_val_matrices, make_indices_matrix
    from pyUSID.io.hdf_utils import write_ind_val_dsets
    from pyUSID.io.dimension import Dimension
    dims = inp['dims']
    form = inp.get('form', {})
    uv = [_container(d) for d in dims]
    if form.get('tuple'):
        uv = tuple(uv)
    out = {}
    # (defaults: is_spectral=True for the builder, is_position=True for make_indices_matrix,
    #  is_spectral=True / slow_to_fast=False for the writer)
    r = call(build_ind_val_matrices, uv) if form.get('defaults') else call(build_ind_val_matrices, uv, is_spectral=True)
    rp = call(build_ind_val_matrices, uv, is_spectral=False)
    if r[0] == 'ok' and rp[0] == 'ok':
        out['build'] = {'ind': r[1][0].tolist(), 'val': _q(r[1][1]), 'ind_dtype': str(r[1][0].dtype),
                        'val_dtype': str(r[1][1].dtype),
                        'pos_dtypes': [str(rp[1][0].dtype), str(rp[1][1].dtype)],
                        'pos_is_transpose': bool(np.array_equal(rp[1][0], r[1][0].T) and np.array_equal(rp[1][1], r[1][1].T))}
    else:
        out['build'] = {'err': r[1] if r[0] == 'err' else rp[1]}
    steps = [len(d['values']) for d in dims]
    steps_arg = {'list': list, 'tuple': tuple, 'array': np.array,
                 'u1array': lambda v: np.array(v, dtype=np.uint8)}[form.get('steps_as', 'list')](steps)
    if form.get('bare') and len(steps) == 1:
        steps_arg = steps[0]
    r = call(make_indices_matrix, steps_arg, is_position=False)
    rp = call(make_indices_matrix, steps_arg) if form.get('defaults') else call(make_indices_matrix, steps_arg, is_position=True)
    out['make'] = {'ok': r[1].tolist(), 'dtype': str(r[1].dtype),
                   'pos_is_transpose': rp[0] == 'ok' and bool(np.array_equal(rp[1], r[1].T))} if r[0] == 'ok' else {'err': r[1]}
    if r[0] == 'ok':
        # the caller owns what it was given: editing it in place (e.g. adding an offset for a second block) must not
        # reach a matrix generated later for the same sizes
        try:
            r[1][...] = 77
        except ValueError:          # a read-only result cannot be edited at all
            pass
        r2 = call(make_indices_matrix, steps_arg, is_position=False)
        out['make']['again_same'] = r2[0] == 'ok' and r2[1].tolist() == out['make']['ok']
    with h5py.File(os.path.join(work, 'a.h5'), 'w') as f:
        def dim_of(d):
            vals = [v / 4.0 for v in d['values']]
            if vals == [float(i) for i in range(len(vals))] and d.get('as') in ('int-list', 'int64'):
                return Dimension(d['name'], d['units'], len(vals))          # the length stands for arange(length)
            return Dimension(d['name'], d['units'], _container(d))
        dobjs = [dim_of(d) for d in dims]
        if form.get('tuple'):
            dobjs = tuple(dobjs)
        if form.get('bare') and len(dims) == 1:
            dobjs = dobjs[0]
        parent = f.create_group('a').create_group('b') if form.get('nested') else f
        kw = {}
        if form.get('base_name'):
            kw['base_name'] = form['base_name']
        if form.get('verbose'):
            kw['verbose'] = True
        with quiet():
            if form.get('defaults') and inp['spec'] and not inp['s2f']:
                r = call(write_ind_val_dsets, parent, dobjs, **kw)
            else:
                r = call(write_ind_val_dsets, parent, dobjs, is_spectral=inp['spec'], slow_to_fast=inp['s2f'], **kw)
        if r[0] == 'ok':
            hi, hv = r[1]
            ind, val = hi[()], hv[()]
            if not inp['spec']:
                ind, val = ind.T, val.T
            def strs(a):
                return [x.decode() if isinstance(x, bytes) else str(x) for x in a]
            out['write'] = {'labels': strs(hi.attrs['labels']), 'units': strs(hi.attrs['units']),
                            'vlabels': strs(hv.attrs['labels']), 'vunits': strs(hv.attrs['units']),
                            'ind': ind.tolist(), 'val': _q(val), 'ind_dtype': str(hi.dtype), 'val_dtype': str(hv.dtype),
                            'names': [hi.name.split('/')[-1], hv.name.split('/')[-1]]}
            # the caller's own sequence after the call, and the same call once more with the very same objects
            if isinstance(dobjs, (list, tuple)):
                out['write']['args_after'] = [d.name for d in dobjs]
                with quiet():
                    r2 = call(write_ind_val_dsets, parent, dobjs, is_spectral=inp['spec'], slow_to_fast=inp['s2f'],
                              base_name='Again')
                if r2[0] == 'ok':
                    h2i, h2v = r2[1]
                    i2, v2 = (h2i[()], h2v[()]) if inp['spec'] else (h2i[()].T, h2v[()].T)
                    out['write']['again'] = {'labels': strs(h2i.attrs['labels']), 'same': bool(
                        np.array_equal(i2, ind) and np.array_equal(v2, val) and
                        strs(h2i.attrs['units']) == out['write']['units'])}
                else:
                    out['write']['again'] = {'err': r2[1]}
                # ... and once more under the SAME names with other values (a re-run after re-calibration): refused, or
                # what comes back holds the NEW values - never the old data under the new description
                shifted = [Dimension(d.name, d.units, np.asarray(d.values, dtype=np.float64) + 1.0) for d in dobjs]
                with quiet():
                    r3 = call(write_ind_val_dsets, parent, shifted if isinstance(dobjs, list) else tuple(shifted),
                              is_spectral=inp['spec'], slow_to_fast=inp['s2f'], **kw)
                if r3[0] == 'ok':
                    v3 = r3[1][1][()] if inp['spec'] else r3[1][1][()].T
                    out['write']['rewrite'] = {'new_values': bool(np.array_equal(v3, np.asarray(val, dtype=np.float64) + 1.0))}
                else:
                    out['write']['rewrite'] = {'err': r3[1]}
        else:
            out['write'] = {'err': r[1]}
    return out


def oracle(inp, obs):
    fails = []
    dims = inp['dims']
    lens = [len(d['values']) for d in dims]
    n = int(np.prod(lens))
    # direct enumeration of the Cartesian product, first dimension fastest
    want_ind = [[(c // int(np.prod(lens[:d]))) % lens[d] for c in range(n)] for d in range(len(dims))]
    want_val = [[dims[d]['values'][i] for i in row] for d, row in enumerate(want_ind)]
    b = obs['build']
    if 'err' in b:
        fails.append('build-raises: build_ind_val_matrices raised %s' % b['err'])
    else:
        if b['ind'] != want_ind:
            fails.append('build-indices: indices matrix is not the Cartesian product with the first dimension fastest')
        if b['val'] != want_val:
            fails.append('build-values: values matrix does not hold value_d[index_d]')
        cols = set(tuple(r[c] for r in b['ind']) for c in range(n))
        if len(cols) != n:
            fails.append('build-once: some combination of indices occurs more than once')
        if b['ind_dtype'] != 'uint32' or b['val_dtype'] != 'float32':
            fails.append('build-dtypes: %s / %s' % (b['ind_dtype'], b['val_dtype']))
        if b.get('pos_dtypes', ['uint32', 'float32']) != ['uint32', 'float32']:
            fails.append('build-dtypes-position: position matrices have element types %s' % b['pos_dtypes'])
        if not b['pos_is_transpose']:
            fails.append('build-transpose: position matrices are not the transposes of the spectroscopic ones')
    m = obs['make']
    if all(s >= 2 for s in lens) or lens == [1]:
        if 'err' in m:
            fails.append('make-raises: make_indices_matrix raised %s for sizes %s' % (m['err'], lens))
        elif m['ok'] != want_ind or not m['pos_is_transpose'] or m['dtype'] != 'uint32':
            fails.append('make-indices: make_indices_matrix%s is not the Cartesian product' % (lens,))
        elif m.get('again_same') is False:
            fails.append('make-shared-state: a matrix generated again for the sizes %s differs after the first one was edited '
                         'in place by its owner' % (lens,))
    elif 'err' not in m:
        fails.append('make-accepts: make_indices_matrix%s returned a matrix for a size-1 entry' % (lens,))
    w = obs['write']
    if 'err' in w:
        fails.append('write-raises: write_ind_val_dsets raised %s' % w['err'])
    else:
        D = list(dims) if inp['s2f'] else list(reversed(dims))       # stored order: slowest first
        L = [len(d['values']) for d in D]
        want_i = [[(c // int(np.prod(L[j + 1:]))) % L[j] for c in range(n)] for j in range(len(D))]
        want_v = [[D[j]['values'][i] for i in row] for j, row in enumerate(want_i)]
        if w['labels'] != [d['name'] for d in D] or w['units'] != [d['units'] for d in D] or \
                w['vlabels'] != w['labels'] or w['vunits'] != w['units']:
            fails.append('write-labels: stored labels/units %s/%s are not those of the dimensions slowest first'
                         % (w['labels'], w['units']))
        if w['ind'] != want_i or w['val'] != want_v:
            fails.append('write-alignment: stored row j does not carry the indices/values of dimension j '
                         '(slow_to_fast=%s, spectral=%s)' % (inp['s2f'], inp['spec']))
        if w['ind_dtype'] != 'uint32' or w['val_dtype'] != 'float32':
            fails.append('write-dtypes: %s / %s' % (w['ind_dtype'], w['val_dtype']))
        if 'args_after' in w and w['args_after'] != [d['name'] for d in dims]:
            fails.append('write-mutates-arguments: the caller\'s sequence of dimensions reads %s after the call' % w['args_after'])
        if 'again' in w and ('err' in w['again'] or w['again']['labels'] != w['labels'] or not w['again']['same']):
            fails.append('write-repeat: writing the same sequence of dimensions a second time stored %s, the first time %s'
                         % (w['again'].get('labels', w['again'].get('err')), w['labels']))
        if w.get('rewrite', {}).get('new_values') is False:
            fails.append('write-rewrite: a second write under the same names returned datasets that do not hold the values '
                         'of the dimensions it was given')
        base = 'Spectroscopic' if inp['spec'] else 'Position'
        if inp.get('form', {}).get('base_name'):
            base = inp['form']['base_name'].rstrip('_')
        if w['names'] != [base + '_Indices', base + '_Values']:
            fails.append('write-names: datasets named %s' % w['names'])
    return fails


def nontrivial(inp, obs):
    return sum(1 for d in inp['dims'] if len(d['values']) > 1) >= 2


def model_requests(inp):
    dims = inp['dims']
    return [{'op': 'anc.build', 'values': [d['values'] for d in dims]},
            {'op': 'anc.make', 'steps': [len(d['values']) for d in dims]},
            {'op': 'anc.write', 'dims': dims, 's2f': inp['s2f']}]


def model_obs(inp, resp):
    b, m, w = resp
    return {'build': b, 'make': ({'ok': m['ok']} if 'ok' in m else {'err': True}),
            'write': w}


def project(inp, obs):
    b, m, w = obs['build'], obs['make'], obs['write']
    return {'build': {'ind': b.get('ind'), 'val': b.get('val')} if 'err' not in b else {'err': True},
            'make': {'ok': m['ok']} if 'ok' in m else {'err': True},
            'write': {'labels': w['labels'], 'units': w['units'], 'ind': w['ind'], 'val': w['val']}
            if 'err' not in w else {'err': True}}


def distribution(cases, obs):
    d = {'k1': 0, 'k2': 0, 'k3': 0, 'k4': 0, 'with_size1': 0, 'equal_sizes': 0, 's2f': 0, 'spec': 0, 'make_refused': 0}
    for c, o in zip(cases, obs):
        lens = [len(x['values']) for x in c['dims']]
        d['k%d' % len(lens)] += 1
        d['with_size1'] += 1 in lens
        d['equal_sizes'] += len(lens) > 1 and len(set(lens)) == 1
        d['s2f'] += c['s2f']
        d['spec'] += c['spec']
        d['make_refused'] += 'err' in o['make']
    return d
