"""C09 — sizes, change-rate order and unit values are recovered from any regular grid."""
import os
import itertools
import numpy as np
import h5py
import gen
from core import derived_rng
from util import call, quiet

REQUIRED_THEOREMS = ['Usid.C09.change_count', 'Usid.C09.counts_strict', 'Usid.C09.sizes',
                     'Usid.C09.order_is_rate', 'Usid.C09.unit_values', 'Usid.C09.rebuild_indices']
RULE = ('[also: double-precision reference values that single precision cannot hold, compared bit for bit] [also: values on a large offset / a tiny scale for the index re-builder] [also: reference values not increasing with the index; tall / dask / int64 / h5py inputs to the free functions, verbose=True, a single name as str, float32 values for the rebuild; n_dim_labels / n_dim_sizes and the ORDER of the sorted view observed] regular grids of 1-4 dimensions, sizes 1-5 (biased to 1, equal sizes; a fifth with a dimension whose reference values are not distinct), every/random storage permutation, '
        'position- and spectroscopic-shaped, INCLUDING as many or more dimensions than points; get_sort_order, '
        'get_dimensionality, get_unit_values (is_spec given, and None where the shape is unambiguous), '
        'create_spec_inds_from_vals, and the USIDataset accessors get_pos_values / get_spec_values / *_dim_sizes; '
        'non-trivial = at least two dimensions of size > 1 stored in a non-identity rate order')
TRUSTED = ['np.argsort\'s order among tied change counts is unspecified (observed: not stable); theorems hold for EVERY order '
           'sorted by non-increasing count, and the correspondence compares orders modulo the placement of tied '
           '(size-1) dimensions']


def generate(seed, tier):
    cases = []
    if tier == 'thorough':
        i = 0
        for side in gen.exhaustive_sides(3, 3, 'D'):
            rng = derived_rng(seed, 'C09x', i)
            i += 1
            cases.append({'side': side, 'as': rng.choice(['pos', 'spec']), 'want': None})
        n_rand = 600
    else:
        n_rand = {'quick': 250, 'search': 1500}[tier]
    for i in range(n_rand):
        rng = derived_rng(seed, 'C09', i)
        side = gen.gen_side(rng, 'D', max_dims=4, max_size=5, long_prob=0.12, dup_prob=0.2, unsorted_prob=0.25)
        if i % 9 == 8:                         # as many or more dimensions than points
            k = rng.randint(2, 4)
            sizes = rng.choice([[1] * k, [1] * (k - 1) + [2], [2] + [1] * (k - 1)])
            side = dict(side, sizes=sizes, rate=rng.sample(range(k), k), labels=side['labels'][:k] + ['DQ', 'DR', 'DS', 'DT'][:max(0, k - len(side['labels']))],
                        units=(side['units'] * 4)[:k], values=[[3 * d + 2 * j for j in range(s)] for d, s in enumerate(sizes)])
            side['labels'] = ['D' + gen.LETTERS[d] for d in range(k)]
        want = None if rng.random() < 0.6 else rng.sample(side['labels'], rng.randint(1, len(side['labels'])))
        cases.append({'side': side, 'as': rng.choice(['pos', 'spec']), 'want': want,
                      # the values handed to the index re-builder may sit on a large offset (1 Hz steps at 16 MHz) or
                      # a tiny scale (nanoampere set points): distinct values that are "close" in numpy's sense
                      'rebuild_scale': rng.choice([None, None, 'offset', 'tiny'])})
    return cases


def _other_side():
    return {'sizes': [3], 'rate': [0], 'labels': ['OX'], 'units': ['o'], 'values': [[0, 4, 9]]}


def _q(a):
    a = np.asarray(a, dtype=np.float64) * 4
    return np.round(a).astype(np.int64).tolist() if np.all(a == np.round(a)) else 'inexact'


def run_impl(inp, work):
    from pyUSID.io.hdf_utils import get_sort_order, get_dimensionality, get_unit_values
    from pyUSID.io.anc_build_utils import create_spec_inds_from_vals
    from pyUSID import USIDataset
    side = inp['side']
    k = len(side['sizes'])
    inds_nk = gen.index_matrix(side['sizes'], side['rate'])        # n x k
    vals_nk = gen.value_matrix(side)
    inds_kn, vals_kn = np.ascontiguousarray(inds_nk.T), np.ascontiguousarray(vals_nk.T)
    labels = np.array(side['labels'])
    out = {}
    r = call(get_sort_order, inds_kn)
    out['order'] = [int(x) for x in r[1]] if r[0] == 'ok' else {'err': r[1]}
    r = call(get_dimensionality, inds_kn)
    out['dims'] = [int(x) for x in r[1]] if r[0] == 'ok' else {'err': r[1]}
    if isinstance(out['order'], list):
        r = call(get_dimensionality, inds_kn, out['order'])
        out['dims_sorted'] = [int(x) for x in r[1]] if r[0] == 'ok' else {'err': r[1]}
    else:
        out['dims_sorted'] = {'err': 'n/a'}
    stored_i, stored_v = (inds_nk, vals_nk) if inp['as'] == 'pos' else (inds_kn, vals_kn)
    is_spec = inp['as'] == 'spec'

    def uv(**kw):
        r = call(get_unit_values, stored_i, stored_v, all_dim_names=list(side['labels']), dim_names=inp['want'], **kw)
        if r[0] == 'err':
            return {'err': r[1]}
        return {k2: _q(v) for k2, v in r[1].items()}
    out['uv_explicit'] = uv(is_spec=is_spec)
    # exactly the reference values: double-precision values that single precision cannot hold come back bit for bit
    v64 = np.asarray(stored_v, dtype=np.float64) + 0.1
    r = call(get_unit_values, stored_i, v64, all_dim_names=list(side['labels']), dim_names=inp['want'], is_spec=is_spec)
    if r[0] == 'ok':
        if isinstance(out['uv_explicit'], dict) and 'err' not in out['uv_explicit']:
            out['uv_exact'] = all(
                np.asarray(v).dtype == np.float64 and
                [float(x) for x in np.asarray(v)] == [q / 4.0 + 0.1 for q in out['uv_explicit'].get(k2, [])]
                for k2, v in r[1].items()) if all(isinstance(x, list) for x in out['uv_explicit'].values()) else None
    else:
        out['uv_exact'] = {'err': r[1]}
    n = inds_nk.shape[0]
    out['unambiguous'] = (k < n)
    out['uv_auto'] = uv()
    rb_in = vals_kn.astype(np.float64)
    if inp.get('rebuild_scale') == 'offset':
        rb_in = rb_in + float(2 ** 24)
    elif inp.get('rebuild_scale') == 'tiny':
        rb_in = rb_in * 1e-9
    r = call(create_spec_inds_from_vals, rb_in)
    out['rebuild'] = np.asarray(r[1]).tolist() if r[0] == 'ok' else {'err': r[1]}
    r = call(create_spec_inds_from_vals, vals_kn.astype(np.float32))           # as stored on file
    out['rebuild_f4'] = np.asarray(r[1]).tolist() if r[0] == 'ok' else {'err': r[1]}
    # the same questions with other argument forms: position-shaped (tall) matrices, dask arrays, verbose output
    import dask.array as da
    alt = {}
    if k < n:
        for nm, arg in (('tall', inds_nk), ('dask', da.from_array(inds_kn, chunks=inds_kn.shape)),
                        ('int64', inds_kn.astype(np.int64))):
            r1, r2 = call(get_sort_order, arg), call(get_dimensionality, arg)
            alt[nm] = {'order': [int(x) for x in r1[1]] if r1[0] == 'ok' else {'err': r1[1]},
                       'dims': [int(x) for x in r2[1]] if r2[0] == 'ok' else {'err': r2[1]}}
    out['alt'] = alt
    with quiet():
        r = call(get_unit_values, stored_i, stored_v, all_dim_names=list(side['labels']), dim_names=inp['want'],
                 is_spec=is_spec, verbose=True)
    out['uv_verbose'] = {k2: _q(v) for k2, v in r[1].items()} if r[0] == 'ok' else {'err': r[1]}
    # through the dataset object
    ds = {'pos': side, 'spec': _other_side(), 'dtype': 'f8'} if inp['as'] == 'pos' else \
        {'pos': _other_side(), 'spec': side, 'dtype': 'f8'}
    ds[('spec' if inp['as'] == 'pos' else 'pos')]['labels'] = ['OX']
    with h5py.File(os.path.join(work, 'a.h5'), 'w') as f:
        gen.write_usid(f.create_group('G'), ds)
    with h5py.File(os.path.join(work, 'a.h5'), 'r') as f:
        r = call(USIDataset, f['G/main'])
        if r[0] == 'err':
            out['wrapper'] = {'err': r[1]}
        else:
            u = r[1]
            # the free functions on the HDF5 datasets themselves (labels read from the attributes; a single name as str)
            hi = f['G/Position_Indices'] if inp['as'] == 'pos' else f['G/Spectroscopic_Indices']
            hv = f['G/Position_Values'] if inp['as'] == 'pos' else f['G/Spectroscopic_Values']
            h5q = {}
            if k < n:
                r1, r2 = call(get_sort_order, hi), call(get_dimensionality, hi)
                h5q['order'] = [int(x) for x in r1[1]] if r1[0] == 'ok' else {'err': r1[1]}
                h5q['dims'] = [int(x) for x in r2[1]] if r2[0] == 'ok' else {'err': r2[1]}
            one = (inp['want'] or list(side['labels']))[0]
            r3 = call(get_unit_values, hi, hv, dim_names=one, is_spec=(inp['as'] == 'spec'))
            h5q['uv_one'] = {k2: _q(v) for k2, v in r3[1].items()} if r3[0] == 'ok' else {'err': r3[1]}
            out['h5'] = h5q
            w = {'sizes': [int(x) for x in (u.pos_dim_sizes if inp['as'] == 'pos' else u.spec_dim_sizes)],
                 'labels': [str(x) for x in (u.pos_dim_labels if inp['as'] == 'pos' else u.spec_dim_labels)], 'values': {}}
            for lab in side['labels']:
                rr = call(u.get_pos_values if inp['as'] == 'pos' else u.get_spec_values, lab)
                w['values'][lab] = _q(rr[1]) if rr[0] == 'ok' else {'err': rr[1]}
            # the same questions in the SORTED view (labels and sizes are re-ordered there; the ancillaries are not)
            w['n_dim'] = [[str(x) for x in u.n_dim_labels], [int(x) for x in u.n_dim_sizes],
                          [str(x) for x in u.pos_dim_labels] + [str(x) for x in u.spec_dim_labels],
                          [int(x) for x in u.pos_dim_sizes] + [int(x) for x in u.spec_dim_sizes]]
            u.toggle_sorting()
            w['sorted_labels'] = [str(x) for x in (u.pos_dim_labels if inp['as'] == 'pos' else u.spec_dim_labels)]
            w['n_dim_sorted'] = [[str(x) for x in u.n_dim_labels], [int(x) for x in u.n_dim_sizes],
                                 [str(x) for x in u.pos_dim_labels] + [str(x) for x in u.spec_dim_labels],
                                 [int(x) for x in u.pos_dim_sizes] + [int(x) for x in u.spec_dim_sizes]]
            w['sorted_sizes_by_label'] = dict(zip([str(x) for x in (u.pos_dim_labels if inp['as'] == 'pos' else u.spec_dim_labels)],
                                                  [int(x) for x in (u.pos_dim_sizes if inp['as'] == 'pos' else u.spec_dim_sizes)]))
            w['sorted_values'] = {}
            for lab in side['labels']:
                rr = call(u.get_pos_values if inp['as'] == 'pos' else u.get_spec_values, lab)
                w['sorted_values'][lab] = _q(rr[1]) if rr[0] == 'ok' else {'err': rr[1]}
            out['wrapper'] = w
    return out


def oracle(inp, obs):
    fails = []
    side = inp['side']
    sizes, rate, labels = side['sizes'], side['rate'], side['labels']
    k = len(sizes)
    n = int(np.prod(sizes))
    tag = 'dims>points' if k > n else ('dims=points' if k == n else 'regular')
    big_rate = [d for d in rate if sizes[d] > 1]
    if obs.get('uv_exact') is False:
        fails.append('unit-values-exact-%s: double-precision reference values do not come back bit for bit '
                     '(rounded through another element type?)' % tag)
    if isinstance(obs['order'], dict):
        fails.append('order-raises-%s: get_sort_order raised %s' % (tag, obs['order']['err']))
    else:
        ones_at = [i for i, d in enumerate(obs['order']) if 0 <= d < k and sizes[d] == 1]
        bigs_at = [i for i, d in enumerate(obs['order']) if 0 <= d < k and sizes[d] > 1]
        if tag == 'regular' and ones_at and bigs_at and min(ones_at) < max(bigs_at):
            fails.append('order-single-valued-%s: a dimension that never changes is ranked faster than one that does: order %s, '
                         'sizes %s' % (tag, obs['order'], sizes))
        if sorted(obs['order']) != list(range(k)) or [d for d in obs['order'] if sizes[d] > 1] != big_rate:
            fails.append('order-%s: reported order %s does not rank dimensions fastest to slowest (true rate %s, sizes %s)'
                         % (tag, obs['order'], rate, sizes))
    if obs['dims'] != sizes:
        fails.append('sizes-%s: reported sizes %s, true sizes %s' % (tag, obs['dims'], sizes))
    if isinstance(obs['order'], list) and sorted(obs['order']) == list(range(k)) and \
            obs['dims_sorted'] != [sizes[d] for d in obs['order']]:
        fails.append('sizes-sorted-%s: sizes in sorted order %s' % (tag, obs['dims_sorted']))
    want = inp['want'] or labels
    ref = {lab: side['values'][labels.index(lab)] for lab in want}
    if obs['uv_explicit'] != ref:
        fails.append('unit-values-explicit-%s: get_unit_values(is_spec given) returned %s, reference values %s'
                     % (tag, obs['uv_explicit'], ref))
    if obs['unambiguous'] and obs['uv_auto'] != ref:
        fails.append('unit-values-auto: get_unit_values(is_spec=None) returned %s on an unambiguous shape' % (obs['uv_auto'],))
    want_inds = gen.index_matrix(sizes, rate).T.tolist()
    distinct = all(len(set(v)) == len(v) for v in side['values'])
    if distinct and obs['rebuild'] != want_inds:     # indices can be re-derived from values only when these are distinct
        fails.append('rebuild-%s: create_spec_inds_from_vals does not reproduce the indices (sizes %s rate %s)'
                     % (tag, sizes, rate))
    w = obs['wrapper']
    if 'err' in w:
        fails.append('wrapper-raises-%s: USIDataset construction raised %s' % (tag, w['err']))
    else:
        if w['sizes'] != sizes:
            fails.append('wrapper-sizes-%s: %s_dim_sizes = %s, true %s' % (tag, inp['as'], w['sizes'], sizes))
        refall = {lab: side['values'][i] for i, lab in enumerate(labels)}
        if w['values'] != refall:
            fails.append('wrapper-values-%s-%s: get_%s_values returned %s, reference %s'
                         % (inp['as'], tag, inp['as'], w['values'], refall))
        if w.get('sorted_values', refall) != refall:
            fails.append('wrapper-values-sorted-view-%s-%s: after toggle_sorting get_%s_values returned %s, reference %s'
                         % (inp['as'], tag, inp['as'], w['sorted_values'], refall))
        want_sizes = {lab: sizes[i] for i, lab in enumerate(labels)}
        if w.get('sorted_sizes_by_label', want_sizes) != want_sizes:
            fails.append('wrapper-sizes-sorted-view-%s: sizes by label in the sorted view %s, true %s'
                         % (tag, w['sorted_sizes_by_label'], want_sizes))
    # ---- other argument forms must give the same answers (k < n: the shape is unambiguous)
    def same_order(o):
        return isinstance(o, list) and sorted(o) == list(range(k)) and [d for d in o if sizes[d] > 1] == big_rate
    for nm, a in list(obs.get('alt', {}).items()) + ([('h5py', obs['h5'])] if 'order' in obs.get('h5', {}) else []):
        if not same_order(a['order']):
            fails.append('order-%s-input: get_sort_order on a %s input gave %s (true rate %s, sizes %s)' % (nm, nm, a['order'], rate, sizes))
        if a['dims'] != sizes:
            fails.append('sizes-%s-input: get_dimensionality on a %s input gave %s, true %s' % (nm, nm, a['dims'], sizes))
    if 'uv_verbose' in obs and obs['uv_verbose'] != obs['uv_explicit']:
        fails.append('unit-values-verbose: verbose=True changes the result of get_unit_values: %s' % (obs['uv_verbose'],))
    if 'h5' in obs and k <= n and not (k == n and inp['as'] == 'pos'):
        one = (inp['want'] or labels)[0]
        if obs['h5']['uv_one'] != {one: side['values'][labels.index(one)]} and tag == 'regular':
            fails.append('unit-values-h5py: get_unit_values(h5 datasets, dim_names=%r) returned %s' % (one, obs['h5']['uv_one']))
    if 'rebuild_f4' in obs and distinct and obs['rebuild_f4'] != want_inds:
        fails.append('rebuild-float32-%s: create_spec_inds_from_vals on float32 values does not reproduce the indices' % tag)
    if 'err' not in w and 'n_dim' in w and tag == 'regular':
        nl, ns, cl, cs = w['n_dim']
        if nl != cl or ns != cs:          # file order: position dimensions followed by the spectroscopic ones
            fails.append('wrapper-n_dim: n_dim_labels / n_dim_sizes %s %s are not the position followed by the spectroscopic '
                         'ones %s %s' % (nl, ns, cl, cs))
        # sorted view: every label keeps its size, and this side's multi-valued dimensions are listed slowest first
        # in n_dim_labels (the per-side lists of the sorted view are fastest first in this library: not part of the property)
        nl, ns, cl, cs = w['n_dim_sorted']
        size_by = dict(zip(labels, sizes))
        size_by['OX'] = 3
        if sorted(nl) != sorted(cl) or any(size_by.get(l) != z for l, z in zip(nl, ns)) or any(size_by.get(l) != z for l, z in zip(cl, cs)):
            fails.append('wrapper-n_dim-sorted: labels and sizes of the sorted view do not pair up: %s %s / %s %s' % (nl, ns, cl, cs))
        want_sorted = [labels[d] for d in reversed(big_rate)]
        got_sorted = [l for l in nl if l in labels and sizes[labels.index(l)] > 1]
        if got_sorted != want_sorted:
            fails.append('wrapper-sorted-order: n_dim_labels in the sorted view %s, slowest-to-fastest is %s' % (nl, want_sorted))
    return fails


def nontrivial(inp, obs):
    s = inp['side']
    big = [d for d in s['rate'] if s['sizes'][d] > 1]
    return len(big) >= 2 and big != sorted(big)


def model_requests(inp):
    side = inp['side']
    inds_nk = gen.index_matrix(side['sizes'], side['rate'])
    vals_nk = (np.asarray(gen.value_matrix(side), dtype=np.float64) * 4).round().astype(int)
    m = inds_nk.T.tolist()
    stored_i = inds_nk.tolist() if inp['as'] == 'pos' else m
    stored_v = vals_nk.tolist() if inp['as'] == 'pos' else vals_nk.T.tolist()
    return [{'op': 'dims.sort', 'm': m, 'order': None},
            {'op': 'uv.get', 'inds': stored_i, 'vals': stored_v, 'names': side['labels'], 'want': inp['want'],
             'is_spec': inp['as'] == 'spec'},
            {'op': 'uv.get', 'inds': stored_i, 'vals': stored_v, 'names': side['labels'], 'want': inp['want'],
             'is_spec': None},
            {'op': 'uv.rebuild', 'vals': (vals_nk.T + (4 * 2 ** 24 if inp.get('rebuild_scale') == 'offset' else 0)).tolist()}]


def _e(x):
    return {'err': True} if isinstance(x, dict) and 'err' in x else x


def _canon_order(inp, order):
    """np.argsort's order among TIED change counts (size-1 dimensions) is unspecified (numpy's vectorised sorts are
    not stable): compare orders with every run of size-1 dimensions sorted"""
    if not isinstance(order, list):
        return order
    sizes = inp['side']['sizes']
    if any(d >= len(sizes) for d in order):
        return order
    ones = sorted(d for d in order if sizes[d] == 1)
    it = iter(ones)
    return [next(it) if sizes[d] == 1 else d for d in order]


def model_obs(inp, resp):
    s, u1, u2, rb = resp
    return {'order': _canon_order(inp, s['order']), 'dims': _e(s['dims'].get('ok', s['dims'])),
            'uv_explicit': _e(u1.get('ok', u1)), 'uv_auto': _e(u2.get('ok', u2)), 'rebuild': rb}


def project(inp, obs):
    return {'order': _canon_order(inp, _e(obs['order'])), 'dims': _e(obs['dims']), 'uv_explicit': _e(obs['uv_explicit']),
            'uv_auto': _e(obs['uv_auto']), 'rebuild': _e(obs['rebuild'])}


def _dims_vs_points(inp, obs, failure):
    s = inp['side']
    # KF-D5a is about the shape heuristic of get_sort_order / get_dimensionality (sizes, order and what the wrapper
    # derives from them).  Re-building indices from values and reading unit values with an explicit orientation do
    # not go through it and work on the unchanged tree: failures of those clauses are never covered by the finding.
    if failure.startswith(('rebuild-', 'unit-values-explicit-', 'unit-values-exact-')):
        return False
    return len(s['sizes']) > int(np.prod(s['sizes'])) and '-dims>points' in failure


KNOWN_CLASSES = {
    # D5a: a side with more dimensions than points is transposed by the shape heuristic of
    # get_sort_order / get_dimensionality (no orientation parameter exists)
    'more_dims_than_points': _dims_vs_points,
}


def distribution(cases, obs):
    d = {'pos': 0, 'spec': 0, 'dims>points': 0, 'dims=points': 0, 'with_size1': 0, 'k1': 0, 'k2': 0, 'k3': 0, 'k4': 0}
    for c in cases:
        s = c['side']
        k, n = len(s['sizes']), int(np.prod(s['sizes']))
        d[c['as']] += 1
        d['dims>points'] += k > n
        d['dims=points'] += k == n
        d['with_size1'] += 1 in s['sizes']
        d['k%d' % k] += 1
    return d
