"""C10 — flattening an N-D array back to 2D inverts the N-D reshape."""
import os
import numpy as np
import h5py
import dask.array as da
import gen
from core import derived_rng
from util import call, quiet

REQUIRED_THEOREMS = ['Usid.C10.flatten_of_reshape', 'Usid.C10.reshape_of_flatten', 'Usid.C10.flatten_reads_coordinates',
                     'Usid.C10.flatten_pos_only', 'Usid.C10.flatten_spec_only',
                     'Usid.C10.flatten_squeezed_pos', 'Usid.C10.flatten_squeezed_spec',
                     'Usid.C10.incompatible_raises', 'Usid.C10.rank_mismatch_raises', 'Usid.C10.result_shape',
                     'Usid.C10.one_sided_pos_size', 'Usid.C10.one_sided_spec_size',
                     'Usid.C10.one_sided_pos_incompatible_raises', 'Usid.C10.one_sided_spec_incompatible_raises']
RULE = ('[also: images / single spectra with the single-point axis squeezed out and the other side in every storage order] [also: main dtypes f8/f4/i4/c16/compound, chunked main, multi-chunk dask arrays, the lazily built N-D form, mixed containers for the two index matrices, verbose=True; a one-sided request must SUCCEED when every missing size is >= 2] generator datasets (1-3 dimensions per side, sizes 1-4, every storage permutation; a share with a single '
        'position or a single spectroscopic point); the file-order N-D form is flattened with the dataset\'s own index '
        'matrices passed as h5py / numpy / dask, with size-1 axes kept or squeezed, with only one matrix, and with '
        'shape-incompatible requests (wrong element count, wrong rank, one-sided with the matrix of another grid); non-trivial = N > 1 and M > 1 with a non-identity rate order on some side')


def generate(seed, tier):
    n_cases = {'quick': 160, 'thorough': 2500, 'search': 1200}[tier]
    cases = []
    for i in range(n_cases):
        rng = derived_rng(seed, 'C10', i)
        while True:
            ds = gen.gen_dataset(rng, max_dims=3, max_size=4, long_prob=0.12, dtypes=('f8', 'f8', 'f4', 'i4', 'c16', 'compound'))
            if i % 7 == 6 or i % 7 == 3:
                side = rng.choice(['pos', 'spec'])
                ds[side] = {'sizes': [1], 'rate': [0], 'labels': [ds[side]['labels'][0]], 'units': ['u'], 'values': [[2]]}
                if i % 7 == 3:
                    # the other side: every dimension multi-valued, so that squeezing removes exactly the single point's axis
                    other = 'spec' if side == 'pos' else 'pos'
                    ds[other]['sizes'] = [max(2, x) for x in ds[other]['sizes']]
                    ds[other]['values'] = [list(range(3 * d, 3 * d + 4 * x, 4)) for d, x in enumerate(ds[other]['sizes'])]
            if gen.n_points(ds['pos']) * gen.n_points(ds['spec']) <= 600 and \
                    all(len(s['sizes']) <= gen.n_points(s) for s in (ds['pos'], ds['spec'])):
                break
        cases.append({'ds': ds, 'anc': rng.choice(['h5py', 'numpy', 'dask']), 'squeeze': rng.random() < 0.3 or i % 7 == 3,
                      'bad': rng.choice([None, None, None, 'count', 'rank']), 'pick': rng.randint(0, 7),
                      # the spectroscopic matrix may come in another container than the position matrix; chunked main;
                      # verbose output
                      'anc_spec': rng.choice([None, None, 'h5py', 'numpy', 'dask']), 'chunked': rng.random() < 0.3,
                      'verbose': rng.random() < 0.2})
    # as many dimensions as points on a side (a SQUARE index matrix), at least two of them multi-valued
    for j in range({'quick': 20, 'thorough': 120, 'search': 60}[tier]):
        rng = derived_rng(seed, 'C10sq', j)
        sizes = list(rng.choice([[2, 2, 1, 1], [2, 2, 1, 1], [2, 3, 1, 1, 1, 1]]))
        if j % 4 >= 2:
            rng.shuffle(sizes)
        k = len(sizes)
        rate = list(range(k))
        if j % 4 in (1, 3):
            rng.shuffle(rate)
        sq, other = ('pos', 'spec') if j % 2 == 0 else ('spec', 'pos')
        pre = 'P' if sq == 'pos' else 'S'
        ds = {sq: {'sizes': sizes, 'rate': rate, 'labels': [pre + gen.LETTERS[d] for d in range(k)],
                   'units': ['u%d' % d for d in range(k)], 'values': [list(range(3 * d, 3 * d + 4 * x, 4)) for d, x in enumerate(sizes)]},
              other: {'sizes': [3], 'rate': [0], 'labels': ['Q' + pre], 'units': ['u'], 'values': [[2, 5, 9]]}, 'dtype': 'f8'}
        cases.append({'ds': ds, 'anc': rng.choice(['h5py', 'numpy', 'dask']), 'squeeze': False, 'bad': None, 'pick': 0,
                      'anc_spec': None, 'chunked': False, 'verbose': False, 'both_only': True})
    # images and single spectra: ONE point on a side whose axis has been squeezed out of the N-D array, the other side
    # with two or three multi-valued dimensions in EVERY storage order (fastest-first is the usual one)
    for j in range({'quick': 8, 'thorough': 60, 'search': 30}[tier]):
        rng = derived_rng(seed, 'C10img', j)
        k = rng.choice([2, 2, 3])
        sizes = [rng.choice([2, 3, 4]) for _ in range(k)]
        rate = list(range(k))
        rng.shuffle(rate)
        if j % 2 == 0:
            rate = list(range(k))            # fastest first
        one, many = ('spec', 'pos') if j % 4 < 2 else ('pos', 'spec')
        pre = 'P' if many == 'pos' else 'S'
        ds = {many: {'sizes': sizes, 'rate': rate, 'labels': [pre + gen.LETTERS[d] for d in range(k)],
                     'units': ['u%d' % d for d in range(k)], 'values': [list(range(3 * d, 3 * d + 4 * x, 4)) for d, x in enumerate(sizes)]},
              one: {'sizes': [1], 'rate': [0], 'labels': ['Q' + pre], 'units': ['u'], 'values': [[2]]}, 'dtype': 'f8'}
        cases.append({'ds': ds, 'anc': rng.choice(['h5py', 'numpy', 'dask']), 'squeeze': True, 'bad': None, 'pick': 0,
                      'anc_spec': None, 'chunked': False, 'verbose': False})
    return cases


def _foreign(shape, total, rng_pick):
    """index matrix (points x 2) of ANOTHER grid with `total` points, one of whose two sizes occurs in `shape` and
    one does not: a shape-incompatible one-sided request"""
    cands = []
    for a in range(2, total):
        if total % a == 0 and total // a >= 2:
            b = total // a
            if (a in shape) != (b in shape):
                cands.append((a, b))
    if not cands:
        return None
    a, b = cands[rng_pick % len(cands)]
    return gen.index_matrix([a, b], [1, 0] if rng_pick % 2 else [0, 1])


def _tok(a):
    a = np.asarray(a.compute() if hasattr(a, 'compute') else a)
    return {'shape': list(a.shape), 'flat': gen.tokens(a).ravel().tolist()}


def run_impl(inp, work):
    from pyUSID.io.hdf_utils import reshape_to_n_dims, reshape_from_n_dims
    ds = inp['ds']
    path = os.path.join(work, 'a.h5')
    with h5py.File(path, 'w') as f:
        n_, m_ = gen.n_points(ds['pos']), gen.n_points(ds['spec'])
        gen.write_usid(f.create_group('G'), ds, chunks=((max(1, n_ // 2), max(1, (m_ + 1) // 2)) if inp.get('chunked') else None))
    out = {}
    with h5py.File(path, 'r') as f:
        h5 = f['G/main']
        main = h5[()]
        r = call(reshape_to_n_dims, h5)
        if r[0] == 'err':
            return {'nd_err': r[1]}
        nd = np.asarray(r[1][0])
        out['nd'] = _tok(nd)
        hp, hs = f['G/Position_Indices'], f['G/Spectroscopic_Indices']
        convs = {'h5py': lambda d: d, 'numpy': lambda d: d[()], 'dask': lambda d: da.from_array(d[()], chunks=d.shape)}
        conv = convs[inp['anc']]
        conv_s = convs[inp.get('anc_spec') or inp['anc']]
        vkw = {'verbose': True} if inp.get('verbose') else {}
        arr = np.squeeze(nd) if inp['squeeze'] else nd
        if inp['bad'] == 'count':
            arr = np.concatenate([nd, nd], axis=0)
        elif inp['bad'] == 'rank':
            arr = nd.reshape(nd.shape + (1,))
        out['arr_shape'] = list(arr.shape)
        out['arr_flat'] = gen.tokens(arr).ravel().tolist()

        def flat(a, **kw):
            kw.update(vkw)
            with quiet():
                r = call(reshape_from_n_dims, a, **kw)
            if r[0] == 'err':
                return {'err': r[1], 'cls': r[2]}
            return _tok(r[1][0])
        out['both'] = flat(arr, h5_pos=conv(hp), h5_spec=conv_s(hs))
        out['both_dask_data'] = flat(da.from_array(arr, chunks=tuple(max(1, (x + 1) // 2) for x in arr.shape)), h5_pos=conv(hp), h5_spec=conv_s(hs))
        if inp['bad'] is None and not inp['squeeze']:
            # the lazily built N-D form of the (possibly chunked) HDF5 dataset itself
            rl = call(reshape_to_n_dims, h5, lazy=True)
            out['both_lazy_nd'] = flat(rl[1][0], h5_pos=conv(hp), h5_spec=conv_s(hs)) if rl[0] == 'ok' else {'err': rl[1], 'cls': rl[2]}
        out['pos_only'] = flat(arr, h5_pos=conv(hp))
        out['spec_only'] = flat(arr, h5_spec=conv_s(hs))
        out['main'] = _tok(main)
        # one-sided requests with the index matrix of a DIFFERENT grid (same number of points)
        if inp['bad'] is None and not inp['squeeze']:
            fs = _foreign(list(nd.shape), hs.shape[1], inp.get('pick', 0))
            fp = _foreign(list(nd.shape), hp.shape[0], inp.get('pick', 0))
            if fs is not None:
                out['foreign_spec_matrix'] = fs.T.tolist()
                out['foreign_spec'] = flat(arr, h5_spec=np.ascontiguousarray(fs.T))
            if fp is not None:
                out['foreign_pos_matrix'] = fp.tolist()
                out['foreign_pos'] = flat(arr, h5_pos=np.ascontiguousarray(fp))
        # one-sided requests with the array arranged the wrong way round ([spec..., pos...]): shape-incompatible
        # whenever the axes that would have to hold the supplied side hold another number of points
        if inp['bad'] is None and not inp['squeeze'] and nd.ndim >= 2:
            mv_p, mv_s = np.moveaxis(nd, -1, 0), np.moveaxis(nd, 0, -1)
            out['moved_pos_shape'], out['moved_pos_flat'] = list(mv_p.shape), gen.tokens(mv_p).ravel().tolist()
            out['moved_spec_shape'], out['moved_spec_flat'] = list(mv_s.shape), gen.tokens(mv_s).ravel().tolist()
            out['moved_pos'] = flat(mv_p, h5_pos=conv(hp))
            out['moved_spec'] = flat(mv_s, h5_spec=conv_s(hs))
        # second half of the round trip: reshaping the flattened matrix again
        if 'err' not in out['both'] and inp['bad'] is None and list(arr.shape) == list(nd.shape):
            two_d = np.array(out['both']['flat'], dtype=np.float64).reshape(out['both']['shape'])
            r = call(reshape_to_n_dims, two_d, h5_pos=hp[()], h5_spec=hs[()])
            out['again'] = _tok(r[1][0]) if r[0] == 'ok' else {'err': r[1]}
            r = call(reshape_to_n_dims, two_d, h5_pos=hp, h5_spec=hs, lazy=True)        # HDF5 ancillaries, lazy result
            out['again_h5_lazy'] = _tok(r[1][0]) if r[0] == 'ok' else {'err': r[1]}
    return out


def _s2f_matrix(inp, side):
    """canonical slowest-to-fastest flattening of that side's axes of the file-order N-D form"""
    return None


def oracle(inp, obs):
    fails = []
    if 'nd_err' in obs:
        return ['nd-form: reshape_to_n_dims raised %s' % obs['nd_err']]
    ds = inp['ds']
    n, m = gen.n_points(ds['pos']), gen.n_points(ds['spec'])
    tag = 'single-point-side' if (n == 1 or m == 1) else 'regular'
    if inp['bad'] is None:
        for key in ('both', 'both_dask_data') + (('both_lazy_nd',) if 'both_lazy_nd' in obs else ()):
            b = obs[key]
            if inp['squeeze'] and obs['arr_shape'] != obs['nd']['shape']:
                # squeezing that removed exactly the one axis of a single-point side must still work
                only_single = (n == 1) != (m == 1) and len(obs['arr_shape']) == len(obs['nd']['shape']) - 1 and \
                    len(ds['pos' if n == 1 else 'spec']['sizes']) == 1
                if only_single:
                    if 'err' in b:
                        fails.append('squeezed-single-point-raises: flattening the N-D form whose single-point axis was '
                                     'squeezed out raised %s (%s ancillaries)' % (b['cls'], inp['anc']))
                    elif b['flat'] != obs['main']['flat'] or (len(obs['arr_shape']) >= 2 and b['shape'] != obs['main']['shape']):
                        # (an array squeezed down to ONE axis is returned as it is, by design: only its elements are compared)
                        fails.append('squeezed-single-point: flattening the squeezed N-D form does not return the original matrix')
                # any other squeezed array may be refused; if something is returned it must hold main's elements in order
                elif 'err' not in b and b['flat'] != obs['main']['flat']:
                    fails.append('squeezed-permuted: flattening a squeezed N-D form returned rearranged data')
                continue
            if 'err' in b:
                fails.append('left-inverse-raises-%s%s: flattening with both index matrices (%s ancillaries, squeezed=%s) '
                             'raised %s' % (tag, '-dask' if key != 'both' else '', inp['anc'], inp['squeeze'], b['cls']))
            elif b != obs['main']:
                fails.append('left-inverse-%s: flattening the N-D form does not return the original matrix' % tag)
        if 'again' in obs and obs['again'] != obs['nd']:
            fails.append('right-inverse: reshaping the flattened matrix again does not return the same N-D array')
        if 'again_h5_lazy' in obs and obs['again_h5_lazy'] != obs['nd'] and ds.get('dtype', 'f8') == 'f8':
            fails.append('right-inverse-h5-lazy: reshaping the flattened matrix again (HDF5 ancillaries, lazy) does not return the same N-D array')
        # one-sided: the missing side is taken slowest -> fastest.  A permuted matrix must never be returned:
        # whatever is returned must hold, in every row, exactly the elements of ONE position of the N-D form
        nd = np.array(obs['nd']['flat']).reshape(obs['nd']['shape'])
        kp = len(ds['pos']['sizes'])
        for key, axis_is_pos in (('pos_only', True), ('spec_only', False)):
            o = obs[key]
            if inp['squeeze']:
                continue
            if 'err' in o:
                # the missing side is rebuilt from the array's shape: refused only when one of its sizes is 1
                # (make_indices_matrix) - with every missing size >= 2 the request must succeed
                missing = ds['spec' if axis_is_pos else 'pos']['sizes']
                # (the given matrix is handed to the shape heuristic as stored: a position matrix needs fewer
                #  dimensions than points - theorem flatten_pos_only's hypothesis, known finding D5a otherwise)
                if all(x >= 2 for x in missing) and (not axis_is_pos or kp < n):
                    fails.append('one-sided-raises-%s: flattening with only the %s matrix raised %s although every size of '
                                 'the missing side is >= 2' % (key, 'position' if axis_is_pos else 'spectroscopic', o['cls']))
                continue
            got = np.array(o['flat']).reshape(o['shape'])
            if axis_is_pos:
                # rows are indexed by the given position matrix -> must equal main's rows up to column order
                want_cols = np.transpose(nd, list(range(kp)) + list(range(kp, nd.ndim))).reshape(n, -1)
                ref = np.array(obs['main']['flat']).reshape(n, m)
                ok = got.shape == (n, m) and all(sorted(got[r]) == sorted(ref[r]) for r in range(n))
                # and the columns must be the C-order (slowest -> fastest) flattening of the spectroscopic axes
                ok = ok and np.array_equal(got, np.stack([nd[tuple(gen.index_matrix(ds['pos']['sizes'], ds['pos']['rate'])[r])].ravel()
                                                          for r in range(n)]))
            else:
                ref = np.array(obs['main']['flat']).reshape(n, m)
                si = gen.index_matrix(ds['spec']['sizes'], ds['spec']['rate'])
                ok = got.shape == (n, m) and np.array_equal(
                    got, np.stack([nd[(Ellipsis,) + tuple(si[c])].ravel() for c in range(m)], axis=1))
            if not ok:
                fails.append('one-sided-%s: flattening with only the %s matrix returned a matrix whose missing side is not '
                             'in slowest-to-fastest order' % (key, 'position' if axis_is_pos else 'spectroscopic'))
        for key in ('foreign_spec', 'foreign_pos'):
            if key in obs and 'err' not in obs[key]:
                fails.append('incompatible-%s: a one-sided request with the index matrix of another grid (a dimension size '
                             'that does not occur in the array) returned a matrix instead of raising' % key)
    # one-sided requests, any array: the leading len(pos sizes) axes must hold the positions (the trailing
    # len(spec sizes) axes the spectroscopic points) of the supplied matrix; when their extent is another number of
    # points the request is shape-incompatible and must raise whatever else the array looks like
    kp_, ks_ = len(ds['pos']['sizes']), len(ds['spec']['sizes'])
    for key, shp, is_pos in (('pos_only', obs['arr_shape'], True), ('spec_only', obs['arr_shape'], False),
                             ('moved_pos', obs.get('moved_pos_shape'), True), ('moved_spec', obs.get('moved_spec_shape'), False)):
        if key not in obs or shp is None or 'err' in obs[key] or (inp['squeeze'] and key.endswith('_only')):
            continue
        held = int(np.prod(shp[:kp_])) if is_pos else int(np.prod(shp[len(shp) - ks_:]))
        if len(shp) < (kp_ if is_pos else ks_) or held != (n if is_pos else m):
            fails.append('incompatible-one-sided-%s: the %s axes of the array (shape %s) hold %d points, the supplied %s '
                         'matrix %d, and a matrix of shape %s was returned instead of raising'
                         % (key, 'leading' if is_pos else 'trailing', shp, held,
                            'position' if is_pos else 'spectroscopic', n if is_pos else m, obs[key]['shape']))
    if inp['bad'] is not None:
        # (with a single matrix the other side is inferred from the array, so only the two-matrix request can
        # detect an element-count mismatch)
        for key in ('both', 'both_dask_data'):
            if key != 'both' and n * m == 1:
                continue          # a single element cannot be permuted
            if 'err' not in obs[key] and inp['bad'] == 'count':
                fails.append('incompatible-count: element-count mismatch did not raise with both matrices (%s)' % key)
            if 'err' not in obs[key] and inp['bad'] == 'rank':
                fails.append('incompatible-rank: rank mismatch with both matrices did not raise (%s)' % key)
    return fails


def nontrivial(inp, obs):
    ds = inp['ds']
    return gen.n_points(ds['pos']) > 1 and gen.n_points(ds['spec']) > 1 and \
        any(s['rate'] != sorted(s['rate']) for s in (ds['pos'], ds['spec']))


def model_requests_obs(inp, obs):
    if 'nd_err' in obs:
        return []
    ds = inp['ds']
    pos = gen.index_matrix(ds['pos']['sizes'], ds['pos']['rate']).tolist()
    spec = gen.index_matrix(ds['spec']['sizes'], ds['spec']['rate']).T.tolist()
    base = {'op': 'rs.from_nd', 'shape': obs['arr_shape'], 'flat': obs['arr_flat']}
    reqs = [dict(base, pos=pos, spec=spec), dict(base, pos=pos, spec=None), dict(base, pos=None, spec=spec)]
    if 'foreign_spec' in obs:
        reqs.append(dict(base, pos=None, spec=obs['foreign_spec_matrix']))
    if 'foreign_pos' in obs:
        reqs.append(dict(base, pos=obs['foreign_pos_matrix'], spec=None))
    if 'moved_pos' in obs:
        reqs.append({'op': 'rs.from_nd', 'shape': obs['moved_pos_shape'], 'flat': obs['moved_pos_flat'], 'pos': pos, 'spec': None})
        reqs.append({'op': 'rs.from_nd', 'shape': obs['moved_spec_shape'], 'flat': obs['moved_spec_flat'], 'pos': None, 'spec': spec})
    return reqs


def model_compare(inp, obs, resp):
    if 'nd_err' in obs:
        return []
    notes = []
    keys = ['both', 'pos_only', 'spec_only'] + [k for k in ('foreign_spec', 'foreign_pos') if k in obs] + \
        (['moved_pos', 'moved_spec'] if 'moved_pos' in obs else [])
    for key, r in zip(keys, resp):
        o = obs[key]
        if ('err' in o) != ('err' in r):
            notes.append('%s: impl %s model %s' % (key, 'error ' + o.get('cls', '') if 'err' in o else 'ok', r))
        elif 'ok' in r and (r['ok']['shape'] != o['shape'] or r['ok']['flat'] != o['flat']):
            notes.append('%s: returned matrices differ' % key)
    return notes


def _single_point(inp, obs, failure):
    ds = inp['ds']
    return failure.startswith('left-inverse-raises-single-point-side') and \
        (gen.n_points(ds['pos']) == 1 or gen.n_points(ds['spec']) == 1)


KNOWN_CLASSES = {'single_point_side': _single_point}


def distribution(cases, obs):
    d = {'h5py': 0, 'numpy': 0, 'dask': 0, 'squeezed': 0, 'bad_count': 0, 'bad_rank': 0, 'single_point_side': 0,
         'one_sided_errors': 0}
    for c, o in zip(cases, obs):
        d[c['anc']] += 1
        d['squeezed'] += c['squeeze']
        d['bad_count'] += c['bad'] == 'count'
        d['bad_rank'] += c['bad'] == 'rank'
        d['single_point_side'] += gen.n_points(c['ds']['pos']) == 1 or gen.n_points(c['ds']['spec']) == 1
        d['one_sided_errors'] += sum(1 for k in ('pos_only', 'spec_only') if isinstance(o.get(k), dict) and 'err' in o[k])
    return d
