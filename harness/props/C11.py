"""C11 — slice-to-dataset preserves every selected element with its coordinates."""
import os
import numpy as np
import h5py
import gen
from core import derived_rng
from util import call, quiet
from props.C07 import gen_sel, _py_sel
from props.C06 import describe, rules

REQUIRED_THEOREMS = ['Usid.C11.sides', 'Usid.C11.placeholder', 'Usid.C11.rows_cols_are_the_selection',
                     'Usid.C11.selected_rows_subgrid', 'Usid.C11.sliced_side_dims', 'Usid.C11.sliced_side_coordinates',
                     'Usid.C11.position_side_end_to_end', 'Usid.C11.spectroscopic_side_end_to_end']
RULE = ('[also: the slicing dictionary object used for another selection first, then edited in place] [also: numpy integers, tuples, arrays and repeated indices as selectors, main dtypes f8/f4/i4/c16/compound, dset_name, a repeated call; the Values link of an unsliced side, units of remaining dimensions, quantity/units and element type of the new dataset observed] generator datasets built with raw h5py (any storage order) AND datasets produced by the library\'s own writer in '
        'both ordering conventions, crossed with slicing dictionaries as in C07 (ints, slices, index lists on any '
        'subset of dimensions; every sixth case an IRREGULAR list that looks regular at first sight, on a long dimension or spread over two) and with the wrapper\'s view (file order, sorted, toggled); the new dataset is read back with raw h5py and compared, coordinate by coordinate '
        '(physical values of the remaining dimensions), with the source; non-trivial = a sliced side keeps >= 2 '
        'multi-valued dimensions')


def generate(seed, tier):
    n_cases = {'quick': 140, 'thorough': 2000, 'search': 900}[tier]
    cases = []
    for i in range(n_cases):
        rng = derived_rng(seed, 'C11', i)
        while True:
            ds = gen.gen_dataset(rng, max_dims=3, max_size=4, long_prob=0.12, dtypes=('f8', 'f8', 'f4', 'i4', 'c16', 'compound'))
            n, m = gen.n_points(ds['pos']), gen.n_points(ds['spec'])
            if n * m <= 400 and all(len(s['sizes']) <= gen.n_points(s) for s in (ds['pos'], ds['spec'])):
                break
        labs = ds['pos']['labels'] + ds['spec']['labels']
        sizes = ds['pos']['sizes'] + ds['spec']['sizes']
        sd = []
        for lab, sz in zip(labs, sizes):
            if rng.random() < 0.5:
                sd.append({'k': lab, 'v': gen_sel(rng, sz, rng.choice(['int', 'slice', 'list', 'list', 'full', 'tuple', 'array']))})
        if not sd:
            sd.append({'k': labs[0], 'v': gen_sel(rng, sizes[0], 'list')})
        if i % 6 == 5:
            # IRREGULAR index lists that look regular at first sight (first gap x (count - 1) = span), on a long
            # dimension or spread over two dimensions, on the side with fewer / more selected elements
            side = rng.choice(['pos', 'spec'])
            pre = 'P' if side == 'pos' else 'S'
            if rng.random() < 0.6:
                long_size = rng.choice([7, 8, 9])
                ds[side] = {'sizes': [long_size, 2], 'rate': rng.choice([[0, 1], [1, 0]]), 'labels': [pre + 'X', pre + 'Y'],
                            'units': ['ua', 'ub'], 'values': [list(range(0, 4 * long_size, 4)), [3, 9]]}
                tricky = [[0, 2, 3], [0, 2, 3, 6], [0, 2, 5, 6], [1, 3, 4], [0, 1, 3, 6], [0, 3, 4, 6], [1, 2, 5, 6]]
                lst = rng.choice(tricky) if rng.random() < 0.7 else sorted(rng.sample(range(long_size), rng.randint(3, 5)))
                sd = [{'k': pre + 'X', 'v': {'t': 'list', 'l': lst, 'as': rng.choice(['list', 'array'])}}]
                if rng.random() < 0.3:
                    sd.append({'k': pre + 'Y', 'v': {'t': 'int', 'i': rng.randrange(2)}})
            else:
                ds[side] = {'sizes': [4, 4], 'rate': rng.choice([[0, 1], [1, 0]]), 'labels': [pre + 'X', pre + 'Y'],
                            'units': ['ua', 'ub'], 'values': [[0, 4, 8, 12], [1, 5, 9, 13]]}
                a, b = rng.choice([([0, 3], [0, 1, 3]), ([0, 1, 3], [0, 3]), ([0, 3], [0, 2, 3]), ([1, 2], [0, 1, 3])])
                sd = [{'k': pre + 'X', 'v': {'t': 'list', 'l': a, 'as': 'list'}},
                      {'k': pre + 'Y', 'v': {'t': 'list', 'l': b, 'as': rng.choice(['list', 'array'])}}]
            other = 'spec' if side == 'pos' else 'pos'
            if gen.n_points(ds[other]) > 30 or rng.random() < 0.3:
                ds[other] = {'sizes': [3], 'rate': [0], 'labels': [('S' if side == 'pos' else 'P') + 'X'], 'units': ['uc'],
                             'values': [[1, 2, 7]]}
            elif any(l in (pre + 'X', pre + 'Y') for l in ds[other]['labels']):
                ds[other] = dict(ds[other], labels=[('S' if side == 'pos' else 'P') + 'Q%d' % d for d in range(len(ds[other]['labels']))])
        rng.shuffle(sd)
        npk = rng.choice([None, None, 'int64', 'int32'])
        for x in sd:
            if x['v'].get('t') == 'int' and npk:
                x['v'] = dict(x['v'], **{'as': npk})                      # numpy integers as scalar selectors
            elif x['v'].get('t') == 'list' and x['v']['l'] and rng.random() < 0.12:
                l = list(x['v']['l'])
                l.insert(rng.randrange(len(l) + 1), rng.choice(l))        # an index repeated inside a list
                x['v'] = dict(x['v'], l=l)
        cases.append({'ds': ds, 'sd': sd, 'source': rng.choice(['raw', 'raw', 'writer_f2s', 'writer_s2f']),
                      'view': rng.choice(['file', 'file', 'sorted', 'toggled']),
                      'dset_name': rng.choice([None, None, None, 'cut']), 'twice': rng.random() < 0.15})
        if derived_rng(seed, 'C11w', i).random() < 0.3:
            cases[-1]['warmup'] = True
    return cases


def _make_source(inp, f):
    """returns the h5 main dataset"""
    ds = inp['ds']
    g = f.create_group('G')
    if inp['source'] == 'raw':
        return gen.write_usid(g, ds)
    from pyUSID.io.hdf_utils import write_main_dataset
    from pyUSID.io.dimension import Dimension
    s2f = inp['source'] == 'writer_s2f'

    def dims(side):
        order = list(side['rate'])
        if s2f:
            order = order[::-1]
        return [Dimension(side['labels'][d], side['units'][d], [v / 4.0 for v in side['values'][d]]) for d in order]
    n, m = gen.n_points(ds['pos']), gen.n_points(ds['spec'])
    with quiet():
        return write_main_dataset(g, gen.main_array(n, m, ds.get('dtype', 'f8')), 'main', 'Current', 'nA', dims(ds['pos']), dims(ds['spec']),
                                  slow_to_fast=s2f)


def _coord_map(f, h5):
    """{(frozenset of (label, value*4)) : token} read with raw h5py"""
    pi, pv = f[h5.attrs['Position_Indices']], f[h5.attrs['Position_Values']]
    si, sv = f[h5.attrs['Spectroscopic_Indices']], f[h5.attrs['Spectroscopic_Values']]

    def strs(a):
        return [x.decode() if isinstance(x, bytes) else str(x) for x in a]
    pl, sl = strs(pv.attrs['labels']), strs(sv.attrs['labels'])
    pvals = (np.asarray(pv[()], dtype=np.float64) * 4).round().astype(int)
    svals = (np.asarray(sv[()], dtype=np.float64) * 4).round().astype(int)
    data = gen.tokens(h5[()])
    out, dup = {}, 0
    for r in range(data.shape[0]):
        for c in range(data.shape[1]):
            key = tuple(sorted([(l, int(pvals[r, d])) for d, l in enumerate(pl)] +
                               [(l, int(svals[d, c])) for d, l in enumerate(sl)]))
            if key in out:
                dup += 1
            out[key] = int(data[r, c])
    return out, dup, pl, sl, pi.name, si.name


def _dump(g):
    out = {}

    def visit(name, o):
        if isinstance(o, h5py.Dataset):
            out[name] = [str(o.dtype), list(o.shape), np.asarray(o[()]).ravel().tolist() if o.dtype.kind in 'iuf' else 'x',
                         sorted(str(k) for k in o.attrs.keys())]
    g.visititems(visit)
    return out


def run_impl(inp, work):
    from pyUSID import USIDataset
    path = os.path.join(work, 'a.h5')
    out = {}
    with h5py.File(path, 'w') as f:
        h5 = _make_source(inp, f)
        src_name = h5.name
    with h5py.File(path, 'r+') as f:
        h5 = f[src_name]
        src_map, _, spl, ssl, src_pi, src_si = _coord_map(f, h5)
        out['src_pos_labels'], out['src_spec_labels'] = spl, ssl
        before = _dump(f['G'])
        view = inp.get('view', 'file')
        u = USIDataset(h5, sort_dims=(view == 'sorted'))
        if view == 'toggled':
            u.toggle_sorting()
        sd = {x['k']: _py_sel(x['v']) for x in inp['sd']}
        kw = {'dset_name': inp['dset_name']} if inp.get('dset_name') else {}
        if inp.get('warmup'):
            # the SAME dictionary object first describes another selection (a loop that edits one dictionary in place)
            real = dict(sd)
            sd.clear()
            sd[(out['src_pos_labels'] + out['src_spec_labels'])[0]] = 0
            call(u.slice_to_dataset, sd)
            sd.clear()
            sd.update(real)
        r = call(u.slice_to_dataset, sd, **kw)
        if r[0] == 'err':
            out['err'] = r[1]
            out['cls'] = r[2]
            return out
        new = r[1]
        h5n = f[new.name]
        src_pv, src_sv = f[h5.attrs['Position_Values']].name, f[h5.attrs['Spectroscopic_Values']].name
        out['values_reused'] = [f[h5n.attrs['Position_Values']].name == src_pv, f[h5n.attrs['Spectroscopic_Values']].name == src_sv]

        def strs(a):
            return [x.decode() if isinstance(x, bytes) else str(x) for x in a]
        out['new_units'] = {}
        for link in ('Position_Indices', 'Position_Values', 'Spectroscopic_Indices', 'Spectroscopic_Values'):
            d = f[h5n.attrs[link]]
            out['new_units'][link] = dict(zip(strs(d.attrs['labels']), strs(d.attrs['units'])))
        out['main_attrs'] = [str(h5n.attrs.get('quantity')), str(h5n.attrs.get('units')), str(h5.attrs.get('quantity')),
                             str(h5.attrs.get('units'))]
        out['dtypes'] = [str(h5n.dtype), str(h5.dtype)]
        out['leaf'] = new.name.split('/')[-1]
        if inp.get('twice'):
            r2 = call(u.slice_to_dataset, sd, **kw)
            if r2[0] == 'err':
                out['second'] = {'err': r2[1]}
            else:
                m2 = _coord_map(f, f[r2[1].name])[0]
                m1 = _coord_map(f, h5n)[0]
                out['second'] = {'group': r2[1].name.split('/')[-2], 'first_group': new.name.split('/')[-2], 'same': m1 == m2}
        new_map, dup, npl, nsl, new_pi, new_si = _coord_map(f, f[new.name])
        out['new_name'] = new.name
        out['valid'] = rules(describe(f, f[new.name]))
        out['dup'] = dup
        out['new_pos_labels'], out['new_spec_labels'] = npl, nsl
        out['pos_reused'] = new_pi == src_pi
        out['spec_reused'] = new_si == src_si
        out['new_map'] = sorted([list(map(list, k)), v] for k, v in new_map.items())
        out['src_map'] = sorted([list(map(list, k)), v] for k, v in src_map.items())
        after = _dump(f['G'])
        out['source_unchanged'] = all(after.get(k) == v for k, v in before.items())
        out['shape'] = list(f[new.name].shape)
    return out


def _selection(inp):
    ds = inp['ds']
    size_of = dict(zip(ds['pos']['labels'] + ds['spec']['labels'], ds['pos']['sizes'] + ds['spec']['sizes']))
    sel = {}
    for x in inp['sd']:
        v = x['v']
        k = x['k']
        if v['t'] == 'int':
            sel[k] = [v['i']]
        elif v['t'] == 'slice':
            sel[k] = list(range(size_of[k]))[slice(v['a'], v['b'], v['s'])]
        else:
            sel[k] = list(v['l'])
    return sel, size_of


def oracle(inp, obs):
    fails = []
    ds = inp['ds']
    sel, size_of = _selection(inp)
    bad = any(len(v) == 0 for v in sel.values()) or any(i < 0 or i >= size_of[k] for k, v in sel.items() for i in v)
    if 'err' in obs:
        if not bad:
            fails.append('raises: slice_to_dataset raised %s for a valid request (source %s)' % (obs['cls'], inp['source']))
        return fails
    if bad:
        fails.append('accepts-invalid: an invalid selection produced a dataset')
        return fails
    if not obs['valid']:
        fails.append('valid-main: the new dataset is not a valid Main dataset')
    # value of every dimension at its selected indices
    val_of = {}
    for side in (ds['pos'], ds['spec']):
        for d, l in enumerate(side['labels']):
            val_of[l] = side['values'][d]
    sel_vals = {k: {val_of[k][i] for i in v} for k, v in sel.items()}
    new_labels = set(obs['new_pos_labels'] + obs['new_spec_labels'])
    expected = {}
    for key, tok in obs['src_map']:
        key = dict((l, v) for l, v in key)
        if all(key[l] in sel_vals[l] for l in sel_vals):
            proj = tuple(sorted((l, v) for l, v in key.items() if l in new_labels))
            expected[proj] = tok
    got = {}
    for key, tok in obs['new_map']:
        got[tuple(sorted((l, v) for l, v in key if l != 'arb.'))] = tok
    tag = ''
    for side, labs in ((ds['pos'], obs['new_pos_labels']), (ds['spec'], obs['new_spec_labels'])):
        if len([l for l in labs if l != 'arb.']) >= 2:
            tag = '-multi'
    if obs['dup']:
        fails.append('duplicate-coordinates: %d elements of the new dataset share their coordinates' % obs['dup'])
    if got != expected:
        missing = len(set(expected) - set(got))
        wrong = sum(1 for k in expected if k in got and got[k] != expected[k])
        fails.append('coordinates%s: the new dataset does not hold the selected elements under their coordinates '
                     '(%d missing, %d under wrong coordinates of %d; source %s)' % (tag, missing, wrong, len(expected), inp['source']))
    # sides
    for side, key, newlabs, reused in ((ds['pos'], 'pos', obs['new_pos_labels'], obs['pos_reused']),
                                       (ds['spec'], 'spec', obs['new_spec_labels'], obs['spec_reused'])):
        sliced = any(l in sel for l in side['labels'])
        if not sliced:
            if not reused:
                fails.append('unsliced-side-%s: the unsliced side does not refer to the source\'s ancillary datasets' % key)
            continue
        keep = [l for l in side['labels'] if len(set(sel.get(l, range(size_of[l])))) >= 2]
        if sorted(newlabs) != (sorted(keep) if keep else ['arb.']):
            fails.append('sliced-side-%s: remaining dimensions %s, expected %s' % (key, newlabs, keep or ['arb.']))
    if not obs['source_unchanged']:
        fails.append('source-modified: the source dataset or its ancillaries changed')
    # the Values link of an unsliced side too, units of the remaining dimensions, descriptive attributes, element type
    if 'values_reused' in obs:
        for (side, key), vr in zip(((ds['pos'], 'pos'), (ds['spec'], 'spec')), obs['values_reused']):
            if not any(l in sel for l in side['labels']) and not vr:
                fails.append('unsliced-side-values-%s: the Values link of the unsliced side is not the source\'s dataset' % key)
        unit_of = dict(zip(ds['pos']['labels'] + ds['spec']['labels'], ds['pos']['units'] + ds['spec']['units']))
        for link, table in obs['new_units'].items():
            for l, un in table.items():
                if l in unit_of and un != unit_of[l]:
                    fails.append('units: %s lists dimension %s with units %r, source %r' % (link, l, un, unit_of[l]))
        q = obs['main_attrs']
        if q[0] != q[2] or q[1] != q[3]:
            fails.append('main-attrs: quantity / units of the new dataset %s differ from the source\'s %s' % (q[:2], q[2:]))
        if obs['dtypes'][0] != obs['dtypes'][1]:
            fails.append('dtype: the new dataset holds %s, the source %s' % tuple(obs['dtypes']))
        if inp.get('dset_name') and obs['leaf'] != inp['dset_name']:
            fails.append('dset-name: the new dataset is called %r, requested %r' % (obs['leaf'], inp['dset_name']))
        if 'second' in obs:
            s2 = obs['second']
            if 'err' in s2:
                fails.append('second-call: repeating the call raised %s' % s2['err'])
            elif not s2['same'] or s2['group'] == s2['first_group']:
                fails.append('second-call: the repeated call did not produce an equal dataset in a new group (%s)' % (s2,))
    return fails


def nontrivial(inp, obs):
    return 'err' not in obs and (len([l for l in obs['new_pos_labels'] if l != 'arb.']) >= 2 or
                                 len([l for l in obs['new_spec_labels'] if l != 'arb.']) >= 2)


def _stored_side(inp, side):
    """ancillary matrices as stored by the source (the library writer stores slowest first)"""
    if inp['source'] == 'raw':
        order = list(range(len(side['sizes'])))
    else:
        order = list(reversed(side['rate']))
    inds = gen.index_matrix(side['sizes'], side['rate'])[:, order]
    vals = (np.asarray(gen.value_matrix(side), dtype=np.float64) * 4).round().astype(int)[:, order]
    return {'labels': [side['labels'][d] for d in order], 'units': [side['units'][d] for d in order],
            'inds': inds.tolist(), 'vals': vals.tolist(), 'sizes': [side['sizes'][d] for d in order]}


def model_requests(inp):
    ds = inp['ds']
    return [{'op': 'sliceto.run', 'n': gen.n_points(ds['pos']), 'm': gen.n_points(ds['spec']),
             'pos': _stored_side(inp, ds['pos']), 'spec': _stored_side(inp, ds['spec']),
             'sd': [{'k': x['k'], 'v': dict({k: v for k, v in x['v'].items() if k not in ('as', 'py')},
                                            t=('tuple' if x['v'].get('as') == 'tuple' else x['v']['t']))} for x in inp['sd']]}]


def model_obs(inp, resp):
    r = resp[0]
    if 'err' in r:
        return {'err': True}
    return r['ok']


def project(inp, obs):
    if 'err' in obs:
        return {'err': True}
    # data matrix and the written ancillaries (labels + value matrices) of sliced sides
    out = {'shape': obs['shape'], 'pos_reused': obs['pos_reused'], 'spec_reused': obs['spec_reused'],
           'pos_labels': None if obs['pos_reused'] else obs['new_pos_labels'],
           'spec_labels': None if obs['spec_reused'] else obs['new_spec_labels']}
    return out


def distribution(cases, obs):
    d = {'raw': 0, 'writer_f2s': 0, 'writer_s2f': 0, 'errors': 0, 'pos_reused': 0, 'spec_reused': 0, 'multi_dim_sliced_side': 0}
    for c, o in zip(cases, obs):
        d[c['source']] += 1
        if 'err' in o:
            d['errors'] += 1
            continue
        d['pos_reused'] += o['pos_reused']
        d['spec_reused'] += o['spec_reused']
        d['multi_dim_sliced_side'] += nontrivial(c, o)
    return d
