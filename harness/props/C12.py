"""C12 — reducing named dimensions equals the axis reduction, in memory and on file."""
import os
import itertools
import numpy as np
import h5py
import dask.array as da
import gen
from core import derived_rng
from util import call, quiet
from props.C06 import describe, rules

REQUIRED_THEOREMS = ['Usid.C12.cell_exact', 'Usid.C12.group_sizes', 'Usid.C12.reduced_anc_all_removed',
                     'Usid.C12.reduced_anc_keeps_labels', 'Usid.C12.memory_rejects', 'Usid.C12.file_form',
                     'Usid.C12.file_form_pos_reduced', 'Usid.C12.file_form_spec_reduced', 'Usid.C12.file_cells_exact']
RULE = ('[also: reference values stored in double precision that single precision cannot represent, compared bit for bit in the written dataset] [also: main dtypes f8/f4/i4, dims as list / tuple / bare string, dset_name, a repeated to_hdf5 call; units, quantity, placeholder side and the array returned by the to_hdf5 call observed] generator datasets (1-3 dimensions per side, sizes 1-4, any storage order, integer-valued data; a quarter with a '
        'dimension whose reference values are NOT distinct - elements are identified by their indices, values checked separately) x non-empty subsets '
        'of their dimensions (thorough: EVERY non-empty subset) x {mean, sum, max, min, std} x the wrapper\'s view (file order, '
        'sorted at construction, toggled once or twice); in-memory result compared '
        'with the group-by of the raw data; with to_hdf5 the call must either produce a valid Main dataset whose every '
        'element is the reduction of exactly the source elements sharing its remaining coordinates, or raise; '
        'non-trivial = at least one multi-valued dimension reduced and one kept')
FUNCS = ['mean', 'sum', 'max', 'min', 'std']
VIEWS = ['file', 'file', 'sorted', 'toggled', 'toggled_twice']
TRUSTED = ['float rounding of the summation order inside dask reductions is not modelled: sum/max/min/mean on integer '
           'tokens are compared exactly, std with relative tolerance 1e-9']


def generate(seed, tier):
    n_cases = {'quick': 140, 'thorough': 400, 'search': 900}[tier]
    cases = []
    for i in range(n_cases):
        rng = derived_rng(seed, 'C12', i)
        while True:
            ds = gen.gen_dataset(rng, max_dims=3, max_size=4, long_prob=0.12, dup_prob=0.25, dtypes=('f8', 'f8', 'f4', 'i4'))
            n, m = gen.n_points(ds['pos']), gen.n_points(ds['spec'])
            if n * m <= 300 and all(len(s['sizes']) <= gen.n_points(s) for s in (ds['pos'], ds['spec'])):
                break
        labs = ds['pos']['labels'] + ds['spec']['labels']
        if tier == 'thorough':
            subsets = [list(c) for k in range(1, len(labs) + 1) for c in itertools.combinations(labs, k)]
            for dims in subsets:
                cases.append({'ds': ds, 'dims': dims, 'func': rng.choice(FUNCS), 'to_file': True,
                              'view': rng.choice(VIEWS)})
            continue
        k = rng.randint(1, len(labs))
        dims = rng.sample(labs, k)
        if i % 9 == 8:
            dims = list(ds[rng.choice(['pos', 'spec'])]['labels'])      # a whole side
        cases.append({'ds': ds, 'dims': dims, 'func': rng.choice(FUNCS), 'to_file': rng.random() < 0.7,
                      'view': rng.choice(VIEWS),
                      # `dims` handed over as a bare string / tuple; dset_name; the call repeated
                      'dims_as': rng.choice(['list', 'list', 'tuple', 'str'] if len(dims) == 1 else ['list', 'list', 'tuple']),
                      'dset_name': rng.choice([None, None, None, 'red']), 'twice': rng.random() < 0.15})
    # reference values stored in double precision that single precision cannot hold (q/4 + 0.1)
    for k, c in enumerate(cases):
        if derived_rng(seed, 'C12v', k).random() < 0.35:
            c['ds'] = dict(c['ds'], val_dtype='f8')
    return cases


def _apply(func, vals):
    vals = [float(v) for v in vals]
    if func == 'sum':
        return float(np.sum(vals))
    if func == 'max':
        return float(np.max(vals))
    if func == 'min':
        return float(np.min(vals))
    if func == 'mean':
        return float(np.sum(vals)) / len(vals)
    return float(np.std(vals))


_F4 = [False]      # set per case: single-precision sources are reduced in single precision


def _close(func, a, b):
    if func == 'std' or (_F4[0] and func == 'mean'):
        return abs(a - b) <= (2e-5 if _F4[0] else 1e-9) * max(1.0, abs(b))
    return a == b


def _coord_map(f, h5):
    """{sorted tuple of (label, INDEX)} -> main element, read with raw h5py; the dimensions' values need not be
    distinct, so elements are identified by their indices and the (index -> value) tables are returned separately"""
    pi, pv = f[h5.attrs['Position_Indices']], f[h5.attrs['Position_Values']]
    si, sv = f[h5.attrs['Spectroscopic_Indices']], f[h5.attrs['Spectroscopic_Values']]

    def strs(a):
        return [x.decode() if isinstance(x, bytes) else str(x) for x in a]
    pl, sl = strs(pv.attrs['labels']), strs(sv.attrs['labels'])
    pinds, sinds = np.asarray(pi[()]).astype(int), np.asarray(si[()]).astype(int)
    pvals = (np.asarray(pv[()], dtype=np.float64) * 4).round().astype(int)
    svals = (np.asarray(sv[()], dtype=np.float64) * 4).round().astype(int)
    data = np.asarray(h5[()], dtype=np.float64)
    table = {}
    for d, l in enumerate(pl):
        for r in range(pinds.shape[0]):
            table.setdefault(l, {}).setdefault(int(pinds[r, d]), set()).add(int(pvals[r, d]))
    for d, l in enumerate(sl):
        for c in range(sinds.shape[1]):
            table.setdefault(l, {}).setdefault(int(sinds[d, c]), set()).add(int(svals[d, c]))
    cells = []
    for r in range(data.shape[0]):
        for c in range(data.shape[1]):
            key = sorted([[l, int(pinds[r, d])] for d, l in enumerate(pl)] + [[l, int(sinds[d, c])] for d, l in enumerate(sl)])
            cells.append([key, float(data[r, c])])
    table = {l: {str(i): sorted(v) for i, v in t.items()} for l, t in table.items()}
    return cells, table, pl, sl, pi, pv, si, sv


def _exact_values(f, h5):
    """{label: {index: bit-exact reference values seen at that index}} plus the element types of the two Values matrices"""
    pi, pv = f[h5.attrs['Position_Indices']], f[h5.attrs['Position_Values']]
    si, sv = f[h5.attrs['Spectroscopic_Indices']], f[h5.attrs['Spectroscopic_Values']]
    out = {}
    for inds, vals, labels in ((np.asarray(pi[()]), np.asarray(pv[()]), pv.attrs['labels']),
                               (np.asarray(si[()]).T, np.asarray(sv[()]).T, sv.attrs['labels'])):
        for d, l in enumerate(labels):
            l = l.decode() if isinstance(l, bytes) else str(l)
            t = {}
            for r in range(inds.shape[0]):
                t.setdefault(str(int(inds[r, d])), set()).add(float(vals[r, d]).hex())
            out[l] = {k: sorted(v) for k, v in t.items()}
    return out, [str(pv.dtype), str(sv.dtype)]


def run_impl(inp, work):
    from pyUSID import USIDataset
    ds = inp['ds']
    path = os.path.join(work, 'a.h5')
    with h5py.File(path, 'w') as f:
        gen.write_usid(f.create_group('G'), ds)
    out = {}
    ufunc = getattr(da, inp['func'])
    with h5py.File(path, 'r+') as f:
        view = inp.get('view', 'file')
        u = USIDataset(f['G/main'], sort_dims=(view == 'sorted'))
        for _ in range({'toggled': 1, 'toggled_twice': 2}.get(view, 0)):
            u.toggle_sorting()
        dims_arg = {'list': list, 'tuple': tuple, 'str': lambda d: d[0]}[inp.get('dims_as', 'list')](inp['dims'])
        kwn = {'dset_name': inp['dset_name']} if inp.get('dset_name') else {}
        r = call(u.reduce, dims_arg, ufunc=ufunc, to_hdf5=False)
        if r[0] == 'err':
            out['mem'] = {'err': r[1], 'cls': r[2]}
        else:
            a = np.asarray(r[1][0].compute())
            out['mem'] = {'shape': list(a.shape), 'flat': [float(x) for x in a.ravel()]}
        if inp['to_file']:
            src_cells, _, _, _, spi, _, ssi, _ = _coord_map(f, f['G/main'])
            src_pi, src_si = spi.name, ssi.name
            r = call(u.reduce, dims_arg, ufunc=ufunc, to_hdf5=True, **kwn)
            if r[0] == 'err':
                out['file'] = {'err': r[1], 'cls': r[2]}
            else:
                new = r[1][1]
                a2 = np.asarray(r[1][0].compute())
                out['mem_of_file_call'] = {'shape': list(a2.shape), 'flat': [float(x) for x in a2.ravel()]}
                h5n = f[new.name]
                cells, table, pl, sl, pi, pv, si, sv = _coord_map(f, h5n)
                data = np.asarray(h5n[()], dtype=np.float64)

                def strs(a):
                    return [x.decode() if isinstance(x, bytes) else str(x) for x in a]
                out['file'] = {'valid': rules(describe(f, h5n)), 'shape': list(data.shape), 'cells': cells, 'table': table,
                               'pos_labels': pl, 'spec_labels': sl, 'pos_reused': pi.name == src_pi,
                               'spec_reused': si.name == src_si,
                               'pos_units': strs(pv.attrs['units']), 'spec_units': strs(sv.attrs['units']),
                               'leaf': new.name.split('/')[-1], 'group': new.name.split('/')[-2],
                               'placeholder': {'pos': [np.asarray(pi[()]).tolist(), np.asarray(pv[()]).tolist()],
                                               'spec': [np.asarray(si[()]).tolist(), np.asarray(sv[()]).tolist()]},
                               'quantity': [str(h5n.attrs.get('quantity')), str(f['G/main'].attrs.get('quantity'))]}
                out['file']['exact'], out['file']['val_dtypes'] = _exact_values(f, h5n)
                out['src_exact'], out['src_val_dtypes'] = _exact_values(f, f['G/main'])
                if inp.get('twice'):
                    r2 = call(u.reduce, dims_arg, ufunc=ufunc, to_hdf5=True, **kwn)
                    if r2[0] == 'err':
                        out['file']['second'] = {'err': r2[1]}
                    else:
                        c2 = _coord_map(f, f[r2[1][1].name])[0]
                        out['file']['second'] = {'group': r2[1][1].name.split('/')[-2], 'same': c2 == cells}
            out['src_map'] = [[k, int(round(v))] for k, v in src_cells]
    return out


def _groupby(inp, src_map, remaining):
    groups = {}
    for key, tok in src_map:
        proj = tuple(sorted((l, v) for l, v in key if l in remaining))
        groups.setdefault(proj, []).append(tok)
    return groups


def oracle(inp, obs):
    fails = []
    ds = inp['ds']
    _F4[0] = ds.get('dtype') == 'f4'
    labs = ds['pos']['labels'] + ds['spec']['labels']
    sizes = ds['pos']['sizes'] + ds['spec']['sizes']
    func = inp['func']
    # ---- in memory: reduction of the N-D form over the named axes
    n, m = gen.n_points(ds['pos']), gen.n_points(ds['spec'])
    pi = gen.index_matrix(ds['pos']['sizes'], ds['pos']['rate'])
    si = gen.index_matrix(ds['spec']['sizes'], ds['spec']['rate'])
    nd = np.empty(sizes, dtype=np.float64)
    for r in range(n):
        for c in range(m):
            nd[tuple(list(pi[r]) + list(si[c]))] = r * m + c
    axes = tuple(labs.index(d) for d in inp['dims'])
    mem = obs['mem']
    if 'err' in mem:
        fails.append('memory-raises: reduce(%s, %s) raised %s' % (inp['dims'], func, mem['cls']))
    else:
        keep = [a for a in range(len(labs)) if a not in axes]
        want_shape = [sizes[a] for a in keep]
        moved = np.transpose(nd, keep + list(axes)).reshape(want_shape + [-1]) if keep else nd.reshape(1, -1)
        want = np.array([_apply(func, row) for row in moved.reshape(-1, moved.shape[-1])])
        got = np.array(mem['flat'])
        ok = mem['shape'] == want_shape and len(got) == len(want) and all(_close(func, a, b) for a, b in zip(got, want))
        if not ok and inp.get('view', 'file') in ('sorted', 'toggled'):
            # the sorted N-D form lists the remaining dimensions slowest first within each side: also acceptable
            kp = len(ds['pos']['sizes'])
            order = list(reversed(ds['pos']['rate'])) + [kp + d for d in reversed(ds['spec']['rate'])]
            keep_s = [a for a in order if a not in axes]
            moved = np.transpose(nd, keep_s + list(axes)).reshape([sizes[a] for a in keep_s] + [-1]) if keep_s else nd.reshape(1, -1)
            want_s = np.array([_apply(func, row) for row in moved.reshape(-1, moved.shape[-1])])
            ok = [x for x in mem['shape'] if x != 1] == [sizes[a] for a in keep_s if sizes[a] != 1] and \
                len(got) == len(want_s) and all(_close(func, a, b) for a, b in zip(got, want_s))
        if not ok:
            fails.append('memory: %s over %s differs from the same reduction applied to the N-D form (view %s)'
                         % (func, inp['dims'], inp.get('view', 'file')))
    # ---- on file
    if inp['to_file'] and 'file' in obs:
        fl = obs['file']
        if 'err' in fl:
            return fails            # raising is permitted by the property
        remaining = [l for l in labs if l not in inp['dims']]
        if not fl['valid']:
            fails.append('file-invalid: reduce(to_hdf5=True) returned a dataset that is not a valid Main dataset')
        groups = _groupby(inp, obs['src_map'], remaining)
        got = {}
        dup = 0
        for key, val in fl['cells']:
            k = tuple(sorted((l, v) for l, v in key if l in remaining))
            if k in got:
                dup += 1
            got[k] = val
        if dup or set(got) != set(groups):
            fails.append('file-coordinates: the written dataset does not have exactly one element per combination of the '
                         'remaining coordinates (%d duplicates, %d of %d present)' % (dup, len(set(got) & set(groups)), len(groups)))
        else:
            bad = [k for k in groups if not _close(func, got[k], _apply(func, groups[k]))]
            if bad:
                fails.append('file-values: %d of %d written elements are not the %s of the source elements sharing their '
                             'remaining coordinates (dims %s)' % (len(bad), len(groups), func, inp['dims']))
        # every remaining dimension carries, at each of its indices, its original reference value
        for side in (ds['pos'], ds['spec']):
            for l, vals in zip(side['labels'], side['values']):
                if l in remaining:
                    want_t = {str(i): [v] for i, v in enumerate(vals)}
                    if fl.get('table', {}).get(l) != want_t:
                        fails.append('file-unit-values: dimension %s of the written dataset carries %s, original reference '
                                     'values %s' % (l, fl.get('table', {}).get(l), want_t))
        # ... bit for bit, in the source's element type (the reference values are not recomputed, they are carried over)
        if 'exact' in fl:
            for l in remaining:
                if l in fl['exact'] and fl['exact'][l] != obs['src_exact'].get(l):
                    fails.append('file-unit-values-exact: the reference values of dimension %s in the written dataset are not '
                                 'bit for bit those of the source (%s vs %s)'
                                 % (l, list(fl['exact'][l].items())[:2], list(obs['src_exact'].get(l, {}).items())[:2]))
                    break
        if 'mem_of_file_call' in obs and 'err' not in obs['mem'] and \
                (obs['mem_of_file_call']['shape'] != obs['mem']['shape'] or
                 not all(_close(func, a, b) for a, b in zip(obs['mem_of_file_call']['flat'], obs['mem']['flat']))):
            fails.append('file-call-array: the array returned by the to_hdf5=True call differs from the in-memory reduction')
        if inp.get('dset_name') and fl.get('leaf') not in (None, inp['dset_name']):
            fails.append('dset-name: the written dataset is called %r, requested %r' % (fl.get('leaf'), inp['dset_name']))
        if 'quantity' in fl and fl['quantity'][0] != fl['quantity'][1]:
            fails.append('file-quantity: the written dataset carries quantity %r, the source %r' % tuple(fl['quantity']))
        if 'second' in fl:
            if 'err' in fl['second']:
                fails.append('second-call: repeating reduce(to_hdf5=True) raised %s' % fl['second']['err'])
            elif not fl['second']['same'] or fl['second']['group'] == fl.get('group'):
                fails.append('second-call: the repeated call did not write an equal dataset into a new group (%s)' % (fl['second'],))
        unit_of = dict(zip(ds['pos']['labels'] + ds['spec']['labels'], ds['pos']['units'] + ds['spec']['units']))
        for key in ('pos', 'spec'):
            for l, un in zip(fl[key + '_labels'], fl.get(key + '_units', [])):
                if l in unit_of and un != unit_of[l]:
                    fails.append('file-units-%s: dimension %s carries units %r, source %r' % (key, l, un, unit_of[l]))
        for side, key in ((ds['pos'], 'pos'), (ds['spec'], 'spec')):
            touched = any(l in inp['dims'] for l in side['labels'])
            if touched and not [l for l in side['labels'] if l not in inp['dims']] and 'placeholder' in fl:
                # a wholly reduced side: a single point with index 0
                inds = np.asarray(fl['placeholder'][key][0])
                if inds.size != 1 or int(inds.ravel()[0]) != 0 or len(fl[key + '_labels']) != 1:
                    fails.append('file-placeholder-%s: a wholly reduced side is not the one-point placeholder (%s, labels %s)'
                                 % (key, inds.tolist(), fl[key + '_labels']))
            if not touched and not fl[key + '_reused']:
                fails.append('file-reuse-%s: ancillaries of the untouched side were not reused' % key)
            if touched:
                keep = [l for l in side['labels'] if l not in inp['dims']]
                if keep and sorted(fl[key + '_labels']) != sorted(keep):
                    fails.append('file-labels-%s: reduced side carries %s, expected %s' % (key, fl[key + '_labels'], keep))
    return fails


def nontrivial(inp, obs):
    ds = inp['ds']
    size_of = dict(zip(ds['pos']['labels'] + ds['spec']['labels'], ds['pos']['sizes'] + ds['spec']['sizes']))
    return any(size_of[d] > 1 for d in inp['dims']) and any(size_of[l] > 1 for l in size_of if l not in inp['dims'])


def model_requests(inp):
    ds = inp['ds']
    pos, spec = ds['pos'], ds['spec']
    return [{'op': 'reduce.run', 'n': gen.n_points(pos), 'm': gen.n_points(spec),
             'pos': gen.index_matrix(pos['sizes'], pos['rate']).tolist(),
             'spec': gen.index_matrix(spec['sizes'], spec['rate']).T.tolist(),
             'posv': (np.asarray(gen.value_matrix(pos), dtype=np.float64) * 4).round().astype(int).tolist(),
             'specv': (np.asarray(gen.value_matrix(spec), dtype=np.float64) * 4).round().astype(int).T.tolist(),
             'plabs': pos['labels'], 'slabs': spec['labels'], 'punits': pos['units'], 'sunits': spec['units'],
             'dims': inp['dims']}]


def model_obs(inp, resp):
    r = resp[0]
    func = inp['func']
    out = {}
    mem = r['mem']
    out['mem'] = {'err': True} if 'err' in mem else {'shape': mem['ok']['shape'],
                                                    'flat': [_apply(func, g) for g in mem['ok']['groups']]}
    if inp['to_file']:
        fl = r.get('file', {'err': 'x'})
        if 'err' in fl:
            out['file'] = {'err': True}
        else:
            o = fl['ok']
            out['file'] = {'shape': o['shape'], 'flat': [_apply(func, g) for g in o['groups']],
                           'pos_labels': o['pos']['labels'], 'spec_labels': o['spec']['labels'],
                           'pos_reused': o['pos_reused'], 'spec_reused': o['spec_reused']}
    if inp['func'] == 'std':
        for k in out:
            if 'flat' in out[k]:
                out[k]['flat'] = [round(x, 6) for x in out[k]['flat']]
    _drop_single_precision(inp, out)
    return out


def _drop_single_precision(inp, out):
    """single-precision sources are reduced in single precision: mean / std are then compared by the oracle with a
    tolerance, not digit by digit with the model's double-precision value"""
    if inp['ds'].get('dtype') == 'f4' and inp['func'] in ('std', 'mean'):
        for k in out:
            if isinstance(out[k], dict) and 'flat' in out[k]:
                out[k]['flat'] = None


def project(inp, obs):
    out = {}
    mem = obs['mem']
    out['mem'] = {'err': True} if 'err' in mem else {'shape': mem['shape'], 'flat': mem['flat']}
    if inp['to_file']:
        fl = obs['file']
        if 'err' in fl:
            out['file'] = {'err': True}
        else:
            out['file'] = {'shape': fl['shape'], 'flat': [c[1] for c in fl['cells']], 'pos_labels': fl['pos_labels'],
                           'spec_labels': fl['spec_labels'], 'pos_reused': fl['pos_reused'], 'spec_reused': fl['spec_reused']}
    # std is compared with a tolerance by the oracle only: round for the model comparison
    if inp['func'] == 'std':
        for k in out:
            if 'flat' in out[k]:
                out[k]['flat'] = [round(x, 6) for x in out[k]['flat']]
    _drop_single_precision(inp, out)
    return out


def distribution(cases, obs):
    d = {'to_file': 0, 'file_written': 0, 'file_raised': 0, 'whole_side': 0, 'view_sorted': 0}
    for f in FUNCS:
        d[f] = 0
    for c, o in zip(cases, obs):
        d[c['func']] += 1
        d['view_sorted'] += c.get('view', 'file') in ('sorted', 'toggled')
        d['to_file'] += c['to_file']
        if c['to_file'] and 'file' in o:
            d['file_raised'] += 'err' in o['file']
            d['file_written'] += 'err' not in o['file']
        ds = c['ds']
        d['whole_side'] += any(all(l in c['dims'] for l in s['labels']) for s in (ds['pos'], ds['spec']))
    return d
