"""C13 — indexed and results groups get fresh, monotone, collision-free names."""
import os
import re
import itertools
import numpy as np
import h5py
import gen
from core import derived_rng
from util import call

REQUIRED_THEOREMS = ['Usid.C13.parents_independent', 'Usid.C13.fresh_monotone', 'Usid.C13.exactly_that_base', 'Usid.C13.history_all_succeed',
                     'Usid.C13.lookup_exact', 'Usid.C13.provenance']
RULE = ('[also: tool names containing . + ( ) * next to names they would match as patterns] [also: histories addressed in turn to TWO parent groups of one file] [also: tool names with a trailing underscore / surrounding blanks, indices at the 009/099/999 boundaries, a dataset at a results-style name, results created for like-named datasets of the parent group itself (decoys), the source handed over as a USIDataset, a File object as parent] histories (quick: length <= 8 random; thorough: also all histories of length <= 3 over a reduced vocabulary) of '
        'create_indexed_group / create_results_group (default placement, an explicit parent group elsewhere in the same file, '
        'a parent group in another file) / deletions over a name vocabulary closed under prefix and '
        'substring relations, with sibling groups and non-group objects present; non-trivial = at least one create '
        'whose base is a prefix/substring of another present name')
BASES = ['A', 'A_', 'A_B', 'A_A', 'B', 'AB', 'A_0']
DSETS = ['Raw', 'Raw_Data', 'Data', 'aw']
TOOLS = ['Fit', 'Fitter', 'it', 'Fit_x', 'Fi-t', 'Fit_2', 'Fit_', ' Fit ',
         # characters that mean something to a regular expression / a glob: names are literal text
         'Fi.t', 'Fixt', 'Fit+x', 'Fit(1)', 'Fi*']
SIBLINGS = [('A_B_000', 'group'), ('A_A_005', 'group'), ('A_x', 'group'), ('A_7', 'group'), ('B_000', 'dataset'),
            ('A_001', 'dataset'), ('AB_0_1', 'group'), ('A_0_003', 'group'), ('Raw_Data-Fitter_002', 'group'),
            # two- and three-digit boundaries, a non-group object at a results-style name
            ('A_009', 'group'), ('A_099', 'group'), ('B_999', 'group'), ('Raw-Fit_009', 'group'), ('Data-it_099', 'group'),
            ('Raw-Fit_001', 'dataset')]


def norm_tool(t):
    return t.strip().replace('-', '_')


def generate(seed, tier):
    n_cases = {'quick': 250, 'thorough': 2500, 'search': 1500}[tier]
    cases = []
    for i in range(n_cases):
        rng = derived_rng(seed, 'C13', i)
        initial = [list(s) for s in SIBLINGS if rng.random() < 0.3]
        ops = []
        created = []
        for _ in range(rng.randint(1, 8)):
            r = rng.random()
            if r < 0.4:
                ops.append({'op': 'indexed', 'base': rng.choice(BASES)})
            elif r < 0.85:
                ops.append({'op': 'results', 'dset': rng.choice(DSETS), 'tool': rng.choice(TOOLS)})
            else:
                ops.append({'op': 'del', 'pick': rng.randint(0, 20)})
        same = rng.random() < 0.75
        sibling = same and rng.random() < 0.35                       # an explicit parent group elsewhere in the SAME file
        cases.append({'initial': initial, 'ops': ops, 'same': same, 'sibling': sibling,
                      # ... which holds datasets carrying the same leaf names as the sources (the standard layout:
                      # results of Channel_000/Raw_Data placed in Channel_001, which has its own Raw_Data)
                      'decoy': sibling and rng.random() < 0.5,
                      # the source handed over as a USIDataset; the parent of another file being the File object itself
                      'as_usid': rng.random() < 0.3, 'file_parent': rng.random() < 0.5})
        if cases[-1]['decoy']:
            # results are also created for the like-named datasets of the parent group itself
            for op in cases[-1]['ops']:
                if op['op'] == 'results' and rng.random() < 0.4:
                    op['of_decoy'] = True
    # two parent groups of one file served in turn: the numbering of one parent must not see the other's members
    for i in range({'quick': 40, 'thorough': 400, 'search': 200}[tier]):
        rng = derived_rng(seed, 'C13two', i)
        ops = []
        for _ in range(rng.randint(2, 9)):
            op = {'op': 'indexed', 'base': rng.choice(BASES)} if rng.random() < 0.45 else \
                {'op': 'results', 'dset': rng.choice(DSETS), 'tool': rng.choice(TOOLS)}
            op['parent'] = rng.randint(0, 1)
            ops.append(op)
        cases.append({'kind': 'two', 'ops': ops,
                      'initial': [[list(x) for x in SIBLINGS if rng.random() < 0.2] for _ in (0, 1)]})
    if tier == 'thorough':
        vocab = [{'op': 'indexed', 'base': b} for b in ('A', 'A_B', 'A_A')] + \
                [{'op': 'results', 'dset': d, 'tool': t} for d in ('Raw', 'Raw_Data') for t in ('Fit', 'Fitter')] + \
                [{'op': 'del', 'pick': 0}]
        for k in (1, 2, 3):
            for ops in itertools.product(vocab, repeat=k):
                cases.append({'initial': [['A_B_000', 'group'], ['A_001', 'dataset']], 'ops': [dict(o) for o in ops],
                              'same': True})
    return cases


def _mk_main(grp, name, anc):
    d = grp.create_dataset(name, data=np.arange(6, dtype=np.float64).reshape(3, 2))
    d.attrs['quantity'] = 'q'
    d.attrs['units'] = 'u'
    for k, v in anc.items():
        d.attrs[k] = v.ref
    return d


def _run_two(inp, work):
    from pyUSID.io import hdf_utils
    ds = {'pos': {'sizes': [3], 'rate': [0], 'labels': ['PX'], 'units': ['a'], 'values': [[0, 1, 2]]},
          'spec': {'sizes': [2], 'rate': [0], 'labels': ['SX'], 'units': ['b'], 'values': [[0, 1]]}}
    with h5py.File(os.path.join(work, 'a.h5'), 'w') as f:
        ancg = f.create_group('anc')
        pi, pv = gen.write_anc(ancg, 'Position', ds['pos'], False)
        si, sv = gen.write_anc(ancg, 'Spectroscopic', ds['spec'], True)
        anc = {'Position_Indices': pi, 'Position_Values': pv, 'Spectroscopic_Indices': si, 'Spectroscopic_Values': sv}
        P = f.create_group('P')
        mains = {d: _mk_main(P, d, anc) for d in DSETS}
        parents = [f.create_group('Q0'), f.create_group('Q1')]
        for par, ini in zip(parents, inp['initial']):
            for name, kind in ini:
                if kind == 'group':
                    par.create_group(name)
                else:
                    par.create_dataset(name, data=np.zeros(2))
        outs = []
        for op in inp['ops']:
            par, oth = parents[op['parent']], parents[1 - op['parent']]
            before, oth_before = sorted(par.keys()), sorted(oth.keys())
            if op['op'] == 'indexed':
                r = call(hdf_utils.create_indexed_group, par, op['base'])
            else:
                r = call(hdf_utils.create_results_group, mains[op['dset']], op['tool'], h5_parent_group=par)
            rec = {'ok': r[1].name.split('/')[-1], 'in_parent': r[1].parent.name == par.name} if r[0] == 'ok' else {'err': r[1]}
            rec.update(before=before, after=sorted(par.keys()), other_unchanged=sorted(oth.keys()) == oth_before)
            outs.append(rec)
        find = []
        for k, par in enumerate(parents):
            fk = {}
            for d in DSETS:
                for t in TOOLS:
                    r = call(hdf_utils.find_results_groups, mains[d], t, h5_parent_group=par)
                    fk['%s|%s' % (d, t)] = sorted(g.name.split('/')[-1] for g in r[1]) if r[0] == 'ok' else {'err': r[1]}
            find.append(fk)
        return {'outs': outs, 'listing': [sorted(p.keys()) for p in parents], 'find': find}


def _oracle_two(inp, obs):
    fails = []
    tags = [{}, {}]
    for k in (0, 1):
        for n, kind in inp['initial'][k]:
            m = re.fullmatch(r'([^-]+)-(.+)_([0-9]+)', n)
            if m and kind == 'group':
                tags[k][n] = (m.group(1), m.group(2))
    for op, rec in zip(inp['ops'], obs['outs']):
        prefix = _base_(op['base']) if op['op'] == 'indexed' else '%s-%s_' % (op['dset'], norm_tool(op['tool']))
        used = [int(n[len(prefix):]) for n in rec['before'] if n.startswith(prefix) and re.fullmatch(r'[0-9]+', n[len(prefix):])]
        want = prefix + '%03d' % (max(used) + 1 if used else 0)
        if 'err' in rec:
            fails.append('two-parents-raises: %s raised %s in parent %d' % (op['op'], rec['err'], op['parent']))
            continue
        if rec['ok'] != want or not rec['in_parent']:
            fails.append('two-parents-monotone: created %r (in the requested parent: %s), expected %r from the members of '
                         'THAT parent %s' % (rec['ok'], rec['in_parent'], want, rec['before']))
        if sorted(rec['before'] + [rec['ok']]) != rec['after'] or not rec['other_unchanged']:
            fails.append('two-parents-frame: members of a parent changed beyond the one new group')
        if op['op'] == 'results':
            tags[op['parent']][rec['ok']] = (op['dset'], norm_tool(op['tool']))
    for k in (0, 1):
        for key, got in obs['find'][k].items():
            d, t = key.split('|')
            want = sorted(n for n, tg in tags[k].items() if tg == (d, norm_tool(t)))
            if got != want:
                fails.append('two-parents-lookup: find_results_groups(%s, %s) in parent %d returned %s, created there: %s'
                             % (d, t, k, got, want))
    return fails


def run_impl(inp, work):
    if inp.get('kind') == 'two':
        return _run_two(inp, work)
    from pyUSID.io import hdf_utils
    path = os.path.join(work, 'a.h5')
    path2 = os.path.join(work, 'b.h5')
    ds = {'pos': {'sizes': [3], 'rate': [0], 'labels': ['PX'], 'units': ['a'], 'values': [[0, 1, 2]]},
          'spec': {'sizes': [2], 'rate': [0], 'labels': ['SX'], 'units': ['b'], 'values': [[0, 1]]}}
    f = h5py.File(path, 'w')
    f2 = h5py.File(path2, 'w') if not inp['same'] else None
    try:
        ancg = f.create_group('anc')
        pi, pv = gen.write_anc(ancg, 'Position', ds['pos'], False)
        si, sv = gen.write_anc(ancg, 'Spectroscopic', ds['spec'], True)
        anc = {'Position_Indices': pi, 'Position_Values': pv, 'Spectroscopic_Indices': si, 'Spectroscopic_Values': sv}
        P = f.create_group('P')
        mains = {d: _mk_main(P, d, anc) for d in DSETS}
        parent = (f.create_group('Archive') if inp.get('sibling') else P) if inp['same'] else \
            (f2 if inp.get('file_parent') else f2.create_group('Q'))
        decoys = {}
        if inp.get('decoy'):
            for d in DSETS:
                decoys[d] = _mk_main(parent, d, anc)
        if inp.get('as_usid'):
            from pyUSID import USIDataset
            mains = {d: USIDataset(v) for d, v in mains.items()}
        for name, kind in inp['initial']:
            if kind == 'group':
                parent.create_group(name)
            else:
                parent.create_dataset(name, data=np.zeros(2))
        outs, created, snapshots = [], [], []
        for op in inp['ops']:
            before = sorted(parent.keys())
            if op['op'] == 'indexed':
                r = call(hdf_utils.create_indexed_group, parent, op['base'])
            elif op['op'] == 'results':
                kw = {} if (inp['same'] and not inp.get('sibling')) else {'h5_parent_group': parent}
                if op.get('of_decoy') and op['dset'] in decoys:
                    r = call(hdf_utils.create_results_group, decoys[op['dset']], op['tool'])      # default placement
                else:
                    r = call(hdf_utils.create_results_group, mains[op['dset']], op['tool'], **kw)
            else:
                groups = [k for k in parent.keys() if isinstance(parent[k], h5py.Group)]
                if groups:
                    victim = groups[op['pick'] % len(groups)]
                    del parent[victim]
                    r = ('ok', victim)
                else:
                    r = ('ok', None)
            after = sorted(parent.keys())
            if r[0] == 'ok':
                name = r[1] if isinstance(r[1], (str, type(None))) else r[1].name.split('/')[-1]
                rec = {'ok': name}
                if op['op'] == 'results':
                    g = parent[name]
                    rec['tool_attr'] = g.attrs['tool'] if 'tool' in g.attrs else None
                    rec['source'] = f[g.attrs['source_000']].name if 'source_000' in g.attrs else None
            else:
                rec = {'err': r[1]}
            rec['before'] = before
            rec['after'] = after
            outs.append(rec)
        listing = sorted(parent.keys())
        find = {}
        for d in DSETS:
            for t in TOOLS:
                kw = {} if (inp['same'] and not inp.get('sibling')) else {'h5_parent_group': parent}
                r = call(hdf_utils.find_results_groups, mains[d], t, **kw)
                find['%s|%s' % (d, t)] = sorted(g.name.split('/')[-1] for g in r[1]) if r[0] == 'ok' else {'err': r[1]}
        sources = {}
        for k in listing:
            if isinstance(parent[k], h5py.Group) and '-' in k:
                r = call(hdf_utils.get_source_dataset, parent[k])
                sources[k] = {'ok': r[1].name.split('/')[-1], 'path': r[1].name} if r[0] == 'ok' else {'err': r[1]}
        return {'outs': outs, 'listing': listing, 'find': find, 'sources': sources,
                'kinds': {k: ('group' if isinstance(parent[k], h5py.Group) else 'dataset') for k in listing}}
    finally:
        f.close()
        if f2 is not None:
            f2.close()


def _resolve_ops(inp, obs):
    """ops with deletions resolved to the names the implementation actually deleted"""
    out = []
    for op, rec in zip(inp['ops'], obs['outs']):
        if op['op'] == 'del':
            out.append({'op': 'del', 'name': rec.get('ok') or '__none__'})
        elif op['op'] == 'results':
            # (sidpy's argument validation strips surrounding blanks before the library sees the name)
            of_decoy = bool(op.get('of_decoy')) and bool(inp.get('decoy'))
            out.append({'op': 'results', 'dset': op['dset'], 'tool': op['tool'].strip(), 'same': inp['same'],
                        'sid': ('/Archive/' if of_decoy else '/P/') + op['dset']})
        else:
            out.append(op)
    return out


def _base_(b):
    return b if b.endswith('_') else b + '_'


def oracle(inp, obs):
    if inp.get('kind') == 'two':
        return _oracle_two(inp, obs)
    fails = []
    tags = {}            # group name -> (dset, normalised tool) it was created for
    for n, k in inp['initial']:      # groups left by earlier sessions carry their pair in their name
        m = re.fullmatch(r'([^-]+)-(.+)_([0-9]+)', n)
        if m and k == 'group':
            tags[n] = (m.group(1), m.group(2))
    for op, rec in zip(inp['ops'], obs['outs']):
        if op['op'] == 'del':
            tags.pop(rec.get('ok'), None)
            continue
        prefix = _base_(op['base']) if op['op'] == 'indexed' else '%s-%s_' % (op['dset'], norm_tool(op['tool']))
        used = [int(n[len(prefix):]) for n in rec['before'] if n.startswith(prefix) and
                re.fullmatch(r'[0-9]+', n[len(prefix):])]
        want = prefix + '%03d' % (max(used) + 1 if used else 0)
        if 'err' in rec:
            fails.append('create-raises: %s for prefix %r raised %s with siblings %s'
                         % (op['op'], prefix, rec['err'], rec['before']))
            continue
        if rec['ok'] != want:
            fails.append('monotone: created %r, expected %r (one more than the highest index used for exactly '
                         'that base) with siblings %s' % (rec['ok'], want, rec['before']))
        if rec['ok'] in rec['before']:
            fails.append('fresh: created name %r was already present' % rec['ok'])
        if sorted(rec['before'] + [rec['ok']]) != rec['after']:
            fails.append('frame: existing members changed: before %s after %s' % (rec['before'], rec['after']))
        if op['op'] == 'results':
            of_decoy = bool(op.get('of_decoy')) and bool(inp.get('decoy'))
            src_path = ('/Archive/' if of_decoy else '/P/') + op['dset']
            tags[rec['ok']] = (('decoy:' if of_decoy else '') + op['dset'], norm_tool(op['tool']))
            if rec.get('tool_attr') != norm_tool(op['tool']):
                fails.append('provenance-tool: tool attribute %r, expected %r' % (rec.get('tool_attr'), norm_tool(op['tool'])))
            if inp['same'] and rec.get('source') != src_path:
                fails.append('provenance-source: source_000 is %r, expected %s' % (rec.get('source'), src_path))
    for key, got in obs['find'].items():
        d, t = key.split('|')
        want = sorted(n for n, tg in tags.items() if tg == (d, norm_tool(t)) and n in obs['listing'])
        if got != want:
            fails.append('lookup: find_results_groups(%s, %s) returned %s, groups created for that pair: %s'
                         % (d, t, got, want))
    if inp['same']:
        initial_names = {n for n, _ in inp['initial']}
        for n, tg in tags.items():
            if inp.get('sibling') and n in initial_names:
                continue        # a group left elsewhere by an earlier session records no source: nothing to recover
            leaf = tg[0].split(':')[-1]
            want_path = ('/Archive/' if tg[0].startswith('decoy:') else '/P/') + leaf
            if n in obs['sources'] and (obs['sources'][n].get('ok') != leaf or
                                        obs['sources'][n].get('path', want_path) != want_path):
                fails.append('source-recovery: get_source_dataset(%s) gave %s, expected %s' % (n, obs['sources'][n], want_path))
    return fails


def nontrivial(inp, obs):
    if inp.get('kind') == 'two':
        return len({op['parent'] for op in inp['ops']}) == 2
    names = [n for n, _ in inp['initial']] + [r.get('ok') or '' for r in obs['outs']]
    for op in inp['ops']:
        b = op.get('base') or op.get('dset') or ''
        if b and any(n.startswith(b) and not re.fullmatch(re.escape(_base_(b)) + '[0-9]+', n) for n in names if n):
            return True
    return False


def model_requests_obs(inp, obs):
    if inp.get('kind') == 'two':
        # the file-level model serves the interleaved history itself (theorem parents_independent: each parent sees
        # exactly its own sub-history)
        ops = [dict({'op': 'indexed', 'base': op['base']} if op['op'] == 'indexed' else
                    {'op': 'results', 'dset': op['dset'], 'tool': op['tool'].strip(), 'same': True, 'sid': '/P/' + op['dset']},
                    parent=op['parent']) for op in inp['ops']]
        return [{'op': 'grp.file', 'parents': [[{'name': n, 'kind': kd} for n, kd in inp['initial'][k]] for k in (0, 1)],
                 'ops': ops, 'queries': [{'dset': d, 'tool': t.strip(), 'sid': '/P/' + d} for d in DSETS for t in TOOLS]}]
    init = [{'name': n, 'kind': k} for n, k in inp['initial']]
    if inp['same'] and (not inp.get('sibling') or inp.get('decoy')):
        init = init + [{'name': d, 'kind': 'dataset'} for d in DSETS]
    queries = [{'dset': d, 'tool': t.strip(), 'same': bool(inp['same']), 'sid': '/P/' + d} for d in DSETS for t in TOOLS]
    return [{'op': 'grp.run', 'initial': init, 'ops': _resolve_ops(inp, obs), 'queries': queries,
             'sources': sorted(obs['sources'].keys())}]


def model_compare(inp, obs, resp):
    if inp.get('kind') == 'two':
        notes = []
        r = resp[0]
        keys = ['%s|%s' % (d, t) for d in DSETS for t in TOOLS]
        for i, (op, a, b) in enumerate(zip(inp['ops'], obs['outs'], r['outs'])):
            if b['parent'] != op['parent'] or ('err' in a) != ('err' in b['out']) or ('ok' in a and a['ok'] != b['out'].get('ok')):
                notes.append('request %d (parent %d): impl %s model %s' % (i, op['parent'], a.get('ok', a.get('err')), b))
        for k in (0, 1):
            if sorted(r['listing'][k]) != obs['listing'][k]:
                notes.append('parent %d: listing differs: impl %s model %s' % (k, obs['listing'][k], sorted(r['listing'][k])))
            for key, m in zip(keys, r['find'][k]):
                if obs['find'][k][key] != sorted(m):
                    notes.append('parent %d: find_results_groups(%s) differs: impl %s model %s' % (k, key, obs['find'][k][key], sorted(m)))
        return notes
    r = resp[0]
    notes = []
    mo = [x if 'err' in x else {'ok': x['ok']} for x in r['outs']]
    io = [({'err': x['err']} if 'err' in x else {'ok': x['ok'] or '__none__'}) for x in obs['outs']]
    # only ok-vs-error and the created name are compared (the property does not name an exception class)
    for a, b in zip(io, mo):
        if ('err' in a) != ('err' in b) or ('ok' in a and a['ok'] != b['ok']):
            notes.append('op outcome differs: impl %s model %s' % (a, b))
    if sorted(r['listing']) != obs['listing']:
        notes.append('listing differs: impl %s model %s' % (obs['listing'], sorted(r['listing'])))
    keys = ['%s|%s' % (d, t) for d in DSETS for t in TOOLS]
    for k, m in zip(keys, r['find']):
        if obs['find'][k] != sorted(m):
            notes.append('find_results_groups(%s) differs: impl %s model %s' % (k, obs['find'][k], sorted(m)))
    for k, m in zip(sorted(obs['sources'].keys()), r['sources']):
        a = obs['sources'][k]
        if ('err' in a) != ('err' in m) or ('ok' in a and a['ok'] != m['ok']):
            notes.append('get_source_dataset(%s) differs: impl %s model %s' % (k, a, m))
    return notes


def distribution(cases, obs):
    d = {'ops': 0, 'indexed': 0, 'results': 0, 'deletions': 0, 'errors': 0, 'other_file': 0, 'with_nongroup_clash': 0}
    d['two_parent_histories'] = sum(1 for c in cases if c.get('kind') == 'two')
    for c, o in zip(cases, obs):
        if c.get('kind') == 'two':
            continue
        d['ops'] += len(c['ops'])
        for op, rec in zip(c['ops'], o['outs']):
            d['indexed'] += op['op'] == 'indexed'
            d['results'] += op['op'] == 'results'
            d['deletions'] += op['op'] == 'del'
            d['errors'] += 'err' in rec
        d['other_file'] += not c['same']
        d['with_nongroup_clash'] += any(k == 'dataset' for _, k in c['initial'])
    return d
