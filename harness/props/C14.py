"""C14 — work is partitioned across ranks without gaps or overlap (DESIGN §5 C14)."""
import os
import shutil
import numpy as np
import h5py
import gen
import procs
from core import derived_rng
from util import quiet, call
from props.C15 import Machine

USES_TRANSLATOR = True
DRIVER = 'MainGen.lean'
REQUIRED_THEOREMS = ['Usid.C14.ranks_see_initial_status', 'Usid.C14.generated_assign_eq_hand', 'Usid.C14.generated_assign_first_end', 'Usid.C14.generated_window_eq_hand',
                     'Usid.C14.ranges_partition', 'Usid.C14.ranges_cover_disjoint',
                     'Usid.C14.ranks_concat_eq_pending', 'Usid.C14.rank_batches', 'Usid.C14.socket_master']
RULE = ('[also: groups left by an old version - last_pixel only - resumed by several ranks] [also: the synchronisation skeleton of compute() is extracted from the current source and must satisfy the hypothesis Safe of theorem ranks_see_initial_status] [also: the ranks INTERLEAVED on one file - every rank runs compute() in its own thread under a deterministic cooperative scheduler with a fake mpi4py (rank, size, barrier), lowest or highest runnable rank first] [also: lazy reading, verbose=True] random (N positions up to 40, completion mask, rank count R, batch limit - common to all ranks or DIFFERENT per rank, as on '
        'sockets with different memory); the real compute() is run once per '
        'simulated rank on its own copy of the file; non-trivial = at least two ranks or a non-contiguous mask; '
        'plus processor-name lists for group_ranks_by_socket run against a fake MPI object')
TRUSTED = ['py2lean translator grammar/attribute table (its output is what the theorems are about)',
           'real MPI (barriers, mpio driver, concurrent writers) is not available and not modelled: '
           'ranks are simulated through the public attributes mpi_rank/mpi_size on separate file copies']
ASSUMPTIONS = ['the sequential rank simulation gives every rank the same completion mask; the interleaved simulation '
               '(kind mpi) explores two deterministic schedules (lowest / highest runnable rank first between barriers), '
               'not every interleaving; real MPI / the mpio driver are not available']


def generate(seed, tier):
    n_cases = {'quick': 60, 'thorough': 600, 'search': 400}[tier]
    cases = []
    for i in range(n_cases):
        rng = derived_rng(seed, 'C14', i)
        if i % 5 == 4:
            k = rng.randint(1, 9)
            names = [rng.choice(['n0', 'n1', 'n2', 'nodeA', 'n10']) for _ in range(k)]
            if derived_rng(seed, 'C14d', i).random() < 0.4:       # names with dots that agree up to the first dot
                rd = derived_rng(seed, 'C14d2', i)
                names = [rd.choice(['c1.x', 'c1.y', '10.0.0.1', '10.0.0.2', 'n0']) for _ in range(k)]
            rb = derived_rng(seed, 'C14s', i)
            if rb.random() < 0.4:       # more ranks than any small-input shortcut of a sorting routine covers
                k = rb.randint(17, 64)
                pool = rb.sample(['n0', 'n1', 'n2', 'nodeA', 'n10', 'n11', 'x', 'c1.x', 'c1.y', '10.0.0.1', '10.0.0.2'], rb.randint(2, 5))
                names = [rb.choice(pool) for _ in range(k)]
            cases.append({'kind': 'socket', 'names': names})
            continue
        n = rng.randint(1, 14)
        kind = rng.choice(['zero', 'prefix', 'random', 'random', 'one-left', 'all-done'])
        if kind == 'zero':
            mask = [0] * n
        elif kind == 'prefix':
            k = rng.randint(0, n)
            mask = [1] * k + [0] * (n - k)
        elif kind == 'random':
            mask = [rng.randint(0, 1) for _ in range(n)]
        elif kind == 'one-left':
            mask = [1] * n
            mask[rng.randrange(n)] = 0
        else:
            mask = [1] * n
        size, batch = rng.randint(1, 9), rng.randint(1, n + 2)
        case = {'kind': 'ranks', 'n': n, 'm': rng.randint(1, 3), 'mask': mask,
                'size': size, 'batch': batch, 'fresh': kind == 'zero' and rng.random() < 0.5}
        if rng.random() < 0.35:
            # ranks on sockets with different memory get different batch limits (each rank derives its own)
            case['batches'] = [rng.randint(1, max(1, n // 2)) for _ in range(size)]
        case['lazy'] = rng.random() < 0.3
        case['verbose'] = rng.random() < 0.15
        # a group left by an old version: only last_pixel; every rank builds the status dataset from it
        if kind == 'prefix' and derived_rng(seed, 'C14l', i).random() < 0.6:
            case['legacy'] = True
        cases.append(case)
    if True:
        # many pending positions per rank and small, differing batch limits
        for i in range({'quick': 12, 'thorough': 120, 'search': 80}[tier]):
            rng = derived_rng(seed, 'C14b', i)
            n = rng.randint(12, 40)
            size = rng.randint(2, 4)
            mask = [0] * n if rng.random() < 0.6 else [1 if rng.random() < 0.2 else 0 for _ in range(n)]
            cases.append({'kind': 'ranks', 'n': n, 'm': 1, 'mask': mask, 'size': size, 'batch': rng.randint(2, 6),
                          'batches': [rng.randint(2, 6) for _ in range(size)], 'fresh': False})
    cases.append({'kind': 'skeleton'})
    # cooperating ranks on ONE file, interleaved: every rank runs compute() in its own thread under a deterministic
    # cooperative scheduler (a rank keeps running until it blocks in comm.barrier(); then the lowest-numbered
    # runnable rank goes on; the barrier opens when every live rank has arrived) - or with the order reversed
    for i in range({'quick': 10, 'thorough': 80, 'search': 40}[tier]):
        rng = derived_rng(seed, 'C14m', i)
        n = rng.randint(2, 16)
        size = rng.randint(2, 4)
        fresh = rng.random() < 0.4
        mask = [0] * n if fresh else [1 if rng.random() < 0.3 else 0 for _ in range(n)]
        cases.append({'kind': 'mpi', 'n': n, 'm': rng.randint(1, 2), 'mask': mask, 'size': size,
                      'batch': rng.randint(1, 4), 'fresh': fresh, 'order': rng.choice(['low-first', 'high-first'])})
    return cases


def extract_skeleton(path=None):
    """the synchronisation skeleton of Process.compute(), read from the CURRENT source: the order of `assign`
    (__assign_job_indices), `barrier` and `mark` (a write to the completion-status dataset) instructions; methods of
    the class called from compute() are followed two levels deep, branches and loop bodies are taken in order"""
    import ast
    import pyUSID.processing.process as _pp
    path = path or _pp.__file__
    src = open(path).read()
    tree = ast.parse(src)
    cls = [n for n in tree.body if isinstance(n, ast.ClassDef) and n.name == 'Process'][0]
    methods = {n.name: n for n in cls.body if isinstance(n, ast.FunctionDef)}
    out = []
    def name_of(call):
        f = call.func
        return f.attr if isinstance(f, ast.Attribute) else (f.id if isinstance(f, ast.Name) else None)
    def is_status_target(t):
        return isinstance(t, ast.Subscript) and isinstance(t.value, ast.Attribute) and t.value.attr == '_h5_status_dset'
    def visit_expr_calls(node, depth):
        for sub in ast.walk(node):
            if isinstance(sub, ast.Call):
                nm = name_of(sub)
                if nm is None:
                    continue
                base = nm.replace('_Process', '')
                if base == '__assign_job_indices':
                    out.append('assign')
                elif nm in ('barrier', 'Barrier'):
                    out.append('barrier')
                elif base in methods and depth < 2 and base not in ('compute',):
                    # a method of the class: its own skeleton counts (status marks hidden in helpers)
                    before = len(out)
                    is_init = 'create_compute_status' in base
                    init_depth[0] += is_init
                    visit_body(methods[base].body, depth + 1)
                    init_depth[0] -= is_init
                    if len(out) == before:
                        out.append('other')
    init_depth = [0]
    rank_cond = [0]
    def visit_body(body, depth):
        for st in body:
            if isinstance(st, (ast.Assign, ast.AugAssign)):
                targets = st.targets if isinstance(st, ast.Assign) else [st.target]
                visit_expr_calls(st.value, depth)
                if any(is_status_target(t) for t in targets):
                    # the initialisation every rank performs for itself when the status dataset is created
                    # (identical values, before its own `assign`) is not a completion mark of a batch
                    # ... unless it is guarded by the rank: then SOME rank relies on a write of another one
                    out.append('other' if (init_depth[0] and not rank_cond[0]) else 'mark')
            elif isinstance(st, ast.Expr):
                visit_expr_calls(st.value, depth)
            elif isinstance(st, (ast.If,)):
                visit_expr_calls(st.test, depth)
                by_rank = any(isinstance(x, ast.Attribute) and x.attr == 'mpi_rank' for x in ast.walk(st.test))
                rank_cond[0] += by_rank
                visit_body(st.body, depth); visit_body(st.orelse, depth)
                rank_cond[0] -= by_rank
            elif isinstance(st, (ast.For, ast.While)):
                visit_expr_calls(st.iter if isinstance(st, ast.For) else st.test, depth)
                visit_body(st.body, depth); visit_body(st.orelse, depth)
            elif isinstance(st, ast.Try):
                visit_body(st.body, depth)
                for h in st.handlers: visit_body(h.body, depth)
                visit_body(st.orelse, depth); visit_body(st.finalbody, depth)
            elif isinstance(st, ast.With):
                visit_body(st.body, depth)
            elif isinstance(st, ast.Return) and st.value is not None:
                visit_expr_calls(st.value, depth)
    visit_body(methods['compute'].body, 0)
    return out


class _Scheduler(object):
    """cooperative, deterministic: exactly one rank runs at a time"""

    def __init__(self, size, order):
        import threading
        self.size, self.order = size, order
        self.cv = threading.Condition()
        self.waiting, self.done = set(), set()
        self.current = self._first(list(range(size)))

    def _first(self, ranks):
        return (min(ranks) if self.order == 'low-first' else max(ranks)) if ranks else None

    def _pick(self):
        live = [r for r in range(self.size) if r not in self.done]
        runnable = [r for r in live if r not in self.waiting]
        if live and not runnable:
            self.waiting.clear()              # every live rank sits in the barrier: it opens
            runnable = live
        self.current = self._first(runnable)

    def _wait_turn(self, rank):
        while not (self.current == rank and rank not in self.waiting):
            if not self.cv.wait(timeout=60):
                raise RuntimeError('scheduler timeout (rank %d)' % rank)

    def start(self, rank):
        with self.cv:
            self._wait_turn(rank)

    def barrier(self, rank):
        with self.cv:
            self.waiting.add(rank)
            self._pick()
            self.cv.notify_all()
            self._wait_turn(rank)

    def finish(self, rank):
        with self.cv:
            self.done.add(rank)
            self._pick()
            self.cv.notify_all()


def _run_mpi(inp, work):
    """all ranks on one file, interleaved by the scheduler; a fake mpi4py supplies rank / size / barrier"""
    import sys
    import types
    import threading
    n, m, mask, size = inp['n'], inp['m'], inp['mask'], inp['size']
    ds = {'pos': {'sizes': [n], 'rate': [0], 'labels': ['PX'], 'units': ['a'], 'values': [list(range(n))]},
          'spec': {'sizes': [m], 'rate': [0], 'labels': ['SX'], 'units': ['b'], 'values': [list(range(m))]},
          'dtype': 'f8'}
    path = os.path.join(work, 'mpi.h5')
    with h5py.File(path, 'w') as f:
        g = f.create_group('G')
        hm = gen.write_usid(g, ds)
        if not inp.get('fresh'):
            procs.make_prior_group(g, 'main', 'RowProc', {'a': 1}, n, mask=mask, source=hm)
    tls = threading.local()

    class Comm(object):
        sched = None

        def Get_size(self):
            return size

        def Get_rank(self):
            return tls.rank

        def barrier(self):
            if Comm.sched is not None:
                Comm.sched.barrier(tls.rank)
        Barrier = barrier

        def allgather(self, item):
            return ['node%d' % (r // 2) for r in range(size)]
    comm = Comm()
    fake_mpi = types.ModuleType('mpi4py.MPI')
    fake_mpi.COMM_WORLD = comm
    fake_mpi.Get_processor_name = lambda: 'node%d' % (tls.rank // 2)
    fake_pkg = types.ModuleType('mpi4py')
    fake_pkg.MPI = fake_mpi
    saved_mods = {k: sys.modules.get(k) for k in ('mpi4py', 'mpi4py.MPI')}
    saved_driver = h5py.File.driver
    sys.modules['mpi4py'], sys.modules['mpi4py.MPI'] = fake_pkg, fake_mpi
    h5py.File.driver = property(lambda self: 'mpio')       # Process believes in MPI only with the parallel driver
    log = os.path.join(work, 'mpilog.txt')
    os.environ[procs.LOG_ENV] = log
    out = {'errors': []}
    try:
        RowProc = procs.make_proc_class(collective=True)
        with h5py.File(path, 'r+') as f:
            ps = []
            with quiet(), Machine(8, 2 ** 33):
                for r in range(size):
                    tls.rank = r
                    p = RowProc(f['G/main'], parms={'a': 1}, cores=1)
                    if p.mpi_size != size or p.mpi_rank != r:
                        return {'infra': 'the MPI simulation did not take hold'}
                    p._max_pos_per_read = inp['batch']
                    ps.append(p)
                sched = _Scheduler(size, inp.get('order', 'low-first'))
                Comm.sched = sched
                errors = [None] * size

                def worker(r):
                    tls.rank = r
                    try:
                        sched.start(r)
                        ps[r].compute()
                    except BaseException as e:    # noqa - reported, never left hanging
                        errors[r] = '%s: %s' % (type(e).__name__, str(e)[:80])
                    finally:
                        sched.finish(r)
                ths = [threading.Thread(target=worker, args=(r,)) for r in range(size)]
                for t in ths:
                    t.start()
                for t in ths:
                    t.join()
                Comm.sched = None
            out['errors'] = errors
            grp = ps[0].h5_results_grp
            status = [int(x) for x in grp['completed_positions'][()]] if grp is not None and 'completed_positions' in grp else None
            results = [float(x) for x in grp['Results'][()]] if grp is not None and 'Results' in grp else None
            main = f['G/main'][()]
            out['status'] = status
            out['results_ok'] = results is not None and all(results[i] == procs.map_value(main[i])
                                                             for i in range(n) if mask[i] == 0)
            out['ranks'] = [{'batches': p.batches} for p in ps]
            out['calls'] = sorted(procs.read_log(log, m))
    finally:
        for k, v in saved_mods.items():
            if v is None:
                sys.modules.pop(k, None)
            else:
                sys.modules[k] = v
        h5py.File.driver = saved_driver
    return out


def _oracle_mpi(inp, obs):
    fails = []
    if 'infra' in obs:
        return ['mpi-simulation: %s' % obs['infra']]
    pend = [i for i, s in enumerate(inp['mask']) if s == 0]
    what = '%d interleaved ranks, %s, batch limit %d' % (inp['size'], inp.get('order'), inp['batch'])
    for r, e in enumerate(obs['errors']):
        if e:
            fails.append('mpi-rank-raises: rank %d raised %s (%s)' % (r, e, what))
    taken = [p for r in obs['ranks'] for b in r['batches'] for p in b]
    if sorted(taken) != pend:
        fails.append('mpi-partition: the ranks took %s, the pending positions are %s (gap or overlap; %s)' % (sorted(taken), pend, what))
    if [p for r in obs['ranks'] for b in r['batches'] for p in b] != pend:
        fails.append('mpi-partition-order: the ranks\' ranges in rank order are not the pending list (%s)' % what)
    if any(len(b) > inp['batch'] for r in obs['ranks'] for b in r['batches']):
        fails.append('mpi-batch-limit: a batch exceeds the limit (%s)' % what)
    if obs.get('status') != [1] * inp['n']:
        fails.append('mpi-status: positions not marked complete at the end: %s (%s)' % (obs.get('status'), what))
    if not obs.get('results_ok'):
        fails.append('mpi-results: a pending position does not hold its result (%s)' % what)
    if obs.get('calls') != pend:
        fails.append('mpi-calls: the map function was called for %s, pending %s (%s)' % (obs.get('calls'), pend, what))
    return fails


class _Sent(BaseException):
    def __init__(self, item):
        self.item = item


class FakeComm(object):
    """allgather is faithful to what the ranks SEND: in a first pass every rank's contribution is collected (the call is
    cut short), in the second pass the gathered list is handed back"""
    def __init__(self, names, rank=0, gathered=None):
        self.names, self.rank, self.gathered = names, rank, gathered

    def Get_size(self):
        return len(self.names)

    def Get_rank(self):
        return self.rank

    def allgather(self, item):
        if self.gathered is None:
            raise _Sent(item)
        return list(self.gathered)


class FakeMPI(object):
    def __init__(self, names, rank=0, gathered=None):
        self.COMM_WORLD = FakeComm(names, rank, gathered)
        self.names, self.rank = names, rank

    def Get_processor_name(self):
        return self.names[self.rank]


def run_impl(inp, work):
    if inp['kind'] == 'socket':
        from pyUSID.processing import comp_utils
        old = comp_utils.get_MPI
        names = inp['names']
        try:
            sent = []
            for rk in range(len(names)):
                comp_utils.get_MPI = lambda rk=rk: FakeMPI(names, rk)
                try:
                    comp_utils.group_ranks_by_socket()
                    sent.append(names[rk])       # (a version that gathers nothing)
                except _Sent as c:
                    sent.append(c.item)
            per_rank = []
            for rk in (0, len(names) - 1):
                comp_utils.get_MPI = lambda rk=rk: FakeMPI(names, rk, sent)
                r = call(comp_utils.group_ranks_by_socket)
                per_rank.append([int(x) for x in r[1]] if r[0] == 'ok' else {'err': r[1]})
        finally:
            comp_utils.get_MPI = old
        if isinstance(per_rank[0], dict):
            return {'err': per_rank[0]['err']}
        return {'masters': per_rank[0], 'ranks_agree': per_rank[0] == per_rank[-1]}
    if inp['kind'] == 'skeleton':
        try:
            return {'prog': extract_skeleton()}
        except Exception as e:     # noqa
            return {'prog': None, 'why': '%s: %s' % (type(e).__name__, e)}
    if inp['kind'] == 'mpi':
        return _run_mpi(inp, work)
    n, m, mask = inp['n'], inp['m'], inp['mask']
    ds = {'pos': {'sizes': [n], 'rate': [0], 'labels': ['PX'], 'units': ['a'], 'values': [list(range(n))]},
          'spec': {'sizes': [m], 'rate': [0], 'labels': ['SX'], 'units': ['b'], 'values': [list(range(m))]},
          'dtype': 'f8'}
    base = os.path.join(work, 'base.h5')
    with h5py.File(base, 'w') as f:
        g = f.create_group('G')
        hm = gen.write_usid(g, ds)
        if not inp.get('fresh'):
            procs.make_prior_group(g, 'main', 'RowProc', {'a': 1}, n, mask=None if inp.get('legacy') else mask,
                                   last_pixel=sum(mask) if inp.get('legacy') else None, source=hm)
    RowProc = procs.make_proc_class()
    ranks = []
    for r in range(inp['size']):
        path = os.path.join(work, 'rank%d.h5' % r)
        shutil.copy(base, path)
        log = os.path.join(work, 'log%d.txt' % r)
        os.environ[procs.LOG_ENV] = log
        tr = procs.Tracer()
        with h5py.File(path, 'r+') as f:
            with quiet(), tr.installed():
                pkw = {'lazy': True} if inp.get('lazy') else {}
                if inp.get('verbose'):
                    pkw['verbose'] = True
                p = RowProc(f['G/main'], parms={'a': 1}, cores=1, **pkw)
                p._max_pos_per_read = inp['batches'][r] if inp.get('batches') else inp['batch']
                p.mpi_rank, p.mpi_size = r, inp['size']
                grp = p.compute()
            if 'completed_positions' in grp:
                status = [int(x) for x in grp['completed_positions'][()]]
            else:       # a COMPLETE legacy group is returned as it is
                status = [1] * n if int(grp.attrs.get('last_pixel', -1)) == n else []
            results = [float(x) for x in grp['Results'][()]]
            main = f['G/main'][()]
        marks = [i for i in range(n) if status[i] == 1 and mask[i] == 0]
        # positions of the status / results datasets this rank WROTE to (whatever value it wrote)
        touched = {'completed_positions': set(), 'Results': set()}
        for ev in tr.events:
            if ev.get('e') == 'write':
                nm = ev['dset'].split('/')[-1]
                if nm in touched:
                    touched[nm].update(procs.expand_key(ev['key'], n))
        ranks.append({'batches': p.batches, 'marks': marks, 'calls': procs.read_log(log, m),
                      'status_written': sorted(touched['completed_positions']),
                      'results_written': sorted(touched['Results']),
                      'results_ok': all(results[i] == procs.map_value(main[i]) for i in marks),
                      'untouched': all(results[i] == -1.0 for i in range(n) if i not in marks)})
        os.remove(path)
    return {'ranks': ranks}


def oracle(inp, obs):
    fails = []
    if inp['kind'] == 'socket':
        names = inp['names']
        want = [min(q for q in range(len(names)) if names[q] == names[r]) for r in range(len(names))]
        if obs.get('masters') != want:
            fails.append('socket-master: ranks sharing a processor name are not grouped under the lowest rank')
        if obs.get('ranks_agree') is False:
            fails.append('socket-master-ranks: the first and the last rank compute different groupings')
        return fails
    if inp['kind'] == 'skeleton':
        return []        # decided by the model: Safe(skeleton) is the hypothesis of theorem ranks_see_initial_status
    if inp['kind'] == 'mpi':
        return _oracle_mpi(inp, obs)
    pend = [i for i, s in enumerate(inp['mask']) if s == 0]
    allmarks = [p for r in obs['ranks'] for p in r['marks']]
    if sorted(allmarks) != pend:
        fails.append('partition: union of the ranks\' marks %s is not the pending set %s (gap or overlap)'
                     % (sorted(allmarks), pend))
    if [p for r in obs['ranks'] for b in r['batches'] for p in b] != pend:
        fails.append('partition-order: ranks\' batches concatenated in rank order are not the pending list')
    for i, r in enumerate(obs['ranks']):
        flat = [p for b in r['batches'] for p in b]
        if flat != r['marks']:
            fails.append('own-range: rank %d processed %s but marked %s' % (i, flat, r['marks']))
        if sorted(r['calls']) != sorted(flat):
            fails.append('own-range-calls: rank %d map-function calls differ from its range' % i)
        lim = inp['batches'][i] if inp.get('batches') else inp['batch']
        if any(len(b) > lim for b in r['batches']):
            fails.append('batch-limit: rank %d has a batch larger than %d' % (i, lim))
        if not r['results_ok'] or not r['untouched']:
            fails.append('results: rank %d wrote a wrong result or touched a position outside its range' % i)
        # a rank must WRITE (status and results) only inside its own range: other ranks write there concurrently
        for key, what in (('status_written', 'status'), ('results_written', 'result')):
            # (in a legacy group every rank restates the old progress [0, last_pixel) in the status dataset it builds)
            outside = [q for q in r.get(key, []) if q not in flat and
                       not (inp.get('legacy') and key == 'status_written' and inp['mask'][q] == 1)]
            if outside:
                fails.append('own-range-writes: rank %d wrote %s entries of positions outside its range (%s ...)'
                             % (i, what, outside[:6]))
    return fails


def nontrivial(inp, obs):
    if inp['kind'] == 'skeleton':
        return True
    if inp['kind'] == 'socket':
        return len(set(inp['names'])) < len(inp['names'])
    return inp['size'] > 1 and 0 in inp['mask']


def model_requests(inp):
    if inp['kind'] == 'skeleton':
        try:
            prog = extract_skeleton()
        except Exception:      # noqa
            prog = ['unreadable']
        return [{'op': 'sync.safe', 'prog': prog}]
    if inp['kind'] == 'socket':
        return [{'op': 'proc.socket', 'names': inp['names']}]
    pend = sum(1 for s in inp['mask'] if s == 0)
    reqs = [{'op': 'proc.ranks', 'status': inp['mask'], 'size': inp['size'], 'batch': inp['batch']}]
    if inp.get('batches'):
        reqs[0]['batches'] = inp['batches']
    for r in range(inp['size']):
        reqs.append({'op': 'gen.assign', 'jobs': pend, 'rank': r, 'size': inp['size'],
                     'batch': inp['batches'][r] if inp.get('batches') else inp['batch']})
    return reqs


def model_obs(inp, resp):
    if inp['kind'] == 'skeleton':
        return {'safe': resp[0]}
    if inp['kind'] == 'socket':
        return {'masters': resp[0]}
    ranks = resp[0]['ranks']
    # the GENERATED kernel must give the same ranges as the hand model evaluated by the driver
    gen_ranges = [[r['ok'][0], r['ok'][1]] if 'ok' in r else r for r in resp[1:]]
    return {'batches': [r['batches'] for r in ranks], 'ranges': [[r['start'], r['end']] for r in ranks],
            'gen_ranges': gen_ranges}


def project(inp, obs):
    if inp['kind'] == 'skeleton':
        return {'safe': True}          # the hypothesis of ranks_see_initial_status must hold of the current source
    if inp['kind'] == 'socket':
        return {k: v for k, v in obs.items() if k != 'ranks_agree'}
    if 'ranks' not in obs:
        return {'err': True}
    pend = [i for i, s in enumerate(inp['mask']) if s == 0]
    ranges = []
    start = 0
    for r in obs['ranks']:
        k = sum(len(b) for b in r['batches'])
        # a rank's range, re-derived from what it actually processed
        if k and r['batches'][0][0] in pend:
            start = pend.index(r['batches'][0][0])
        ranges.append([start, start + k])
        start += k
    return {'batches': [r['batches'] for r in obs['ranks']], 'ranges': ranges, 'gen_ranges': ranges}


def distribution(cases, obs):
    d = {'socket': 0, 'ranks': 0, 'mpi': 0, 'skeleton': 0, 'jobs_lt_ranks': 0, 'noncontiguous': 0, 'all_done': 0}
    for c in cases:
        d[c['kind']] += 1
        if c['kind'] == 'ranks':
            pend = [i for i, s in enumerate(c['mask']) if s == 0]
            d['jobs_lt_ranks'] += len(pend) < c['size']
            d['all_done'] += not pend
            d['noncontiguous'] += bool(pend) and pend != list(range(pend[0], pend[-1] + 1))
    return d
