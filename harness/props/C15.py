"""C15 — batch sizing honours the memory/core budget and compute() always terminates."""
import os
import signal
from fractions import Fraction
import numpy as np
import h5py
import gen
import procs
from core import derived_rng, err_of
from util import quiet, call

USES_TRANSLATOR = True
DRIVER = 'MainGen.lean'
OWN_ALARM = True          # the termination cases set their own alarm
REQUIRED_THEOREMS = ['Usid.C15.budget', 'Usid.C15.monotone', 'Usid.C15.cores_bounds', 'Usid.C15.recommend_bounds',
                     'Usid.C15.recommend_le_request', 'Usid.C15.recommend_total',
                     'Usid.C15.recommend_zero_request_raises', 'Usid.C15.recommend_zero_jobs_raises',
                     'Usid.C15.zero_budget_errors', 'Usid.C15.terminates_all_done', 'Usid.C15.admits_one_row',
                     'Usid.C15.generated_set_memory_eq_hand', 'Usid.C15.generated_budget', 'Usid.C15.generated_monotone',
                     'Usid.C15.generated_admits_one_row', 'Usid.C15.sizing_then_compute',
                     'Usid.C15.set_memory_small_multiplier_raises', 'Usid.C15.set_memory_sign_irrelevant',
                     'Usid.C15.set_memory_zero_workers_raises', 'Usid.C15.set_memory_zero_row_raises']
RULE = ('[also: budgets that admit 2^32 rows and more] [also: min_free_cores (valid, boundary and invalid values); the batch size must be >= 1 whenever the budget admits a row] simulated machines (psutil/multiprocessing patched in the harness): sizing cases (logical cores, available '
        'bytes, max_mem_mb, dyadic multiplier k/8, cores argument, row bytes) each paired with a larger budget; '
        'recommender grid cases; real compute() runs under a SIGALRM watchdog for zero/one/few-row budgets; '
        'non-trivial = budget binds (maxpos < N) or request clipped or zero-row budget')
TRUSTED = ['py2lean translator grammar/attribute table',
           'IEEE rounding in __set_memory is not modelled: the model uses the exact rational value of the float '
           'multiplier; generated multipliers are dyadic k/8 and budgets < 2^50 so float floor == exact floor']
ASSUMPTIONS = ['serial (non-MPI) branch of __set_cores; ranks_on_socket = 1']


def generate(seed, tier):
    n_cases = {'quick': 240, 'thorough': 3000, 'search': 1500}[tier]
    cases = []
    for i in range(n_cases):
        rng = derived_rng(seed, 'C15', i)
        k = i % 6
        logical = rng.choice([1, 2, 3, 4, 5, 8, 16, 64])
        if k in (0, 1):
            nj = rng.choice([rng.randint(1, 200), rng.randint(1, 200), rng.randint(1000, 10 ** 6), 0, -3])
            req = rng.choice([None, None, rng.randint(-2 * logical, 2 * logical), rng.randint(1, logical)])
            cases.append({'kind': 'recommend', 'logical': logical, 'num_jobs': nj, 'requested': req,
                          'lengthy': rng.random() < 0.4,
                          'min_free': rng.choice([None, None, None, 0, 1, logical - 1, logical, -1, rng.randint(0, 2 * logical)])})
        elif k in (2, 3, 4):
            m = rng.randint(1, 6)
            dtype = rng.choice(['f4', 'f8', 'c16'])
            rowb = {'f4': 4, 'f8': 8, 'c16': 16}[dtype] * m
            avail = rng.choice([rng.randint(1, 4 * rowb * 16), rng.randint(64, 10 ** 5), rng.randint(10 ** 6, 2 ** 38)])
            mb = rng.choice([None, rng.randint(1, 4), rng.randint(1, 2 ** 18), -rng.randint(1, 64)])
            c = {'kind': 'sizing', 'logical': logical, 'avail': avail, 'mb': mb, 'mult8': rng.randint(8, 64),
                 'cores': rng.choice([None, None, rng.randint(-2 * logical, 2 * logical), rng.randint(1, logical), 0]),
                 'n': rng.randint(1, 6), 'm': m, 'dtype': dtype,
                 'avail2': avail + rng.choice([0, 1, rowb, rng.randint(0, 10 ** 6)]),
                 'mb2': None if mb is None else abs(mb) + rng.choice([0, 1, 100])}
            cases.append(c)
        else:
            m = rng.randint(1, 4)
            n = rng.randint(1, 9)
            rows = rng.choice([0, 0, 1, 1, 2, n, n + 3])          # rows the budget admits
            cases.append({'kind': 'run', 'logical': logical, 'n': n, 'm': m, 'rows': rows,
                          'cores': rng.choice([None, 1, 2])})
    # budgets that admit 2^32 rows and more (tiny rows, tens of GB): nothing may be counted in 32 bits
    for j in range({'quick': 4, 'thorough': 24, 'search': 12}[tier]):
        rng = derived_rng(seed, 'C15big', j)
        k = rng.choice([1, 2, 3, 5])
        avail = k * 2 ** 34 + rng.choice([0, 0, 4, 2 ** 20])
        cases.append({'kind': 'sizing', 'logical': rng.choice([1, 2, 4]), 'avail': avail, 'mb': None, 'mult8': 8,
                      'cores': 1, 'n': rng.randint(1, 4), 'm': 1, 'dtype': 'f4',
                      'avail2': avail + rng.choice([4, 2 ** 30, 2 ** 34]), 'mb2': None})
    # resumed runs whose completed set has holes (what an interrupted multi-rank job leaves): the rows actually READ
    # from the source per batch are observed, not only the batch bookkeeping
    for j in range({'quick': 8, 'thorough': 48, 'search': 24}[tier]):
        rng = derived_rng(seed, 'C15holes', j)
        n = rng.randint(6, 14)
        done = sorted(rng.sample(range(n), rng.randint(1, n - 2)))
        if rng.random() < 0.5:      # a block of finished positions in the middle
            a = rng.randint(1, n - 3)
            done = list(range(a, rng.randint(a + 1, n - 1)))
        cases.append({'kind': 'run', 'logical': rng.choice([1, 2, 4, 8]), 'n': n, 'm': rng.randint(1, 4),
                      'rows': rng.choice([1, 2, 2, 3, n]), 'cores': rng.choice([None, 1, 2]), 'done': done})
    # multipliers of either sign and of absolute value below 1 (refused), limits of either sign: the generated
    # `__set_memory` takes the absolute values itself
    for j in range({'quick': 6, 'thorough': 40, 'search': 16}[tier]):
        rng = derived_rng(seed, 'C15mult', j)
        m = rng.randint(1, 4)
        avail = rng.choice([rng.randint(1, 4096), rng.randint(10 ** 6, 2 ** 36)])
        mb = rng.choice([None, rng.randint(1, 64), -rng.randint(1, 64), 0])
        logical = rng.choice([1, 2, 4, 8])
        cases.append({'kind': 'sizing', 'logical': logical, 'avail': avail, 'mb': mb,
                      'mult8': rng.choice([-rng.randint(8, 64), -rng.randint(1, 7), rng.randint(0, 7), 8, -8, 0]),
                      'cores': rng.choice([None, 1, rng.randint(1, logical)]), 'n': rng.randint(1, 4), 'm': m,
                      'dtype': rng.choice(['f4', 'f8']), 'avail2': avail + rng.choice([0, 8, 10 ** 6]),
                      'mb2': None if mb is None else -abs(mb) - rng.choice([0, 1])})
    return cases


class _VM(object):
    def __init__(self, avail):
        self.available = avail


class Machine(object):
    def __init__(self, logical, avail):
        self.logical, self.avail = logical, avail

    def __enter__(self):
        import psutil
        from pyUSID.processing import comp_utils, process
        self.saved = (psutil.cpu_count, comp_utils.cpu_count, comp_utils.vm, process.cpu_count)
        lg, av = self.logical, self.avail
        psutil.cpu_count = lambda *a, **k: lg
        comp_utils.cpu_count = lambda: lg
        process.cpu_count = lambda: lg
        comp_utils.vm = lambda: _VM(av)
        return self

    def __exit__(self, *a):
        import psutil
        from pyUSID.processing import comp_utils, process
        psutil.cpu_count, comp_utils.cpu_count, comp_utils.vm, process.cpu_count = self.saved


class Timeout(Exception):
    pass


def _alarm(signum, frame):
    raise Timeout()


def _mkfile(work, n, m, dtype='f8', done=None):
    ds = {'pos': {'sizes': [n], 'rate': [0], 'labels': ['PX'], 'units': ['a'], 'values': [list(range(n))]},
          'spec': {'sizes': [m], 'rate': [0], 'labels': ['SX'], 'units': ['b'], 'values': [list(range(m))]},
          'dtype': dtype}
    path = os.path.join(work, 'f.h5')
    with h5py.File(path, 'w') as f:
        g = f.create_group('G')
        hm = gen.write_usid(g, ds)
        if done:
            procs.make_prior_group(g, 'main', 'RowProc', {'a': 1}, n, mask=[1 if i in done else 0 for i in range(n)],
                                   results=[-100.0 - i if i in done else -1.0 for i in range(n)], source=hm)
    return path


def _sizing(path, logical, avail, mb, mult, cores):
    RowProc = procs.make_proc_class()
    with Machine(logical, avail):
        with h5py.File(path, 'r+') as f:
            def mk():
                return RowProc(f['G/main'], parms={'a': 1}, cores=cores, max_mem_mb=mb, mem_multiplier=mult)
            r = call(mk)
            if r[0] == 'err':
                return {'err': r[1]}
            return {'cores': int(r[1]._cores), 'maxpos': int(r[1]._max_pos_per_read)}


def run_impl(inp, work):
    if inp['kind'] == 'recommend':
        from pyUSID.processing import comp_utils
        with Machine(inp['logical'], 10 ** 9):
            kw = {'min_free_cores': inp['min_free']} if inp.get('min_free') is not None else {}
            r = call(comp_utils.recommend_cpu_cores, inp['num_jobs'], requested_cores=inp['requested'],
                     lengthy_computation=inp['lengthy'], **kw)
        return {'ok': int(r[1])} if r[0] == 'ok' else {'err': r[1]}
    if inp['kind'] == 'sizing':
        path = _mkfile(work, inp['n'], inp['m'], inp['dtype'])
        mult = inp['mult8'] / 8.0
        a = _sizing(path, inp['logical'], inp['avail'], inp['mb'], mult, inp['cores'])
        b = _sizing(path, inp['logical'], inp['avail2'], inp['mb2'], mult, inp['cores'])
        return {'a': a, 'b': b}
    # run: real compute() with a budget admitting exactly `rows` rows per worker
    n, m, rows = inp['n'], inp['m'], inp['rows']
    path = _mkfile(work, n, m, done=inp.get('done'))
    RowProc = procs.make_proc_class()
    log = os.path.join(work, 'log.txt')
    os.environ[procs.LOG_ENV] = log
    out = {}
    with Machine(inp['logical'], 10 ** 9):
        with h5py.File(path, 'r+') as f:
            with quiet():
                p = RowProc(f['G/main'], parms={'a': 1}, cores=inp['cores'])
            # express the budget directly: avail = rows * rowBytes * workers (+ a little slack below one row)
            workers = p._cores
            avail = _run_avail(inp, workers)
            with Machine(inp['logical'], avail):
                with quiet():
                    p2 = RowProc(f['G/main'], parms={'a': 1}, cores=inp['cores'])
            out['maxpos'] = int(p2._max_pos_per_read)
            out['workers'] = int(p2._cores)
            old = signal.signal(signal.SIGALRM, _alarm)
            # (repeating: an alarm that goes off inside a callback whose exceptions are swallowed - a weak-reference
            #  finaliser, __del__ - must come again)
            signal.setitimer(signal.ITIMER_REAL, 20, 2)
            rows_read = []
            orig_getitem = h5py.Dataset.__getitem__

            def traced(self_, key, *a, **k):
                r = orig_getitem(self_, key, *a, **k)
                try:
                    if self_.name == '/G/main' and getattr(r, 'ndim', 0) == 2:
                        rows_read.append(int(r.shape[0]))
                except Exception:      # noqa
                    pass
                return r
            h5py.Dataset.__getitem__ = traced
            try:
                with quiet():
                    grp = p2.compute()
                out['result'] = 'ok'
            except Timeout:
                out['result'] = 'timeout'
                grp = p2.h5_results_grp
            except Exception as e:     # noqa
                out['result'] = 'err'
                out['err'] = err_of(e)
                grp = p2.h5_results_grp
            finally:
                h5py.Dataset.__getitem__ = orig_getitem
                signal.setitimer(signal.ITIMER_REAL, 0)
                signal.signal(signal.SIGALRM, old)
            if grp is not None and 'completed_positions' in grp:
                out['status'] = [int(x) for x in grp['completed_positions'][()]]
            else:
                out['status'] = None
            out['batches'] = p2.batches
            out['rows_read'] = rows_read
    return out


def _granted(avail, mb):
    return avail if mb is None else min(avail, abs(mb) * 1024 ** 2)


def oracle(inp, obs):
    fails = []
    L = inp['logical']
    if inp['kind'] == 'recommend':
        nj, req = inp['num_jobs'], inp['requested']
        mf = inp.get('min_free')
        if mf is not None and not (0 <= mf < L):
            if 'ok' in obs:
                fails.append('min-free-cores: recommend_cpu_cores accepted min_free_cores=%s on %d logical cores' % (mf, L))
            return fails
        if mf is not None and req is None and 'ok' in obs and obs['ok'] > max(1, L - mf):     # (an explicit request is respected)
            fails.append('min-free-cores: %s cores recommended although %s of %d are to stay free' % (obs['ok'], mf, L))
        if 'ok' in obs:
            if not (1 <= obs['ok'] <= L):
                fails.append('cores-bounds: recommend_cpu_cores returned %s outside [1, %d]' % (obs['ok'], L))
            if req is not None and 1 <= req <= L and obs['ok'] > req:
                fails.append('cores-request: recommended %s exceeds the in-range request %s' % (obs['ok'], req))
        elif nj >= 1 and req != 0:
            fails.append('cores-total: recommend_cpu_cores raised %s for a valid request' % obs.get('err'))
        return fails
    if inp['kind'] == 'sizing':
        rowb = {'f4': 4, 'f8': 8, 'c16': 16}[inp['dtype']] * inp['m']
        # the library documents and takes the absolute value of the multiplier; multipliers of absolute value
        # below 1 lie outside the property's quantifier (mem_multiplier >= 1): only the tie with the generated
        # model (which refuses them with ValueError) judges those
        mult = abs(Fraction(inp['mult8'], 8))
        if mult < 1:
            return fails
        for tag, avail, mb in (('a', inp['avail'], inp['mb']), ('b', inp['avail2'], inp['mb2'])):
            o = obs[tag]
            if 'err' in o:
                fails.append('sizing-raises: constructing the process raised %s' % o['err'])
                continue
            if not (1 <= o['cores'] <= L):
                fails.append('cores-bounds: worker count %s outside [1, %d]' % (o['cores'], L))
            if o['maxpos'] < 1 and rowb * mult * o['cores'] <= _granted(avail, mb):
                fails.append('admits-a-row: the granted %d bytes admit one row of %d bytes x %s x %d workers but the batch size is %d'
                             % (_granted(avail, mb), rowb, mult, o['cores'], o['maxpos']))
            if o['maxpos'] * rowb * mult * o['cores'] > _granted(avail, mb):
                fails.append('budget: %d positions x %d bytes x %s x %d workers exceeds granted %d bytes'
                             % (o['maxpos'], rowb, mult, o['cores'], _granted(avail, mb)))
        if 'err' not in obs['a'] and 'err' not in obs['b'] and obs['b']['maxpos'] < obs['a']['maxpos']:
            fails.append('monotone: batch size decreased from %d to %d when the budget grew'
                         % (obs['a']['maxpos'], obs['b']['maxpos']))
        return fails
    # run
    if obs['result'] == 'timeout':
        fails.append('terminate: compute() did not return within the watchdog (rows admitted: %d)' % inp['rows'])
        return fails
    if (obs['maxpos'] >= 1) != (inp['rows'] >= 1):
        fails.append('admits-a-row: the budget admits %d rows per worker but the computed batch size is %d' % (inp['rows'], obs['maxpos']))
    if obs['maxpos'] >= 1 or inp['rows'] >= 1:
        if obs['result'] != 'ok' or obs['status'] != [1] * inp['n']:
            fails.append('terminate-done: budget admits a row but compute() ended %s with status %s'
                         % (obs['result'], obs['status']))
        if any(len(b) > obs['maxpos'] for b in obs['batches']):
            fails.append('batch-limit: a batch exceeds the computed limit %d' % obs['maxpos'])
        if any(r > obs['maxpos'] for r in obs.get('rows_read', [])):
            fails.append('read-limit: one read of the source fetched %d rows, beyond the %d rows per batch the budget admits'
                         % (max(obs['rows_read']), obs['maxpos']))
        done = set(inp.get('done') or [])
        if done and sorted(p for b in obs['batches'] for p in b) != [i for i in range(inp['n']) if i not in done]:
            fails.append('resume-batches: the batches %s are not exactly the pending positions (done before: %s)'
                         % (obs['batches'], sorted(done)))
    else:
        if obs['result'] != 'err':
            fails.append('zero-budget: budget admits no row but compute() ended %s' % obs['result'])
        if obs['status'] is not None and any(obs['status']):
            fails.append('zero-budget-marks: positions were marked complete under a zero budget')
    return fails


def nontrivial(inp, obs):
    if inp['kind'] == 'recommend':
        return 'ok' in obs and (inp['requested'] is None or obs['ok'] != inp['requested'])
    if inp['kind'] == 'sizing':
        return 'err' not in obs['a'] and obs['a']['maxpos'] < 10 ** 6
    return True


def _rowb(inp):
    return {'f4': 4, 'f8': 8, 'c16': 16}[inp.get('dtype', 'f8')] * inp['m']


def _run_avail(inp, workers):
    rows = inp['rows']
    return rows * 8 * inp['m'] * workers + (8 * inp['m'] * workers - 1 if rows == 0 else 0) // 2


def model_requests(inp):
    if inp['kind'] == 'recommend':
        return [{'op': 'gen.recommend', 'logical': inp['logical'], 'num_jobs': inp['num_jobs'],
                 'requested': inp['requested'], 'min_free': inp.get('min_free'), 'lengthy': inp['lengthy']}]
    if inp['kind'] == 'sizing':
        out = []
        for avail, mb in ((inp['avail'], inp['mb']), (inp['avail2'], inp['mb2'])):
            out.append({'op': 'gen.sizing', 'logical': inp['logical'], 'cores': inp['cores'], 'avail': avail,
                        'mb': mb, 'rowbytes': _rowb(inp), 'num': inp['mult8'], 'den': 8})
        return out
    # run: the available memory was derived from the worker count, itself a function of (logical, cores):
    # ask the model for every possible worker count and let model_obs pick the consistent one
    return [{'op': 'gen.run', 'logical': inp['logical'], 'cores': inp['cores'], 'avail': _run_avail(inp, w),
             'mb': None, 'rowbytes': 8 * inp['m'], 'num': 8, 'den': 8, 'n': inp['n'] - len(inp.get('done') or [])}
            for w in range(1, inp['logical'] + 1)]


def model_obs(inp, resp):
    if inp['kind'] == 'recommend':
        return resp[0]
    if inp['kind'] == 'sizing':
        return {'a': resp[0], 'b': resp[1]}
    r = [x for w, x in enumerate(resp, 1) if x.get('cores') == w]
    r = r[0] if r else resp[0]
    loop = r.get('loop', {})
    if 'ok' in loop:
        pend = [i for i in range(inp['n']) if i not in set(inp.get('done') or [])]     # the loop runs over the pending list
        return {'maxpos': r['maxpos'], 'workers': r['cores'], 'result': 'ok',
                'batches': [[pend[i] for i in range(a, b)] for a, b in loop['ok']]}
    return {'maxpos': r.get('maxpos'), 'workers': r.get('cores'), 'result': 'err', 'err': loop.get('err'), 'batches': []}


def project(inp, obs):
    if inp['kind'] in ('recommend', 'sizing'):
        return obs
    out = {'maxpos': obs['maxpos'], 'workers': obs['workers'], 'result': obs['result'], 'batches': obs['batches']}
    if obs['result'] == 'err':
        out['err'] = obs['err']
    return out


def distribution(cases, obs):
    d = {'recommend': 0, 'sizing': 0, 'run': 0, 'zero_budget_runs': 0, 'recommend_errors': 0, 'budget_binds': 0}
    for c, o in zip(cases, obs):
        d[c['kind']] += 1
        if c['kind'] == 'run' and o.get('maxpos') == 0:
            d['zero_budget_runs'] += 1
        if c['kind'] == 'recommend' and 'err' in o:
            d['recommend_errors'] += 1
        if c['kind'] == 'sizing' and 'err' not in o['a'] and o['a']['maxpos'] < c['n']:
            d['budget_binds'] += 1
    return d
