"""C16 — stored parameters match a query exactly when every queried value is equal."""
import os
import copy
from fractions import Fraction
import numpy as np
import h5py
from core import derived_rng
from util import call, quiet

NAN = '__nan__'          # float('nan') inside a case (cases are stored as strict JSON)

REQUIRED_THEOREMS = ['Usid.C16.reflexive', 'Usid.C16.none_ignored', 'Usid.C16.absent_key_mismatch', 'Usid.C16.sequence_scalar_mismatch',
                     'Usid.C16.scalar_sensitive', 'Usid.C16.length_sensitive', 'Usid.C16.array_sensitive_partial',
                     'Usid.C16.array_sensitive_counterexample']
RULE = ('[also: entries named like book-keeping attributes (timestamp, platform, machine_id, pyUSID_version)] [also: whole-number sequences stored as 32-bit arrays and queried as python lists] [also: entry names with a leading or trailing blank] [also: NaN values, boolean lists, one value against a list of values and back, same-length / truncated / case-changed strings, values handed over as tuples / numpy arrays / numpy scalars, verbose=True, the File object itself] random dictionaries over int / float / bool / str / None / lists of ints, floats or strings, written with '
        'write_simple_attrs to a group or a dataset, queried with the same dictionary and with every single-entry '
        'perturbation (value +-1, value x(1 +- tol*{0.1,10}), string change, length +-1, type swap, removal from the '
        'stored object, None); non-trivial = at least one list entry or a perturbation that must flip the answer')
TRUSTED = ['sidpy write_simple_attrs / get_attr round trip (outside /repo) is observed, not modelled beyond list -> array',
           'np.allclose is modelled exactly over Q; generated perturbations stay a factor >= 10 away from the tolerance '
           'boundary so that float evaluation cannot disagree']


def gen_scalar(rng, kind):
    if kind == 'int':
        return rng.choice([rng.randint(-20, 20), rng.randint(10 ** 5, 10 ** 7), 0, 1])
    if kind == 'float':
        if rng.random() < 0.06:
            return NAN
        return rng.choice([rng.randint(-40, 40) / 8.0, rng.randint(1, 10 ** 6) / 4.0, 0.1 * rng.randint(1, 50), 2.5e-7])
    if kind == 'bool':
        return rng.random() < 0.5
    return rng.choice(['abc', 'Fit', '', 'x y', 'Fitter', 'a', 'Fit '])


def gen_value(rng):
    k = rng.choice(['int', 'float', 'bool', 'str', 'none', 'ilist', 'flist', 'slist', 'ilist', 'flist', 'blist'])
    if k in ('int', 'float', 'bool', 'str'):
        return gen_scalar(rng, k)
    if k == 'none':
        return None
    n = rng.choice([0, 1, 1, 2, 3, 4]) if k != 'slist' else rng.choice([1, 2, 3])
    return [gen_scalar(rng, {'ilist': 'int', 'flist': 'float', 'slist': 'str', 'blist': 'bool'}[k]) for _ in range(max(n, 1) if k == 'blist' else n)]


def perturbations(rng, d):
    """list of (kind, query dict, stored-key-to-drop or None, key)"""
    out = []
    for key, v in d.items():
        if v is None:
            continue
        def q(newv):
            x = copy.deepcopy(d)
            x[key] = newv
            return x
        out.append(('none', q(None), None, key))
        out.append(('absent', copy.deepcopy(d), key, key))
        if not isinstance(v, list):
            # one value against a sequence of values: a change of "length"
            out.append(('length', q([v]), None, key))
            out.append(('length', q([v, v]), None, key))
        elif len(v) == 1:
            out.append(('length', q(v[0]), None, key))
        if v == NAN:
            out.append(('value', q(0.0), None, key))
        elif isinstance(v, bool):
            out.append(('value', q(not v), None, key))
        elif isinstance(v, int):
            out.append(('value', q(v + rng.choice([-1, 1])), None, key))
            out.append(('type', q(str(v)), None, key))
        elif isinstance(v, float):
            out.append(('value', q(v + rng.choice([-1.0, 1.0])), None, key))
            if v != 0:
                out.append(('value', q(v * (1 + 1e-6)), None, key))
        elif isinstance(v, str):
            out.append(('value', q(v + 'z'), None, key))
            out.append(('value', q(v + ' '), None, key))                                  # a trailing blank
            if v:
                out.append(('value', q(v[:-1]), None, key))                               # truncated
                out.append(('value', q(v[:-1] + ('q' if v[-1] != 'q' else 'r')), None, key))   # same length
                if v.swapcase() != v:
                    out.append(('value', q(v.swapcase()), None, key))
            out.append(('type', q(7), None, key))
        elif isinstance(v, list):
            out.append(('length', q(v + [v[0] if v else 1]), None, key))
            if v:
                out.append(('length', q(v[:-1]), None, key))
                i = rng.randrange(len(v))
                e = v[i]
                w = list(v)
                if e == NAN:
                    w[i] = 1.0
                    out.append(('value', q(w), None, key))
                elif isinstance(e, bool):
                    w[i] = not e
                    out.append(('value', q(w), None, key))
                elif isinstance(e, str):
                    w[i] = e + 'z'
                    out.append(('value', q(w), None, key))
                    w5 = list(v)
                    w5[i] = e + ' '                  # a trailing blank (numpy's string comparisons strip them)
                    out.append(('value', q(w5), None, key))
                    if e:
                        w4 = list(v)
                        w4[i] = e[:-1] + ('q' if e[-1] != 'q' else 'r')
                        out.append(('value', q(w4), None, key))
                elif isinstance(e, int):
                    # numbers queried as text: every element, or a single one (numpy then makes the whole query a
                    # string array) - a mismatch, never an exception
                    out.append(('type', q([str(x) for x in v]), None, key))
                    wt = list(v)
                    wt[i] = 'five'
                    out.append(('type', q([str(x) for x in wt]), None, key))
                    w[i] = e + rng.choice([-1, 1])
                    big = abs(w[i]) >= 10 ** 5 + 10
                    out.append(('value-within-tol' if big else 'value', q(w), None, key))
                else:
                    out.append(('type', q([repr(x) for x in v]), None, key))
                    w[i] = e + 1.0
                    small = abs(w[i]) >= 10 ** 5 + 10
                    out.append(('value-within-tol' if small else 'value', q(w), None, key))
                    if e != 0:
                        w2 = list(v)
                        w2[i] = e * (1 + 1e-6)       # relative change 1e-6 < rtol/10
                        out.append(('value-within-tol', q(w2), None, key))
                        w3 = list(v)
                        w3[i] = e * (1 + 1e-4) + 1e-6     # relative change 10 x rtol
                        out.append(('value', q(w3), None, key))
    return out


def generate(seed, tier):
    n_cases = {'quick': 300, 'thorough': 4000, 'search': 2000}[tier]
    cases = []
    for i in range(n_cases):
        rng = derived_rng(seed, 'C16', i)
        d = {'k%d' % j: gen_value(rng) for j in range(rng.randint(1, 5))}
        # names with a blank in front or behind (the attribute writer and reader strip them; the very dictionary that
        # was written must still match)
        rk = derived_rng(seed, 'C16k', i)
        if rk.random() < 0.25:
            victim = rk.choice(sorted(d))
            d = {((k + ' ' if rk.random() < 0.5 else ' ' + k) if k == victim else k): v for k, v in d.items()}
        elif rk.random() < 0.3:
            # a parameter that happens to be named like one of the library's own book-keeping attributes
            victim = rk.choice(sorted(d))
            newname = rk.choice(['timestamp', 'platform', 'machine_id', 'pyUSID_version'])
            d = {(newname if k == victim else k): v for k, v in d.items()}
        ps = perturbations(rng, d)
        rng.shuffle(ps)
        cases.append({'stored': d, 'queries': [{'kind': k, 'q': q, 'drop': dr, 'key': key} for k, q, dr, key in ps[:8]],
                      'on': rng.choice(['group', 'group', 'dataset', 'file']), 'verbose': rng.random() < 0.2,
                      # containers the values are handed over in: lists / tuples / numpy arrays, python / numpy scalars
                      'containers': rng.choice(['py', 'py', 'numpy', 'tuple', 'mixed'])})
    return cases


def _py(v, containers='py'):
    """a case value as the Python object handed to the library"""
    if v == NAN and isinstance(v, str):
        return float('nan')
    if isinstance(v, list):
        items = [float('nan') if (isinstance(x, str) and x == NAN) else x for x in v]
        if containers == 'numpy' and items:
            return np.array(items)
        if containers == 'numpy32' and items and all(isinstance(x, int) and not isinstance(x, bool) and abs(x) < 2 ** 31 for x in items):
            return np.array(items, dtype=np.int32 if min(items) < 0 else np.uint32)
        if containers == 'tuple':
            return tuple(items)
        return items
    if containers == 'numpy':
        if isinstance(v, bool):
            return np.bool_(v)
        if isinstance(v, int):
            return np.int64(v) if abs(v) > 2 ** 30 else np.int32(v)
        if isinstance(v, float):
            return np.float64(v)
        # (np.str_ is rewritten by sidpy's writer as a one-element array - outside /repo - and is not generated)
    return v


def _pyd(d, containers='py'):
    return {k: _py(v, containers) for k, v in d.items()}


def _dump(obj):
    out = {}
    for k in sorted(obj.attrs.keys()):
        v = obj.attrs[k]
        out[k] = [str(np.asarray(v).dtype), str(np.asarray(v).tolist()) if np.asarray(v).dtype.kind != 'S' else
                  [x.decode() for x in np.atleast_1d(v)]]
    return out


def run_impl(inp, work):
    from pyUSID.io.hdf_utils import check_for_matching_attrs
    from sidpy.hdf.hdf_utils import write_simple_attrs
    path = os.path.join(work, 'a.h5')
    res = []
    with h5py.File(path, 'w') as f:
        cont = inp.get('containers', 'py')
        vkw = {'verbose': True} if inp.get('verbose') else {}

        def mk(name, d):
            if inp['on'] == 'file' and name == 'base':
                o = f
            else:
                o = f.create_dataset(name, data=np.zeros(2)) if inp['on'] == 'dataset' else f.create_group(name)
            # ('mixed': whole-number sequences are STORED as 32-bit arrays and QUERIED as python lists)
            write_simple_attrs(o, _pyd(d, 'numpy32' if cont == 'mixed' else cont))
            return o

        def cmp(o, q):
            with quiet():
                return call(check_for_matching_attrs, o, new_parms=_pyd(q, 'py' if cont == 'mixed' else cont), **vkw)
        o = mk('base', inp['stored'])
        before = _dump(o)
        r = cmp(o, inp['stored'])
        res.append({'kind': 'same', 'out': bool(r[1]) if r[0] == 'ok' else {'err': r[1]}})
        for j, qd in enumerate(inp['queries']):
            if qd['drop'] is not None:
                d2 = {k: v for k, v in inp['stored'].items() if k != qd['drop']}
                o2 = mk('drop%d' % j, d2)
                r = cmp(o2, qd['q'])
            else:
                r = cmp(o, qd['q'])
            res.append({'kind': qd['kind'], 'out': bool(r[1]) if r[0] == 'ok' else {'err': r[1]}})
        after = _dump(o)
    return {'results': res, 'unchanged': before == after}


def oracle(inp, obs):
    fails = []
    if not obs['unchanged']:
        fails.append('pure: the comparison modified the object\'s attributes')
    for r, qd in zip(obs['results'], [{'kind': 'same'}] + inp['queries']):
        o = r['out']
        if isinstance(o, dict):
            fails.append('total: comparison raised %s for a %s query' % (o['err'], r['kind']))
            continue
        if r['kind'] in ('same', 'none') and o is not True:
            fails.append('reflexive-%s: comparing with the written dictionary (%s) reported a mismatch' % (r['kind'], r['kind']))
        if r['kind'] in ('value', 'length', 'absent', 'type') and o is not False:
            fails.append('sensitive-%s: a %s perturbation of entry %s was reported as a match: %s'
                         % (r['kind'], r['kind'], qd.get('key'), _short(qd)))
        if r['kind'] == 'value-within-tol' and o is not False:
            fails.append('sensitive-array-tolerance: a changed array element was reported as a match: %s' % _short(qd))
    return fails


def _short(qd):
    return str({qd['key']: qd['q'].get(qd['key'])}) if 'q' in qd else ''


def nontrivial(inp, obs):
    return any(isinstance(v, list) for v in inp['stored'].values()) or len(inp['queries']) > 1


def _enc_scalar(v):
    if isinstance(v, str) and v == NAN:
        return {'t': 'nan'}
    if isinstance(v, bool):
        return {'t': 'bool', 'b': v}
    if isinstance(v, int):
        return {'t': 'int', 'n': v}
    if isinstance(v, float):
        fr = Fraction(v)
        return {'t': 'num', 'n': fr.numerator, 'd': fr.denominator}
    return {'t': 'str', 's': v}


def _enc_val(v):
    if v is None:
        return {'t': 'none'}
    if isinstance(v, list):
        return {'t': 'list', 'l': [_enc_scalar(x) for x in v]}
    return _enc_scalar(v)


def _enc_dict(d):
    return [{'k': k, 'v': _enc_val(v)} for k, v in d.items()]


def model_requests(inp):
    reqs = [{'op': 'attrs.match', 'stored': _enc_dict(inp['stored']), 'queries': [_enc_dict(inp['stored'])]}]
    for qd in inp['queries']:
        st = {k: v for k, v in inp['stored'].items() if k != qd['drop']}
        reqs.append({'op': 'attrs.match', 'stored': _enc_dict(st), 'queries': [_enc_dict(qd['q'])]})
    return reqs


def model_obs(inp, resp):
    return [r[0] for r in resp]


def project(inp, obs):
    return [r['out'] for r in obs['results']]


def _float_array_case(inp, obs, failure):
    if not failure.startswith('sensitive-array-tolerance'):
        return False
    # every within-tolerance match in this case must concern a list holding a float
    bad = [qd for qd, r in zip(inp['queries'], obs['results'][1:])
           if qd['kind'] == 'value-within-tol' and r['out'] is True]
    return bool(bad) and all(any(isinstance(x, float) for x in qd['q'][qd['key']]) for qd in bad)


KNOWN_CLASSES = {
    # D10 (float part): np.allclose on float-array parameters accepts changes inside the tolerance
    'float_array_within_tolerance': _float_array_case,
}


def distribution(cases, obs):
    d = {}
    for c, o in zip(cases, obs):
        for r in o['results']:
            key = '%s:%s' % (r['kind'], r['out'] if not isinstance(r['out'], dict) else 'err')
            d[key] = d.get(key, 0) + 1
    return d
