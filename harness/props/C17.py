"""C17 — CSV export reproduces every element with its position and spectroscopic values."""
import os
import copy
import csv
import numpy as np
import h5py
import gen
from core import derived_rng
from util import call, quiet

REQUIRED_THEOREMS = ['Usid.C17.split_join', 'Usid.C17.layout', 'Usid.C17.no_overwrite', 'Usid.C17.oversize_skipped',
                     'Usid.C17.no_temp_left']
RULE = ('[also: a second export from the same dataset object] [also: reference values stored as integers that end in zeros when printed] [also: double-precision values that need all 17 significant digits, compared bit for bit after parsing] [also: negative and fractional data values, file names with several dots / other extensions, the dataset in the root or three groups deep, float32 datasets around the 15 MiB gate, the tempfile default directory watched] generator datasets of integer-valued real data (int32 / float32 / float64), any dimension counts, sizes and '
        'storage orders; default and explicit output paths (including one named temp.csv), pre-existing output files, '
        'a user file called temp.csv in the working directory, force in {F,T}, oversized (never written) datasets just above 15 MiB, between 15 and 16 MiB, at 16 MiB '
        'and beyond; the file-system model (written / skipped / refused, files afterwards) compared on every case; '
        'each call runs in a fresh working directory; the written file is parsed with Python\'s csv module and compared '
        'cell by cell; non-trivial = P != Q or a pre-existing file is involved')
TRUSTED = ['numeric formatting (numpy savetxt "%.18e", str(np.float32)) is runtime behaviour: numeric cells are compared '
           'after parsing (value * 4 as an integer), never as strings']


OVERSIZE_N = [1966081, 1966100, 2000000, 2031616, 2097151, 2097152, 2200000]


def generate(seed, tier):
    n_cases = {'quick': 150, 'thorough': 1500, 'search': 800}[tier]
    cases = []
    for i in range(n_cases):
        rng = derived_rng(seed, 'C17', i)
        while True:
            ds = gen.gen_dataset(rng, max_dims=3, max_size=4, dtypes=('f8', 'f4', 'i4'), long_prob=0.1)
            if gen.n_points(ds['pos']) * gen.n_points(ds['spec']) <= 300:
                break
        case = {'ds': ds, 'path': rng.choice(['default', 'default', 'explicit', 'explicit', 'temp.csv', 'sub/out.csv']),
                'preexisting': rng.random() < 0.3, 'user_temp': rng.random() < 0.25,
                'force': rng.random() < 0.4, 'oversize': i % 12 == 11,
                'view': rng.choice(['file', 'file', 'sorted', 'toggled'])}
        # where the file and the dataset live (the default output name is derived from both); data values that
        # are negative / fractional (quarters)
        case['layout'] = rng.choice([['file.h5', 'G'], ['file.h5', 'G'], ['run.2024.h5', 'G'], ['file.h5', ''],
                                     ['file.h5', 'A/B/C'], ['data.hdf5', 'G']])
        case['shift'] = rng.choice([0, 0, rng.randint(1, 200)])
        case['quarters'] = ds['dtype'] in ('f8', 'f4') and rng.random() < 0.4
        # values that need all 17 significant digits of a double (compared bit for bit after parsing)
        case['fullprec'] = ds['dtype'] in ('f8', 'f4') and not case['quarters'] and rng.random() < 0.4
        if case['oversize']:
            case['oversize_dtype'] = rng.choice(['f8', 'f8', 'f4'])
            # float64 elements: 15 MiB = 1966080 of them; just above the limit, between 15 and 16 MiB, at 16 MiB, beyond
            case['oversize_n'] = rng.choice(OVERSIZE_N)
            if case['oversize_dtype'] == 'f4':
                case['oversize_n'] = rng.choice([3932161, 3932200, 4000000, 4194304])     # 15 MiB of float32 = 3932160
            if case['oversize_n'] != 2200000 or rng.random() < 0.6:
                case['force'] = False          # a forced export of such a dataset writes ~90 MB: only a few of them
        # reference values stored as INTEGERS, whole multiples of five (0, 10, 100 ... end in a zero when printed)
        if not case['oversize'] and derived_rng(seed, 'C17i', i).random() < 0.3:
            ds2 = copy.deepcopy(ds)
            for side in ('pos', 'spec'):
                ds2[side]['values'] = [[20 * v for v in vals] for vals in ds2[side]['values']]
            ds2['val_dtype'] = 'i4'
            case['ds'] = ds2
        cases.append(case)
    return cases


def run_impl(inp, work):
    from pyUSID import USIDataset
    ds = inp['ds']
    data_dir = os.path.join(work, 'data')
    cwd = os.path.join(work, 'cwd')
    os.makedirs(data_dir)
    os.makedirs(os.path.join(cwd, 'sub'))
    fname, gpath = inp.get('layout', ['file.h5', 'G'])
    h5path = os.path.join(data_dir, fname)
    mpath = (gpath + '/main') if gpath else 'main'
    import tempfile
    tmpdir = os.path.join(work, 'tmp')
    os.makedirs(tmpdir)
    with h5py.File(h5path, 'w') as f:
        g = f.create_group(gpath) if gpath else f
        if inp['oversize']:
            big_n = inp.get('oversize_n', 2200000)
            ds = dict(ds, spec={'sizes': [big_n], 'rate': [0], 'labels': ['SX'], 'units': ['u'], 'values': [[]]},
                      pos={'sizes': [1], 'rate': [0], 'labels': ['PX'], 'units': ['u'], 'values': [[0]]})
            h5 = g.create_dataset('main', shape=(1, big_n), dtype=(np.float32 if inp.get('oversize_dtype') == 'f4' else np.float64))
            h5.attrs['quantity'] = 'q'
            h5.attrs['units'] = 'u'
            pi, pv = gen.write_anc(g, 'Position', ds['pos'], False)
            si = g.create_dataset('Spectroscopic_Indices', shape=(1, big_n), dtype=np.uint32)
            sv = g.create_dataset('Spectroscopic_Values', shape=(1, big_n), dtype=np.float32)
            for d in (si, sv):
                d.attrs['labels'] = np.array(['SX'], dtype='S')
                d.attrs['units'] = np.array(['u'], dtype='S')
            for k, v in (('Position_Indices', pi), ('Position_Values', pv), ('Spectroscopic_Indices', si), ('Spectroscopic_Values', sv)):
                h5.attrs[k] = v.ref
        else:
            n_, m_ = gen.n_points(ds['pos']), gen.n_points(ds['spec'])
            data = (gen.main_array(n_, m_, ds['dtype']).astype(np.float64) - inp.get('shift', 0)) / (4.0 if inp.get('quarters') else 1.0)
            if inp.get('fullprec'):
                data = data * 0.1 + 1.0 / 3.0
            gen.write_usid(g, ds, data=data.astype({'f8': np.float64, 'f4': np.float32, 'i4': np.int32}[ds['dtype']]))
    os.chdir(cwd)
    default_out = os.path.join(data_dir, fname[:fname.rfind('.')] + '-' + mpath.replace('/', '-') + '.csv')
    out_path = {'default': None, 'explicit': os.path.join(cwd, 'out.csv'), 'temp.csv': 'temp.csv',
                'sub/out.csv': os.path.join('sub', 'out.csv')}[inp['path']]
    target = default_out if out_path is None else os.path.abspath(out_path)
    if inp['path'] == 'temp.csv' and inp['user_temp']:
        inp = dict(inp, preexisting=True, user_temp=False)       # the user's temp.csv IS the requested output
    if inp['preexisting']:
        with open(target, 'w') as fh:
            fh.write('OLD CONTENT')
    if inp['user_temp'] and not (inp['preexisting'] and os.path.abspath('temp.csv') == target):
        with open('temp.csv', 'w') as fh:
            fh.write('USER FILE')

    if inp['user_temp']:
        # the user's own files whose names DERIVE from the requested output's name (an earlier export called
        # temp_<name>, editor / backup files): whatever the export uses as scratch space, these must survive untouched
        tdir, tbase = os.path.dirname(target), os.path.basename(target)
        stem = tbase[:tbase.rfind('.')] if '.' in tbase else tbase
        if os.path.isdir(tdir):
            for nm in ('temp_' + tbase, 'tmp_' + tbase, tbase + '.tmp', tbase + '~', '.' + tbase, stem + '_temp.csv',
                       stem + '.tmp', 'temp_' + stem, stem + '.csv.part'):
                pth = os.path.join(tdir, nm)
                if not os.path.exists(pth) and os.path.abspath(pth) != target:
                    with open(pth, 'w') as fh:
                        fh.write('USER ' + nm[:12])

    def listing():
        out = {}
        for d in (cwd, os.path.join(cwd, 'sub'), data_dir, tmpdir):
            for fn in sorted(os.listdir(d)):
                p = os.path.join(d, fn)
                if os.path.isfile(p) and not fn.endswith('.h5') and fn != fname:
                    out[os.path.relpath(p, work)] = open(p).read()[:20]
        return out
    before = listing()
    with h5py.File(h5path, 'r') as f:
        nbytes = int(f[mpath].dtype.itemsize) * int(np.prod(f[mpath].shape))
        u = USIDataset(f[mpath], sort_dims=(inp.get('view') == 'sorted'))
        if inp.get('view') == 'toggled':
            u.toggle_sorting()
        tempfile.tempdir = tmpdir          # scratch files made in the tempfile module's default directory are watched too
        pos_desc = [str(x) for x in u.pos_dim_descriptors]
        spec_desc = [str(x) for x in u.spec_dim_descriptors]
        try:
            r = call(u.to_csv, output_path=out_path, force=inp['force'])
        finally:
            tempfile.tempdir = None
        desc_after = [[str(x) for x in u.pos_dim_descriptors], [str(x) for x in u.spec_dim_descriptors]]
        after = listing()
        # the same object exports once more (to another path): the export must not depend on what it exported before
        second = None
        if r[0] == 'ok' and r[1] is not None and not inp['oversize']:
            p2 = os.path.join(work, 'second_export.csv')
            r2 = call(u.to_csv, output_path=p2, force=True)
            if r2[0] == 'ok' and r2[1] is not None and os.path.isfile(p2):
                with open(p2, newline='') as fh:
                    second = [row for row in csv.reader(fh)]
            else:
                second = {'err': str(r2[1])[:200]}
    res = {'bytes': nbytes, 'force': inp['force'], 'preexisting': inp['preexisting'], 'before': before, 'after': after, 'target': os.path.relpath(target, work), 'pos_desc': pos_desc, 'spec_desc': spec_desc,
           'desc_unchanged': desc_after == [pos_desc, spec_desc], 'second': second}
    if r[0] == 'err':
        res['outcome'] = {'err': r[1], 'cls': r[2]}
    elif r[1] is None:
        res['outcome'] = 'skipped'
    else:
        ret = os.path.abspath(r[1])
        res['outcome'] = {'wrote': os.path.relpath(ret, work), 'exists': os.path.isfile(ret)}
        if os.path.isfile(ret) and not inp['oversize']:
            with open(ret, newline='') as fh:
                res['table'] = [row for row in csv.reader(fh)]
    return res


def _expected_table(inp, obs):
    """canonical table: descriptors as text, numeric cells as integers (quarters for coordinates, tokens for data)"""
    ds = inp['ds']
    pos, spec = ds['pos'], ds['spec']
    n, m = gen.n_points(pos), gen.n_points(spec)
    P, Q = len(pos['sizes']), len(spec['sizes'])
    pv = (np.asarray(gen.value_matrix(pos), dtype=np.float64) * 4).round().astype(int)
    sv = (np.asarray(gen.value_matrix(spec), dtype=np.float64) * 4).round().astype(int)
    rows = []
    # the descriptors the wrapper reports (file order: they are paired with the rows / columns of the ancillary
    # VALUE datasets); a list of the wrong length can never give the expected table
    spec_desc = (list(obs['spec_desc']) + ['<missing descriptor>'] * Q)[:Q]
    pos_desc = (list(obs['pos_desc']) + ['<missing descriptor>'] * P)[:P]
    # independent of the wrapper: descriptor = "<label> (<unit>)" of the dimension stored in that row / column
    want_spec = ['%s (%s)' % (l, u) for l, u in zip(spec['labels'], spec['units'])]
    want_pos = ['%s (%s)' % (l, u) for l, u in zip(pos['labels'], pos['units'])]
    if spec_desc != want_spec or pos_desc != want_pos:
        spec_desc, pos_desc = want_spec, want_pos
    for q in range(Q):
        rows.append([''] * (P - 1) + [spec_desc[q]] + [str(int(sv[c, q])) for c in range(m)])
    rows.append(list(pos_desc) + ['DASH'] * m)
    for r in range(n):
        k = 1 if inp.get('quarters') else 4           # data cells are compared as quarters
        if inp.get('fullprec'):
            def val(c):
                v = float(r * m + c - inp.get('shift', 0)) * 0.1 + 1.0 / 3.0
                return float(np.float32(v)).hex() if ds['dtype'] == 'f4' else v.hex()
            rows.append([str(int(pv[r, p])) for p in range(P)] + [val(c) for c in range(m)])
            continue
        rows.append([str(int(pv[r, p])) for p in range(P)] + [str((r * m + c - inp.get('shift', 0)) * k) for c in range(m)])
    return rows


def _canon_table(inp, obs):
    ds = inp['ds']
    P, Q = len(ds['pos']['sizes']), len(ds['spec']['sizes'])
    out = []
    for i, row in enumerate(obs['table']):
        new = []
        for j, cell in enumerate(row):
            if cell.startswith('-----'):
                new.append('DASH')
            elif (i < Q and j >= P) or (i > Q and j < P):
                try:
                    new.append(str(int(round(float(cell) * 4))))
                except ValueError:
                    new.append('?' + cell)
            elif i > Q and j >= P and inp.get('fullprec'):
                try:
                    new.append(float(cell).hex())
                except ValueError:
                    new.append('?' + cell)
            elif i > Q and j >= P:
                try:
                    v4 = float(cell) * 4
                    new.append(str(int(round(v4))) if abs(v4 - round(v4)) < 1e-6 else '?inexact ' + cell)
                except ValueError:
                    new.append('?' + cell)
            else:
                new.append(cell)
        out.append(new)
    return out


def oracle(inp, obs):
    fails = []
    before, after, target = obs['before'], obs['after'], obs['target']
    o = obs['outcome']
    user_temp = os.path.join('cwd', 'temp.csv')
    if inp['oversize'] and not inp['force']:
        if o != 'skipped' or before != after:
            fails.append('oversize: an oversized dataset was not skipped cleanly (%s)' % (o,))
        return fails
    if inp['oversize']:
        return fails
    if obs['preexisting'] and not inp['force']:
        if not (isinstance(o, dict) and o.get('cls') == 'FileExistsError'):
            fails.append('overwrite: existing output was not refused with FileExistsError (%s)' % (o,))
        if before != after:
            fails.append('overwrite-changed: a refused export changed files: %s -> %s' % (sorted(before), sorted(after)))
        return fails
    if not isinstance(o, dict) or 'wrote' not in o:
        fails.append('raises: to_csv raised / returned nothing for a valid request: %s' % (o,))
        return fails
    if obs.get('desc_unchanged') is False:
        fails.append('object-state: the dimension descriptors of the dataset object changed during the export')
    if obs.get('second') is not None and 'table' in obs and obs['second'] != obs['table']:
        fails.append('second-export: the same object exported a different table the second time (%s)'
                     % (obs['second'] if isinstance(obs['second'], dict) else 'first differing row: %s'
                        % next((i for i, (a, b) in enumerate(zip(obs['second'], obs['table'])) if a != b), 'length')))
    where = 'output named temp.csv' if inp['path'] == 'temp.csv' else 'other path'
    if o['wrote'] != target or not o['exists']:
        fails.append('returned-path (%s): the returned path %s does not name an existing file (target %s)'
                     % (where, o['wrote'], target))
    else:
        if _canon_table(inp, obs) != _expected_table(inp, obs):
            fails.append('layout: the parsed CSV table differs from the expected layout (P=%d, Q=%d)'
                         % (len(inp['ds']['pos']['sizes']), len(inp['ds']['spec']['sizes'])))
    want_after = dict(before)
    want_after[target] = after.get(target, '')
    if sorted(after) != sorted(want_after):
        extra = sorted(set(after) - set(want_after))
        missing = sorted(set(want_after) - set(after))
        if extra:
            fails.append('temp-left: files left behind: %s' % extra)
        if missing:
            fails.append('file-destroyed (%s): files that existed before the export are gone: %s'
                         % ('user temp.csv' if user_temp in missing else 'other', missing))
    else:
        changed = [k for k in before if k != target and before[k] != after[k]]
        if changed:
            fails.append('file-clobbered: other files were modified: %s' % changed)
    return fails


def nontrivial(inp, obs):
    ds = inp['ds']
    return len(ds['pos']['sizes']) != len(ds['spec']['sizes']) or inp['preexisting'] or inp['user_temp']


def model_requests_obs(inp, obs):
    # the file-system model: which files exist afterwards, and whether the call wrote, skipped or refused
    fs = {'op': 'csv.fs', 'files': sorted(obs['before'].keys()), 'output': obs['target'], 'tmp': '__scratch__',
          'bytes': obs['bytes'], 'force': bool(obs['force'])}
    if inp['oversize'] or 'table' not in obs:
        return [fs]
    if _dims_gt_points_sorted(inp, obs, 'layout'):
        return [fs]          # known finding D5a: the oracle reports it; the table model has no notion of the view
    exp = _expected_table(inp, obs)
    ds = inp['ds']
    P, Q = len(ds['pos']['sizes']), len(ds['spec']['sizes'])
    m = gen.n_points(ds['spec'])
    return [fs, {'op': 'csv.lines', 'spec_desc': obs['spec_desc'], 'pos_desc': obs['pos_desc'],
             'spec_vals': [row[P:] for row in exp[:Q]],
             'pos_vals': [row[:P] for row in exp[Q + 1:]], 'data': [row[P:] for row in exp[Q + 1:]]}]


def model_compare(inp, obs, resp):
    notes = []
    o = obs['outcome']
    impl = 'skipped' if o == 'skipped' else ('refused' if isinstance(o, dict) and o.get('cls') == 'FileExistsError'
                                             else ('wrote:' + o['wrote'] if isinstance(o, dict) and 'wrote' in o else 'error'))
    if resp[0]['outcome'] != impl:
        notes.append('to_csv outcome differs: impl %s model %s (bytes %d force %s)' % (impl, resp[0]['outcome'], obs['bytes'], obs['force']))
    if sorted(set(resp[0]['files'])) != sorted(obs['after'].keys()):
        notes.append('files afterwards differ: impl %s model %s' % (sorted(obs['after'].keys()), sorted(set(resp[0]['files']))))
    if len(resp) > 1:
        model = [[('DASH' if c.startswith('-----') else c) for c in row] for row in resp[1]]
        if model != _canon_table(inp, obs):
            notes.append('parsed table differs between the model\'s lines and the written file')
    return notes


def _temp_name(inp, obs, failure):
    return failure.startswith('returned-path (output named temp.csv)') or failure.startswith('file-destroyed (user temp.csv)')


def _dims_gt_points_sorted(inp, obs, failure):
    """the sorted view of a side with more dimensions than points goes through the shape heuristic of
    get_sort_order (known finding D5a): its label list is shortened, and so is the padding of the header rows"""
    ds = inp['ds']
    return inp.get('view', 'file') in ('sorted', 'toggled') and failure.startswith('layout') and \
        any(len(s['sizes']) > gen.n_points(s) for s in (ds['pos'], ds['spec']))


KNOWN_CLASSES = {'fixed_scratch_name': _temp_name, 'more_dims_than_points': _dims_gt_points_sorted}


def distribution(cases, obs):
    d = {'default': 0, 'explicit': 0, 'temp.csv': 0, 'sub/out.csv': 0, 'preexisting': 0, 'user_temp': 0, 'force': 0,
         'oversize': 0, 'P!=Q': 0}
    for c in cases:
        d[c['path']] += 1
        d['preexisting'] += c['preexisting']
        d['user_temp'] += c['user_temp']
        d['force'] += c['force']
        d['oversize'] += c['oversize']
        d['P!=Q'] += len(c['ds']['pos']['sizes']) != len(c['ds']['spec']['sizes'])
    return d
