"""C18 — an empty dataset made from a Main dataset is a compatible Main sibling."""
import os
import numpy as np
import h5py
import gen
from core import derived_rng
from util import call, quiet
from props.C06 import describe, rules

REQUIRED_THEOREMS = ['Usid.C18.shape_type_attrs', 'Usid.C18.fresh_layout', 'Usid.C18.idempotent_keeps_contents',
                     'Usid.C18.occupied_refused', 'Usid.C18.others_untouched']
RULE = ('[also: chunk shapes (n, m/2) / (1, 1) / (1, m), the lzf filter, a source attribute that is an object reference to a non-ancillary dataset] [also: occupants of the same kind but twice as wide, of transposed shape; new_attrs left at its default; the element type given as a string / np.dtype; the File object of another file as destination; the returned object and all four links observed] generator datasets (chunked / gzip-compressed or neither) x requested dtypes {float32, complex64, compound} x '
        'destinations {same group, other group, other file} x names with and without "-" x sequences of 1-3 calls with '
        'data written in between, x prior occupants of the name (compatible dataset, dataset of another shape/dtype, a '
        'group); non-trivial = a repeated call or a prior occupant')
DTYPES = {'f4': np.float32, 'c8': np.complex64, 'compound': gen.COMPOUND}


def generate(seed, tier):
    n_cases = {'quick': 160, 'thorough': 2000, 'search': 900}[tier]
    cases = []
    for i in range(n_cases):
        rng = derived_rng(seed, 'C18', i)
        while True:
            ds = gen.gen_dataset(rng, max_dims=2, max_size=4)
            if gen.n_points(ds['pos']) * gen.n_points(ds['spec']) <= 200:
                break
        name = rng.choice(['New', 'New', 'Ne-w', 'Other'])
        calls = []
        for _ in range(rng.randint(1, 3)):
            calls.append({'dtype': rng.choice(['f4', 'f4', 'c8', 'compound']), 'name': name,
                          'new_attrs': rng.choice([{}, {}, {'note': 5}, {'quantity': 'Changed'}]),
                          'wrote': rng.random() < 0.6})
        cases.append({'ds': ds, 'layout': rng.choice(['plain', 'chunked', 'gzip']),
                      'dest': rng.choice(['same', 'same', 'other_group', 'other_file']),
                      'occupant': rng.choice([None, None, None, 'compatible', 'other_shape', 'other_dtype', 'group',
                                              'wider_dtype', 'transposed']),
                      'calls': calls,
                      # new_attrs left at its default; the element type spelled as a string / np.dtype; the destination of
                      # another file being the File object itself
                      'attrs_default': rng.random() < 0.25, 'dtype_as': rng.choice(['class', 'class', 'str', 'npdtype']),
                      'file_dest': rng.random() < 0.4})
        cases[-1]['layout_variant'] = derived_rng(seed, 'C18v', i).randint(0, 3)
        # an attribute of the source that is an object reference to something that is NOT one of its ancillaries
        cases[-1]['extra_ref'] = derived_rng(seed, 'C18r', i).random() < 0.3
        if cases[-1]['attrs_default']:
            for c in cases[-1]['calls']:
                c['new_attrs'] = {}
    return cases


def _layout(inp):
    ds = inp['ds']
    n, m = gen.n_points(ds['pos']), gen.n_points(ds['spec'])
    if inp['layout'] == 'plain':
        return {}
    kw = {'chunks': (max(1, n // 2), m)}
    if inp['layout'] == 'gzip':
        kw['compression'] = 'gzip'
    # other chunk shapes and filters (chosen by the case itself, so that the random stream is what it was)
    v = inp.get('layout_variant', 0)
    if v == 1:
        kw['chunks'] = (n, max(1, m // 2))
    elif v == 2:
        kw['chunks'] = (1, 1)
    elif v == 3:
        kw['chunks'] = (1, m)
        if inp['layout'] == 'gzip':
            kw['compression'] = 'lzf'
    return kw


def _desc_dset(f, d, src_anc):
    pi = f[d.attrs['Position_Indices']] if 'Position_Indices' in d.attrs else None
    links = 'none'
    if pi is not None:
        links = 'source' if (pi.file.filename, pi.name) == src_anc else 'copies'
    arr = d[()]
    zero = not np.any(arr['a']) if arr.dtype.names else not np.any(arr)
    return {'shape': list(d.shape), 'dtype': {np.dtype(np.float32): 'f4', np.dtype(np.complex64): 'c8'}.get(d.dtype, 'compound' if d.dtype.names else str(d.dtype)),
            'chunks': list(d.chunks) if d.chunks else None, 'compression': d.compression,
            'attrs': sorted(k for k in d.attrs.keys() if k not in ('Position_Indices', 'Position_Values',
                            'Spectroscopic_Indices', 'Spectroscopic_Values', 'machine_id', 'timestamp', 'platform',
                            'pyUSID_version', 'sidpy_version')),
            'links': links, 'zero': bool(zero)}


def run_impl(inp, work):
    from pyUSID.io.hdf_utils import create_empty_dataset
    ds = inp['ds']
    n, m = gen.n_points(ds['pos']), gen.n_points(ds['spec'])
    f = h5py.File(os.path.join(work, 'a.h5'), 'w')
    fo = h5py.File(os.path.join(work, 'b.h5'), 'w') if inp['dest'] == 'other_file' else None
    out = {'calls': []}
    try:
        g = f.create_group('G')
        src = gen.write_usid(g, ds, **_layout(inp))
        src.attrs['user_attr'] = 7
        if inp.get('extra_ref'):
            src.attrs['calibration'] = g.create_dataset('calib', data=np.arange(3)).ref
        src_anc = (f.filename, f[src.attrs['Position_Indices']].name)
        dest = {'same': g, 'other_group': f.create_group('H'),
                'other_file': ((fo if inp.get('file_dest') else fo.create_group('X')) if fo else None)}[inp['dest']]
        name0 = inp['calls'][0]['name'].replace('-', '_')
        if inp['occupant'] == 'group':
            dest.create_group(name0)
        elif inp['occupant']:
            shp = {'other_shape': (n + 1, m), 'transposed': ((m, n) if m != n else (n * m + 1, 1))}.get(inp['occupant'], (n, m))
            dt = DTYPES[inp['calls'][0]['dtype']] if inp['occupant'] != 'other_dtype' else np.int16
            if inp['occupant'] == 'wider_dtype':      # the same kind of number, twice as wide
                dt = {'f4': np.float64, 'c8': np.complex128,
                      'compound': np.dtype([('a', np.float64), ('b', np.int64)])}[inp['calls'][0]['dtype']]
            occ = dest.create_dataset(name0, shape=shp, dtype=dt)
            if inp['occupant'] == 'compatible':
                occ[0, 0] = 1 if not np.dtype(dt).names else (1.0, 1)
        out['src'] = _desc_dset(f, src, src_anc)
        out['src']['links'] = 'source'
        dump_src_before = (src[()].tolist() if not src.dtype.names else None, sorted(src.attrs.keys()))
        def others():
            return {k: (type(v).__name__, list(v.shape) if isinstance(v, h5py.Dataset) else None,
                        np.asarray(v[()]).tobytes().hex()[:64] if isinstance(v, h5py.Dataset) else None)
                    for k, v in dest.items() if k != name0}
        others_before = others()
        for c in inp['calls']:
            kw = {'h5_group': dest} if inp['dest'] != 'same' else {}
            if not inp.get('attrs_default'):
                kw['new_attrs'] = dict(c['new_attrs'])
            dt_arg = DTYPES[c['dtype']]
            if c['dtype'] != 'compound' and inp.get('dtype_as') == 'str':
                dt_arg = {'f4': 'float32', 'c8': 'complex64'}[c['dtype']]
            elif inp.get('dtype_as') == 'npdtype':
                dt_arg = np.dtype(dt_arg)
            r = call(create_empty_dataset, src, dt_arg, c['name'], **kw)
            if r[0] == 'err':
                out['calls'].append({'err': r[1], 'cls': r[2]})
                continue
            ret = r[1]
            d = dest.get(c['name'].replace('-', '_'))
            if not isinstance(d, h5py.Dataset):
                # nothing (or no dataset) under the name in the destination: describe what the call returned instead,
                # so that the oracle reports `destination` rather than the harness failing
                if not isinstance(ret, h5py.Dataset):
                    out['calls'].append({'err': 'other', 'cls': 'returned %s and left no dataset under the name' % type(ret).__name__})
                    continue
                d = ret.file[ret.name]
            returned_ok = type(ret).__name__ == 'USIDataset' and ret.name == d.name and ret.file.filename == d.file.filename
            ff = d.file
            rec = _desc_dset(ff, d, src_anc)
            rec['is_main'] = rules(describe(ff, d))
            rec['new_vals_ok'] = all(k in d.attrs and (d.attrs[k].decode() if isinstance(d.attrs[k], bytes) else d.attrs[k]) == v
                                     for k, v in c['new_attrs'].items())
            rec['src_vals_ok'] = all(k in d.attrs and d.attrs[k] == src.attrs[k]
                                     for k in ('quantity', 'units', 'user_attr') if k not in c['new_attrs'])
            rec['in_dest'] = d.parent.name == dest.name and d.file.filename == dest.file.filename
            rec['returned_ok'] = bool(returned_ok)
            # all four links, not just the first
            rec['all_links'] = [((ff[d.attrs[k]].file.filename, ff[d.attrs[k]].name) ==
                                 (f.filename, f[src.attrs[k]].name)) if k in d.attrs else None
                                for k in ('Position_Indices', 'Position_Values', 'Spectroscopic_Indices', 'Spectroscopic_Values')]
            if inp.get('extra_ref'):
                # the extra object reference must still lead, from the new dataset, to the calibration data
                try:
                    tgt = ff[d.attrs['calibration']]
                    rec['extra_ref_ok'] = bool(np.array_equal(tgt[()], np.arange(3)) and
                                               (inp['dest'] == 'other_file' or tgt.name == g['calib'].name))
                except Exception as e:      # noqa
                    rec['extra_ref_ok'] = False
            if rec['links'] == 'copies':
                # faithful copies: same contents and labels as the source's ancillaries
                ok = True
                for k in ('Position_Indices', 'Position_Values', 'Spectroscopic_Indices', 'Spectroscopic_Values'):
                    a, b = f[src.attrs[k]], ff[d.attrs[k]]
                    ok = ok and np.array_equal(a[()], b[()]) and list(a.attrs['labels']) == list(b.attrs['labels']) \
                        and list(a.attrs['units']) == list(b.attrs['units'])
                rec['copies_faithful'] = bool(ok)
            out['calls'].append(rec)
            if c['wrote']:
                d[0, 0] = 1 if not d.dtype.names else (1.0, 1)
        out['src_unchanged'] = dump_src_before == (src[()].tolist() if not src.dtype.names else None, sorted(src.attrs.keys()))
        after = others()
        anc_names = ('Position_Indices', 'Position_Values', 'Spectroscopic_Indices', 'Spectroscopic_Values')
        out['others_unchanged'] = all(after.get(k) == v for k, v in others_before.items()) and \
            all(k in others_before or (inp['dest'] == 'other_file' and (k in anc_names or (k in ('calib', 'calibration') and inp.get('extra_ref'))))
                for k in after)
    finally:
        f.close()
        if fo is not None:
            fo.close()
    return out


def oracle(inp, obs):
    fails = []
    src = obs['src']
    state = inp['occupant']            # what sits under the name before the next call
    state_dtype = inp['calls'][0]['dtype']
    zero_now = None
    for i, (c, rec) in enumerate(zip(inp['calls'], obs['calls'])):
        what = 'call %d (occupant %s, dest %s)' % (i, state, inp['dest'])
        if state == 'group':
            if 'err' not in rec:
                fails.append('occupied: a name occupied by a group was not refused (%s)' % what)
            continue
        if 'err' in rec:
            fails.append('raises: create_empty_dataset raised %s (%s)' % (rec['cls'], what))
            continue
        compatible = state in ('compatible', 'made') and state_dtype == c['dtype']
        if rec['shape'] != src['shape'] or rec['dtype'] != c['dtype']:
            fails.append('shape-type: returned dataset has shape %s / dtype %s (%s)' % (rec['shape'], rec['dtype'], what))
        if not rec['in_dest']:
            fails.append('destination: dataset was not created in the requested destination (%s)' % what)
        if rec.get('returned_ok') is False:
            fails.append('returned-object: the call did not return the USIDataset of the dataset in the destination (%s)' % what)
        if inp['dest'] != 'other_file' and 'all_links' in rec and rec['all_links'] != [True] * 4:
            fails.append('links-all: not every ancillary link is the source\'s own dataset: %s (%s)' % (rec['all_links'], what))
        if not set(src['attrs']) <= set(rec['attrs']) or not set(c['new_attrs']) <= set(rec['attrs']):
            fails.append('attrs: descriptive / new attributes missing: %s (%s)' % (rec['attrs'], what))
        if not rec['new_vals_ok'] or not rec['src_vals_ok']:
            fails.append('attr-values: attribute values differ from the source\'s / the requested new ones (%s)' % what)
        if rec.get('extra_ref_ok') is False:
            fails.append('extra-reference: the source\'s reference attribute to a non-ancillary dataset does not lead to that '
                         'data from the new dataset (%s)' % what)
        if not rec['is_main']:
            fails.append('is-main: the created dataset is not a valid Main dataset (%s)' % what)
        want_links = 'source' if inp['dest'] != 'other_file' else 'copies'
        if rec['links'] != want_links or (want_links == 'copies' and not rec.get('copies_faithful')):
            fails.append('links: ancillary links are %s, expected %s (%s)' % (rec['links'], want_links, what))
        if compatible:
            if zero_now is False and rec['zero']:
                fails.append('idempotent: asking again for the existing compatible dataset erased its contents (%s)' % what)
        else:
            if not rec['zero']:
                fails.append('zero-filled: a newly created dataset is not empty (%s)' % what)
            if rec['chunks'] != src['chunks'] or rec['compression'] != src['compression']:
                fails.append('layout: chunks %s / compression %s differ from the source\'s %s / %s (%s)'
                             % (rec['chunks'], rec['compression'], src['chunks'], src['compression'], what))
        # what is there now
        zero_now = rec['zero'] if compatible else True
        if state == 'compatible' and i == 0 and compatible:
            zero_now = False
        if c['wrote']:
            zero_now = False
        state, state_dtype = 'made', c['dtype']
    if not obs['src_unchanged']:
        fails.append('source-modified: the source dataset changed')
    if not obs['others_unchanged']:
        fails.append('others-modified: other members of the destination group changed')
    return fails


def nontrivial(inp, obs):
    return len(inp['calls']) > 1 or inp['occupant'] is not None


def model_requests_obs(inp, obs):
    src = dict(obs['src'])
    group = []
    if inp['occupant'] == 'group':
        group.append({'name': inp['calls'][0]['name'].replace('-', '_'), 'kind': 'group'})
    elif inp['occupant']:
        shp = list(src['shape'])
        if inp['occupant'] == 'other_shape':
            shp[0] += 1
        elif inp['occupant'] == 'transposed':
            shp = [shp[1], shp[0]] if shp[0] != shp[1] else [shp[0] * shp[1] + 1, 1]
        dt = inp['calls'][0]['dtype'] if inp['occupant'] not in ('other_dtype', 'wider_dtype') else \
            ('int16' if inp['occupant'] == 'other_dtype' else 'wide-' + inp['calls'][0]['dtype'])
        group.append({'name': inp['calls'][0]['name'].replace('-', '_'), 'kind': 'dataset',
                      'dset': {'shape': shp, 'dtype': dt, 'chunks': None, 'compression': None, 'attrs': [],
                               'links': 'none', 'zero': inp['occupant'] != 'compatible'}})
    calls = [{'dtype': c['dtype'], 'name': c['name'].replace('-', '_'), 'new_attrs': sorted(c['new_attrs']),
              'wrote': c['wrote']} for c in inp['calls']]
    return [{'op': 'empty.run', 'src': src, 'group': group, 'calls': calls, 'same_file': inp['dest'] != 'other_file'}]


def model_compare(inp, obs, resp):
    notes = []
    for i, (a, b) in enumerate(zip(obs['calls'], resp[0])):
        if ('err' in a) != ('err' in b):
            notes.append('call %d: impl %s model %s' % (i, 'error' if 'err' in a else 'ok', 'error' if 'err' in b else 'ok'))
            continue
        if 'err' in a:
            continue
        m = b['ok']
        for k in ('shape', 'dtype', 'chunks', 'compression', 'links', 'zero'):
            if a[k] != m[k]:
                notes.append('call %d: %s impl %s model %s' % (i, k, a[k], m[k]))
        if sorted(a['attrs']) != sorted(m['attrs']):
            notes.append('call %d: attrs impl %s model %s' % (i, sorted(a['attrs']), sorted(m['attrs'])))
    return notes


def distribution(cases, obs):
    d = {'same': 0, 'other_group': 0, 'other_file': 0, 'repeat_calls': 0, 'errors': 0}
    for k in (None, 'compatible', 'other_shape', 'other_dtype', 'group', 'wider_dtype', 'transposed'):
        d['occupant:%s' % k] = 0
    for c, o in zip(cases, obs):
        d[c['dest']] += 1
        d['occupant:%s' % c['occupant']] += 1
        d['repeat_calls'] += len(c['calls']) > 1
        d['errors'] += sum(1 for r in o['calls'] if 'err' in r)
    return d
