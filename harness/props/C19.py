"""C19 — translators preserve element coordinates and produce the canonical layout."""
import os
import itertools
import numpy as np
import h5py
import gen
from core import derived_rng
from util import call, quiet
from props.C06 import describe, rules

REQUIRED_THEOREMS = ['Usid.C19.sidpy_coords', 'Usid.C19.image_pixels', 'Usid.C19.array_rejected_before_file',
                     'Usid.C19.array_valid_iff', 'Usid.C19.array_layout', 'Usid.C19.unfixed_reshape_counterexample']
RULE = ('[also: text images with negative values, normalised] [also: supplied parameters named like the library\'s book-keeping attributes (timestamp, machine_id)] [also: indexed-colour and bilevel images] [also: labelled datasets one of whose axes was re-assigned by attribute (internal axis dictionary out of order)] [also: images as comma-separated text, colour png, tif, bmp; resampling filters NEAREST / BILINEAR / BOX; the recorded binning, filter, image_min / image_max observed] [also: an extra dataset holding an integer that single precision cannot represent, element kinds of the stored extras observed] [also: dimension / axis values that are not increasing, lazy inputs in several chunks, dtype= / compression= keyword arguments, verbose=True] three families. ARRAY: generator datasets through ArrayTranslator as numpy or dask arrays, dimension lists given '
        'fastest first (or a bare Dimension), with/without parameter dictionaries and extra datasets (lists, arrays, '
        'dask arrays), a pre-existing file at the output path or none, and one (sometimes two) invalidities out of: '
        'non-string argument, data that is not an array / not 2D, dimension lists of the wrong type or whose sizes do not '
        'match the data, extras that are not a dictionary / have a reserved or non-string key / a non-array value. '
        'IMAGE: 8-bit PNG (and .txt) images of every size 1-6 x 1-6 written in the scratch directory, with and without '
        'binning (int or pair) and normalisation, with and without a pre-existing output file. LABELLED: sidpy datasets '
        'of rank 1-4, sizes 1-3, with every assignment of {spatial, spectral, temporal, reciprocal, unknown} to the '
        'axes (all assignments of rank <= 3 are enumerated in the thorough tier). The produced file is read back with '
        'raw h5py into a coordinate map {physical value of every named dimension -> element}; non-trivial = the '
        'coordinate map has >= 2 multi-valued dimensions on one side or axes of different kinds are interleaved')
ANC = ['Position_Indices', 'Position_Values', 'Spectroscopic_Indices', 'Spectroscopic_Values']
BOOK = ('machine_id', 'timestamp', 'platform', 'pyUSID_version', 'sidpy_version')
TYPES = ['spatial', 'spectral', 'temporal', 'reciprocal', 'unknown']
ARRAY_BAD = ['nonstr', 'data_list', 'data_1d', 'data_3d', 'pos_badtype', 'spec_badtype', 'pos_mismatch', 'spec_mismatch',
             'extras_notdict', 'extra_reserved', 'extra_reserved_sub', 'extra_nonstr_key', 'extra_badval']


# ---------------------------------------------------------------- generation
def _gen_array(rng, i):
    while True:
        ds = gen.gen_dataset(rng, max_dims=3, max_size=4, dtypes=('f8', 'f4', 'i4'), long_prob=0.12, unsorted_prob=0.25)
        if gen.n_points(ds['pos']) * gen.n_points(ds['spec']) <= 300:
            break
    bad = []
    r = rng.random()
    if r < 0.45:
        bad = [ARRAY_BAD[(i + rng.randint(0, len(ARRAY_BAD) - 1)) % len(ARRAY_BAD)]]
        if rng.random() < 0.2:
            bad.append(rng.choice(ARRAY_BAD))
    extras = rng.choice([None, None, 'arrays', 'arrays', 'dask'])
    if any(b.startswith('extra') for b in bad) and extras is None:
        extras = 'arrays'
    return {'kind': 'array', 'ds': ds, 'input': rng.choice(['numpy', 'numpy', 'dask']), 'bad': sorted(set(bad)),
            'parms': rng.choice([None, {}, {'a': 1, 'b': 'text'}, {'gain': 2.5, 'mode': 'fast', 'n': 3},
                                 # acquisition metadata that happens to use the names of the library's own book-keeping
                                 {'timestamp': '2019-03-01 10:00', 'machine_id': 'AFM-2', 'gain': 2.5}]),
            'extras': extras, 'preexisting': rng.random() < 0.4,
            'bare_dim': rng.random() < 0.3,
            # lazy input in several chunks; h5py keyword arguments handed through to the main dataset
            'multichunk': rng.random() < 0.5, 'kw': rng.choice([None, None, 'dtype', 'compression', 'both'])}


def _gen_image(rng, i, h=None, w=None):
    h = h or rng.randint(1, 6)
    w = w or rng.randint(1, 6)
    pix = [[rng.randint(0, 255) for _ in range(w)] for _ in range(h)]
    if h * w > 1 and len({p for row in pix for p in row}) == 1:
        pix[0][0] = (pix[0][0] + 17) % 256
    binning = None
    if rng.random() < 0.3:
        binning = rng.choice([1, 2, [1, 2], [2, 1], [1, 1]])
        b = binning if isinstance(binning, list) else [binning, binning]
        if h // b[0] < 1 or w // b[1] < 1:
            binning = None
    return {'kind': 'image', 'h': h, 'w': w, 'pix': pix, 'fmt': rng.choice(['png', 'png', 'png', 'txt']),
            'bin': binning, 'normalize': rng.random() < 0.25 and h * w > 1, 'preexisting': rng.random() < 0.15,
            'h5_given': rng.random() < 0.5}


def _gen_sidpy(rng, i, types=None, shape=None):
    k = len(types) if types else rng.randint(1, 4)
    types = types or [rng.choice(['spatial', 'spatial', 'spectral', 'spectral', 'temporal', 'reciprocal', 'unknown'])
                      for _ in range(k)]
    shape = shape or [rng.choice([1, 2, 2, 3, 3]) for _ in range(k)]
    values = []
    for d in range(k):
        v = [rng.randint(-8, 8)]
        for _ in range(shape[d] - 1):
            v.append(v[-1] + rng.randint(1, 6))
        if rng.random() < 0.25:            # axis values that are not increasing
            v = v[::-1] if rng.random() < 0.5 else rng.sample(v, len(v))
        values.append(v)
    return {'kind': 'sidpy', 'types': list(types), 'shape': list(shape), 'values': values,
            'dest': rng.choice(['group', 'group', 'file']), 'verbose': rng.random() < 0.2,
            'chunked': rng.random() < 0.3}


def generate(seed, tier):
    n = {'quick': (70, 40, 90), 'thorough': (900, 500, 900), 'search': (400, 200, 500)}[tier]
    cases = []
    for i in range(n[0]):
        cases.append(_gen_array(derived_rng(seed, 'C19a', i), i))
    for i in range(n[1]):
        cases.append(_gen_image(derived_rng(seed, 'C19i', i), i))
        # other file formats (comma-separated text, colour, tif, bmp) and resampling filters, from a stream of their own
        rv = derived_rng(seed, 'C19iv', i)
        if rv.random() < 0.45:
            cases[-1]['fmt'] = rv.choice(['csv', 'rgb', 'tif', 'bmp', 'rgb', 'palette', 'bilevel', 'palette'])
            if cases[-1]['fmt'] == 'rgb':
                cases[-1]['pix_gb'] = [[[rv.randint(0, 255), rv.randint(0, 255)] for _ in range(cases[-1]['w'])]
                                       for _ in range(cases[-1]['h'])]
        if cases[-1]['fmt'] in ('txt', 'csv') and rv.random() < 0.5:
            cases[-1]['signed'] = True          # a height map / difference image: negative values
            if cases[-1]['h'] * cases[-1]['w'] > 1:
                cases[-1]['normalize'] = rv.random() < 0.7
        if cases[-1]['bin'] is not None and rv.random() < 0.6:
            cases[-1]['interp'] = rv.choice(['NEAREST', 'BILINEAR', 'BOX'])
    for j in range({'quick': 6, 'thorough': 40, 'search': 20}[tier]):       # signed text images, normalised
        rs = derived_rng(seed, 'C19sg', j)
        c = _gen_image(rs, j, rs.randint(1, 5), rs.randint(2, 5))
        c.update(fmt=rs.choice(['txt', 'csv']), signed=True, normalize=True, preexisting=False, bin=None)
        cases.append(c)
    if tier != 'quick':
        for j, (h, w) in enumerate(itertools.product(range(1, 7), repeat=2)):      # every size once, plain
            c = _gen_image(derived_rng(seed, 'C19ix', j), j, h, w)
            c.update(bin=None, normalize=False, preexisting=False)
            cases.append(c)
    for i in range(n[2]):
        cases.append(_gen_sidpy(derived_rng(seed, 'C19s', i), i))
        rr = derived_rng(seed, 'C19sr', i)
        if rr.random() < 0.3:
            cases[-1]['reassign'] = rr.randrange(len(cases[-1]['types']))
    # every spatial/other assignment of rank <= 3 (quick) / every typing of rank <= 3 (thorough)
    pool = ['spatial', 'spectral'] if tier == 'quick' else TYPES
    j = 0
    for k in (1, 2, 3):
        for types in itertools.product(pool, repeat=k):
            cases.append(_gen_sidpy(derived_rng(seed, 'C19sx', j), j, types=types,
                                    shape=[2, 3, 2][:k] if tier == 'quick' else None))
            j += 1
    return cases


# ---------------------------------------------------------------- observation helpers
def _strs(a):
    return [x.decode() if isinstance(x, bytes) else str(x) for x in np.atleast_1d(a)]


def _read_main(f, h5, numeric_tokens=True):
    """coordinate map + ancillary matrices of a main dataset, read with raw h5py"""
    pi, pv = f[h5.attrs['Position_Indices']], f[h5.attrs['Position_Values']]
    si, sv = f[h5.attrs['Spectroscopic_Indices']], f[h5.attrs['Spectroscopic_Values']]
    pl, sl = _strs(pv.attrs['labels']), _strs(sv.attrs['labels'])
    pvals = (np.asarray(pv[()], dtype=np.float64) * 4).round().astype(int)
    svals = (np.asarray(sv[()], dtype=np.float64) * 4).round().astype(int)
    raw = h5[()]
    data = gen.tokens(raw) if numeric_tokens else None
    cmap, dup = {}, 0
    for r in range(raw.shape[0]):
        for c in range(raw.shape[1]):
            key = tuple(sorted([(l, int(pvals[r, d])) for d, l in enumerate(pl)] +
                               [(l, int(svals[d, c])) for d, l in enumerate(sl)]))
            dup += key in cmap
            cmap[key] = int(data[r, c]) if numeric_tokens else '%.6f' % float(raw[r, c])
    return {'map': sorted([list(map(list, k)), v] for k, v in cmap.items()), 'dup': dup, 'shape': list(raw.shape),
            'main': data.ravel().tolist() if numeric_tokens else None,
            'pos': {'labels': pl, 'units': _strs(pv.attrs['units']), 'ind': np.asarray(pi[()]).T.astype(int).tolist(),
                    'val': pvals.T.tolist()},
            'spec': {'labels': sl, 'units': _strs(sv.attrs['units']), 'ind': np.asarray(si[()]).astype(int).tolist(),
                     'val': svals.tolist()},
            'valid': bool(rules(describe(f, h5))), 'quantity': _strs(h5.attrs.get('quantity', '?'))[0],
            'units': _strs(h5.attrs.get('units', '?'))[0]}


def _count_mains(f):
    mains = []

    def visit(name, o):
        if isinstance(o, h5py.Dataset) and rules(describe(f, o)):
            mains.append('/' + name)
    f.visititems(visit)
    return sorted(mains)


def _attrs(o, keep=()):
    out = {}
    for k, v in o.attrs.items():
        if k in BOOK and k not in keep:
            continue
        if isinstance(v, bytes):
            v = v.decode()
        if isinstance(v, np.ndarray):
            v = v.tolist()
        if isinstance(v, (np.floating, float)):
            v = float(v) if v == v else 'nan'
        if isinstance(v, (np.integer, np.bool_)):
            v = int(v)
        out[k] = v
    return out


def _path_state(path, old=b'OLD CONTENT'):
    if not os.path.exists(path):
        return 'absent'
    with open(path, 'rb') as fh:
        if fh.read(64) == old:
            return 'old'
    return 'new'


# ---------------------------------------------------------------- ARRAY
def _array_args(inp):
    """the actual arguments (and the model's description of them)"""
    import dask.array as da
    from pyUSID.io.dimension import Dimension
    ds, bad = inp['ds'], inp['bad']
    n, m = gen.n_points(ds['pos']), gen.n_points(ds['spec'])
    raw = gen.main_array(n, m, ds['dtype'])
    desc = {'data': {'k': 'array', 'rank': 2}, 'n': n, 'm': m}
    if 'data_list' in bad:
        raw = raw.tolist()
        desc['data'] = {'k': 'bad'}
    elif 'data_1d' in bad:
        raw = raw.ravel()
        desc['data'] = {'k': 'array', 'rank': 1}
    elif 'data_3d' in bad:
        raw = raw.reshape(n, m, 1)
        desc['data'] = {'k': 'array', 'rank': 3}
    if inp['input'] == 'dask' and 'data_list' not in bad:
        raw = da.from_array(raw, chunks=(tuple(max(1, (x + 1) // 2) for x in raw.shape) if inp.get('multichunk') else raw.shape))

    def dims(side, key):
        out, d_desc = [], []
        for d in side['rate']:
            vals = list(side['values'][d])
            if key + '_mismatch' in bad and d == side['rate'][0]:
                vals = vals + [vals[-1] + 4]
            out.append(Dimension(side['labels'][d], side['units'][d], [v / 4.0 for v in vals]))
            d_desc.append({'name': side['labels'][d], 'units': side['units'][d], 'values': vals})
        if key + '_badtype' in bad:
            return ['not', 'dimensions'], {'k': 'bad'}
        if inp['bare_dim'] and len(out) == 1:
            return out[0], {'k': 'dims', 'dims': d_desc}
        return out, {'k': 'dims', 'dims': d_desc}
    pos, desc['pos'] = dims(ds['pos'], 'pos')
    spec, desc['spec'] = dims(ds['spec'], 'spec')
    extras, e_desc = None, []
    if inp['extras']:
        extras = {}
        # (a time stamp that single precision cannot hold: the extra datasets are not the main dataset)
        items = [('Extra_A', np.array([0, 1, 2, 3, 4, 16777217]).reshape(2, 3)), ('note_list', [5, 6, 7])]
        if inp['extras'] == 'dask':
            items.append(('Lazy', da.from_array(np.arange(4), chunks=2)))
        if 'extra_reserved' in bad:
            items.append(('Raw_Data', np.arange(2)))
        if 'extra_reserved_sub' in bad:
            items.append(('Values', np.arange(2)))
        if 'extra_badval' in bad:
            items.append(('Broken', 'a string'))
        if 'extra_nonstr_key' in bad:
            items.append((17, np.arange(2)))
        for k, v in items:
            extras[k] = v
            ok = not isinstance(v, str)
            e_desc.append({'key_is_str': isinstance(k, str), 'key': str(k), 'val_ok': ok,
                           'content': np.asarray(v).ravel().astype(int).tolist() if ok else []})
        if 'extras_notdict' in bad:
            extras = [('Extra_A', np.arange(3))]
    desc['extras'] = e_desc
    desc['extras_is_dict'] = 'extras_notdict' not in bad
    quantity = 5 if 'nonstr' in bad else 'Current'
    desc['strings_ok'] = 'nonstr' not in bad
    desc['parms'] = sorted([k, str(v)] for k, v in (inp['parms'] or {}).items())
    return raw, quantity, pos, spec, extras, desc


def _run_array(inp, work):
    from pyUSID.io.array_translator import ArrayTranslator
    raw, quantity, pos, spec, extras, desc = _array_args(inp)
    path = os.path.join(work, 'out.h5')
    if inp['preexisting']:
        with open(path, 'wb') as fh:
            fh.write(b'OLD CONTENT')
    before = _path_state(path)
    with quiet():
        kw = {}
        if inp.get('kw') in ('dtype', 'both'):
            kw['dtype'] = np.float32          # tokens are whole numbers below 2^24: exact in single precision
        if inp.get('kw') in ('compression', 'both'):
            kw['compression'] = 'gzip'
        def _names(l):
            return [getattr(d_, 'name', None) for d_ in l] if isinstance(l, list) else None
        names_before = [_names(pos), _names(spec)]
        r = call(ArrayTranslator().translate, path, 'MyData', raw, quantity, 'nA', pos, spec,
                 translator_name='MyTranslator', parm_dict=inp['parms'], extra_dsets=extras, **kw)
        args_mutated = names_before != [_names(pos), _names(spec)]
    out = {'before': before, 'after': _path_state(path), 'desc': desc, 'args_mutated': args_mutated}
    if r[0] == 'err':
        out['err'], out['cls'] = r[1], r[2]
        return out
    out['returned'] = os.path.abspath(r[1]) == os.path.abspath(path)
    with h5py.File(path, 'r') as f:
        out['root'] = _attrs(f)
        out['root_members'] = sorted(f.keys())
        out['mains'] = _count_mains(f)
        if 'Measurement_000' in f and 'Channel_000' in f['Measurement_000']:
            meas = f['Measurement_000']
            chan = meas['Channel_000']
            out['meas_members'] = sorted(meas.keys())
            out['meas_attrs'] = {k: str(v) for k, v in _attrs(meas, keep=set(inp['parms'] or {})).items()}
            out['members'] = sorted(chan.keys())
            if 'Raw_Data' in chan:
                out['file'] = _read_main(f, chan['Raw_Data'])
            out['extras'] = {k: np.asarray(chan[k][()]).ravel().astype(int).tolist() for k in chan.keys()
                             if k not in ANC + ['Raw_Data']}
            out['extra_shapes'] = {k: list(chan[k].shape) for k in chan.keys() if k not in ANC + ['Raw_Data']}
            out['extra_dtypes'] = {k: chan[k].dtype.kind for k in chan.keys() if k not in ANC + ['Raw_Data']}
    return out


def _expected_array_map(inp):
    ds = inp['ds']
    n, m = gen.n_points(ds['pos']), gen.n_points(ds['spec'])
    pv = (np.asarray(gen.value_matrix(ds['pos']), dtype=np.float64) * 4).round().astype(int)
    sv = (np.asarray(gen.value_matrix(ds['spec']), dtype=np.float64) * 4).round().astype(int)
    exp = {}
    for r in range(n):
        for c in range(m):
            key = tuple(sorted([(l, int(pv[r, d])) for d, l in enumerate(ds['pos']['labels'])] +
                               [(l, int(sv[c, d])) for d, l in enumerate(ds['spec']['labels'])]))
            exp[key] = r * m + c
    return exp


def _oracle_array(inp, obs):
    fails = []
    if obs.get('args_mutated'):
        fails.append('arguments-mutated: the descriptor lists handed to translate() are in another order after the call (the '
                     'next channel translated with the same lists gets other coordinates)')
    tag = ' (input %s, extras %s)' % (inp['input'], inp['extras'])
    if inp['bad']:
        if 'err' not in obs:
            fails.append('accepts-invalid: input with %s was translated' % inp['bad'])
        if obs['after'] != obs['before']:
            fails.append('rejected-but-touched: a rejected input changed the output path from %s to %s (%s)'
                         % (obs['before'], obs['after'], inp['bad']))
        return fails
    if 'err' in obs:
        fails.append('raises: ArrayTranslator raised %s for a valid input%s' % (obs['cls'], tag))
        return fails
    if not obs['returned'] or obs['after'] != 'new':
        fails.append('no-file: no new file at the returned path')
        return fails
    if obs['root'].get('data_type') != 'MyData' or obs['root'].get('translator') != 'MyTranslator':
        fails.append('root-attrs: data_type / translator not stored: %s' % obs['root'])
    if obs['root_members'] != ['Measurement_000'] or obs.get('meas_members') != ['Channel_000']:
        fails.append('layout: groups are %s / %s' % (obs['root_members'], obs.get('meas_members')))
        return fails
    want_parms = {k: str(v) for k, v in (inp['parms'] or {}).items()}
    if obs['meas_attrs'] != want_parms:
        fails.append('parameters: stored %s, supplied %s' % (obs['meas_attrs'], want_parms))
    if obs['mains'] != ['/Measurement_000/Channel_000/Raw_Data'] or 'file' not in obs:
        fails.append('single-main: Main datasets in the file: %s' % obs['mains'])
        return fails
    fl = obs['file']
    if fl['quantity'] != 'Current' or fl['units'] != 'nA':
        fails.append('quantity-units: %s / %s' % (fl['quantity'], fl['units']))
    got = {tuple(tuple(p) for p in k): v for k, v in fl['map']}
    if fl['dup'] or got != _expected_array_map(inp):
        fails.append('coordinates: elements are not stored under their input coordinates%s' % tag)
    want_extras = {}
    if inp['extras']:
        want_extras = {'Extra_A': [0, 1, 2, 3, 4, 16777217], 'note_list': [5, 6, 7]}
        if inp['extras'] == 'dask':
            want_extras['Lazy'] = list(range(4))
    if obs['extras'] != want_extras or (inp['extras'] and obs['extra_shapes'].get('Extra_A') != [2, 3]):
        fails.append('extras: stored %s, supplied %s%s' % (obs['extras'], want_extras, tag))
    elif any(k != 'i' for k in obs.get('extra_dtypes', {}).values()):
        fails.append('extras-dtype: integer extra datasets stored with element kinds %s%s' % (obs['extra_dtypes'], tag))
    return fails


# ---------------------------------------------------------------- IMAGE
def _run_image(inp, work):
    from PIL import Image
    from pyUSID.io.image import ImageTranslator
    pix = np.array(inp['pix'], dtype=np.uint8)
    img_path = os.path.join(work, 'picture.' + {'rgb': 'png', 'palette': 'png', 'bilevel': 'png'}.get(inp['fmt'], inp['fmt']))
    if inp['fmt'] in ('png', 'tif', 'bmp'):
        Image.fromarray(pix, mode='L').save(img_path)
    elif inp['fmt'] == 'rgb':
        gb = np.array(inp['pix_gb'], dtype=np.uint8)
        Image.fromarray(np.dstack([pix, gb[:, :, 0], gb[:, :, 1]]), mode='RGB').save(img_path)
    elif inp['fmt'] == 'palette':
        # indexed colour: the stored numbers are palette indices, the intensities come from the palette
        im = Image.fromarray((pix % 7).astype(np.uint8), mode='P')
        im.putpalette([(37 * k + 11 * c) % 256 for k in range(256) for c in range(3)])
        im.save(img_path)
    elif inp['fmt'] == 'bilevel':
        Image.fromarray(pix > 127).convert('1').save(img_path)
    elif inp['fmt'] == 'csv':
        np.savetxt(img_path, pix.astype(float) - (128 if inp.get('signed') else 0), delimiter=',')
    else:
        np.savetxt(img_path, pix.astype(float) - (128 if inp.get('signed') else 0))
    h5_path = os.path.join(work, 'given.h5') if inp['h5_given'] else os.path.join(work, 'picture.h5')
    if inp['preexisting']:
        with open(h5_path, 'wb') as fh:
            fh.write(b'OLD CONTENT')
    before = _path_state(h5_path)
    kw = {}
    if inp['bin'] is not None:
        kw['bin_factor'] = inp['bin']
    if inp.get('interp'):
        kw['interp_func'] = getattr(Image.Resampling, inp['interp'])
    with quiet():
        tr = ImageTranslator()
        r = call(tr.translate, img_path, h5_path=h5_path if inp['h5_given'] else None, normalize=inp['normalize'], **kw)
    out = {'before': before, 'after': _path_state(h5_path)}
    if r[0] == 'err':
        out['err'], out['cls'] = r[1], r[2]
        return out
    out['returned'] = os.path.abspath(r[1]) == os.path.abspath(h5_path)
    # the processed image, recomputed with PIL / numpy directly
    proc = (pix.astype(float) - (128 if inp.get('signed') else 0)) if inp['fmt'] in ('txt', 'csv') else \
        np.asarray(Image.open(img_path).convert(mode='L'))
    if inp['bin'] is not None:
        b = inp['bin'] if isinstance(inp['bin'], list) else [inp['bin'], inp['bin']]
        us, vs = int(proc.shape[0] / b[0]), int(proc.shape[1] / b[1])
        proc = np.asarray(Image.fromarray(proc).resize((vs, us), resample=getattr(Image.Resampling, inp.get('interp') or 'BICUBIC')))
    proc = proc.copy()
    if inp['normalize']:
        proc -= np.min(proc)
        proc = proc / np.float32(np.max(proc))
    out['proc_shape'] = list(proc.shape)
    out['proc'] = [['%.6f' % float(x) for x in row] for row in proc]
    with h5py.File(r[1], 'r') as f:
        out['root'] = _attrs(f)
        out['root_members'] = sorted(f.keys())
        out['mains'] = _count_mains(f)
        if out['mains'] == ['/Measurement_000/Channel_000/Raw_Data']:
            meas = f['Measurement_000']
            out['meas_attrs'] = _attrs(meas)
            fl = _read_main(f, f[out['mains'][0]], numeric_tokens=False)
            out['file'] = fl
            out['main_raw'] = ['%.6f' % float(x) for x in f[out['mains'][0]][()].ravel()]
    return out


def _oracle_image(inp, obs):
    fails = []
    tag = ' (%dx%d %s, bin %s, normalize %s)' % (inp['h'], inp['w'], inp['fmt'], inp['bin'], inp['normalize'])
    if inp['preexisting']:
        if obs.get('cls') != 'FileExistsError' or obs['after'] != 'old':
            fails.append('existing-output: an existing output file was not refused / was changed (%s, %s)'
                         % (obs.get('cls'), obs['after']))
        return fails
    if 'err' in obs:
        fails.append('raises: ImageTranslator raised %s%s' % (obs['cls'], tag))
        return fails
    if not obs['returned'] or obs['after'] != 'new':
        fails.append('no-file: no new file at the returned path')
        return fails
    if obs['root'].get('data_type') != 'ImageData' or obs['root'].get('translator') != 'ImageTranslator':
        fails.append('root-attrs: %s' % obs['root'])
    if obs['root_members'] != ['Measurement_000'] or obs['mains'] != ['/Measurement_000/Channel_000/Raw_Data']:
        fails.append('layout: %s / mains %s' % (obs['root_members'], obs['mains']))
        return fails
    if bool(obs['meas_attrs'].get('normalized')) != inp['normalize']:
        fails.append('parameters: normalized flag %s' % obs['meas_attrs'].get('normalized'))
    ma = obs['meas_attrs']
    if inp['bin'] is not None:
        b = inp['bin'] if isinstance(inp['bin'], list) else [inp['bin'], inp['bin']]
        if [int(x) for x in np.asarray(ma.get('image_binning_size', [])).ravel()] != b or \
                str(ma.get('image_PIL_resample_mode')) != (inp.get('interp') or 'BICUBIC'):
            fails.append('parameters: binning recorded as %s / %s, requested %s / %s'
                         % (ma.get('image_binning_size'), ma.get('image_PIL_resample_mode'), b, inp.get('interp') or 'BICUBIC'))
    elif 'image_binning_size' in ma:
        fails.append('parameters: a binning size is recorded although none was requested')
    vals = [float(x) for row in obs['proc'] for x in row]
    if abs(float(ma.get('image_min', 'nan')) - min(vals)) > 1e-5 or abs(float(ma.get('image_max', 'nan')) - max(vals)) > 1e-5:
        fails.append('parameters: recorded image_min / image_max %s / %s, of the stored image %s / %s'
                     % (ma.get('image_min'), ma.get('image_max'), min(vals), max(vals)))
    fl = obs['file']
    proc = obs['proc']
    hh, ww = obs['proc_shape']
    exp = {}
    for y in range(hh):
        for x in range(ww):
            exp[(('X', 4 * x), ('Y', 4 * y))] = proc[y][x]
    got = {}
    for k, v in fl['map']:
        got[tuple(sorted((l, q) for l, q in k if l not in ('arb',)))] = v
    if fl['dup'] or set(got) != set(exp):
        fails.append('coordinates: pixel coordinates (Y, X) of the file do not cover the image%s' % tag)
    elif got != exp:
        fails.append('coordinates%s: pixels are not stored under their (row, column)%s'
                     % ('' if hh != ww else '-square', tag))
    if fl['shape'] != [hh * ww, 1]:
        fails.append('shape: main is %s for a %dx%d image' % (fl['shape'], hh, ww))
    return fails


# ---------------------------------------------------------------- LABELLED (sidpy)
def _run_sidpy(inp, work):
    import sidpy
    from pyUSID.io.hdf_utils import write_sidpy_dataset
    shape = inp['shape']
    arr = np.arange(int(np.prod(shape)), dtype=np.float64).reshape(shape)
    if inp.get('chunked') and arr.size > 1:
        ds = sidpy.Dataset.from_array(arr, name='Thing', chunks=tuple(max(1, (x + 1) // 2) for x in arr.shape))
    else:
        ds = sidpy.Dataset.from_array(arr, name='Thing')
    ds.quantity, ds.units = 'Current', 'nA'
    for i, t in enumerate(inp['types']):
        ds.set_dimension(i, sidpy.Dimension(np.array(inp['values'][i]) / 4.0, name='ax%d' % i, units='u%d' % i,
                                            quantity='q%d' % i, dimension_type=t))
    # an axis recalibrated by attribute assignment (sidpy then moves its entry to the END of its internal dictionary)
    if inp.get('reassign') is not None and inp['reassign'] < len(inp['types']):
        i = inp['reassign']
        try:
            setattr(ds, 'ax%d' % i, sidpy.Dimension(np.array(inp['values'][i]) / 4.0, name='ax%d' % i, units='u%d' % i,
                                                    quantity='q%d' % i, dimension_type=inp['types'][i]))
        except Exception:     # noqa  (a sidpy that refuses the assignment leaves the dataset as it was)
            pass
    out = {}
    with h5py.File(os.path.join(work, 's.h5'), 'w') as f:
        g = f.create_group('G') if inp['dest'] == 'group' else f
        with quiet():
            r = call(write_sidpy_dataset, ds, g, verbose=True) if inp.get('verbose') else call(write_sidpy_dataset, ds, g)
        if r[0] == 'err':
            out['err'], out['cls'] = r[1], r[2]
            return out
        out['name'] = r[1].name
        out['mains'] = _count_mains(f)
        out['file'] = _read_main(f, f[r[1].name])
    return out


def _oracle_sidpy(inp, obs):
    fails = []
    types, shape = inp['types'], inp['shape']
    sp = [t == 'spatial' for t in types]
    mixed = any((not sp[i]) and any(sp[i + 1:]) for i in range(len(sp)))
    tag = ' (types %s, shape %s)' % (types, shape)
    if 'err' in obs:
        fails.append('raises%s: write_sidpy_dataset raised %s%s'
                     % ('-one-sided' if all(sp) or not any(sp) else '', obs['cls'], tag))
        return fails
    if len(obs['mains']) != 1 or obs['mains'][0] != obs['name']:
        fails.append('single-main: Main datasets %s' % obs['mains'])
    fl = obs['file']
    if fl['quantity'] != 'Current' or fl['units'] != 'nA':
        fails.append('quantity-units: %s / %s' % (fl['quantity'], fl['units']))
    exp = {}
    for idx in itertools.product(*[range(s) for s in shape]):
        key = tuple(sorted(('ax%d' % i, inp['values'][i][j]) for i, j in enumerate(idx)))
        exp[key] = int(np.ravel_multi_index(idx, shape))
    got = {}
    for k, v in fl['map']:
        got[tuple(sorted((l, q) for l, q in k if l != 'arb'))] = v
    if fl['dup'] or got != exp:
        wrong = sum(1 for k in exp if got.get(k) != exp[k])
        fails.append('coordinates%s: %d of %d elements are not stored under the values of their axes%s'
                     % ('-interleaved' if mixed else '', wrong, len(exp), tag))
    want_pos = ['ax%d' % i for i in range(len(types)) if sp[i]] or ['arb']
    want_spec = ['ax%d' % i for i in range(len(types)) if not sp[i]] or ['arb']
    if sorted(fl['pos']['labels']) != want_pos or sorted(fl['spec']['labels']) != want_spec:
        fails.append('sides: position %s spectroscopic %s%s' % (fl['pos']['labels'], fl['spec']['labels'], tag))
    return fails


# ---------------------------------------------------------------- module API
def run_impl(inp, work):
    return {'array': _run_array, 'image': _run_image, 'sidpy': _run_sidpy}[inp['kind']](inp, work)


def oracle(inp, obs):
    return {'array': _oracle_array, 'image': _oracle_image, 'sidpy': _oracle_sidpy}[inp['kind']](inp, obs)


def nontrivial(inp, obs):
    if inp['kind'] == 'sidpy':
        sp = [t == 'spatial' for t in inp['types']]
        return any((not sp[i]) and any(sp[i + 1:]) for i in range(len(sp))) or len(sp) >= 3
    if inp['kind'] == 'image':
        return inp['h'] != inp['w'] and inp['h'] > 1 and inp['w'] > 1
    return bool(inp['bad']) or len(inp['ds']['pos']['sizes']) >= 2 or len(inp['ds']['spec']['sizes']) >= 2


def model_requests_obs(inp, obs):
    if inp['kind'] == 'sidpy':
        axes = [{'name': 'ax%d' % i, 'units': 'u%d' % i, 'values': inp['values'][i], 'spatial': t == 'spatial'}
                for i, t in enumerate(inp['types'])]
        n = int(np.prod(inp['shape']))
        shape, flat = list(inp['shape']), list(range(n))
        if inp.get('reassign') is not None and inp['reassign'] < len(axes) and len(axes) > 1:
            # the writer walks the axes in the order of sidpy's internal dictionary, in which the re-assigned axis now
            # comes last: the model is handed the same labelled array with its axes in that order
            order = [j for j in range(len(axes)) if j != inp['reassign']] + [inp['reassign']]
            flat = np.arange(n).reshape(shape).transpose(order).ravel().tolist()
            shape = [shape[j] for j in order]
            axes = [axes[j] for j in order]
        return [{'op': 'trans.sidpy', 'shape': shape, 'flat': flat, 'axes': axes, 'unfixed': False}]
    if inp['kind'] == 'image':
        if inp['bin'] is not None or inp['normalize'] or 'err' in obs or inp['preexisting'] or inp.get('signed'):
            return []          # (the model's pixels are natural numbers; signed / resampled / normalised images: oracle only)
        if inp['fmt'] in ('rgb', 'palette', 'bilevel'):
            # colour is reduced to grey levels by PIL (not modelled): the model is handed the decoded grey image
            return [{'op': 'trans.image', 'shape': [inp['h'], inp['w']],
                     'flat': [int(round(float(x))) for row in obs['proc'] for x in row]}]
        return [{'op': 'trans.image', 'shape': [inp['h'], inp['w']], 'flat': [p for row in inp['pix'] for p in row]}]
    d = dict(obs['desc'])
    ds = inp['ds']
    n, m = gen.n_points(ds['pos']), gen.n_points(ds['spec'])
    d.update(op='trans.array', data_name='MyData', translator='MyTranslator', raw=list(range(n * m)),
             preexisting=inp['preexisting'])
    return [d]


def _cmp_written(name, file_side, model_side, notes):
    for k in ('labels', 'units', 'ind', 'val'):
        if file_side[k] != model_side[k]:
            notes.append('%s %s: impl %s model %s' % (name, k, file_side[k], model_side[k]))


def model_compare(inp, obs, resp):
    notes = []
    if not resp:
        return notes
    r = resp[0]
    if inp['kind'] in ('sidpy', 'image'):
        if 'err' in obs:
            return ['impl raised %s, the model translates' % obs['cls']]
        fl = obs['file']
        if fl['shape'] != r['shape']:
            notes.append('shape impl %s model %s' % (fl['shape'], r['shape']))
        main = fl['main'] if inp['kind'] == 'sidpy' else [int(round(float(x))) for x in obs['main_raw']]
        if main != r['main']:
            notes.append('main impl %s model %s' % (main[:12], r['main'][:12]))
        _cmp_written('pos', fl['pos'], r['pos'], notes)
        _cmp_written('spec', fl['spec'], r['spec'], notes)
        return notes
    outcome = obs.get('err', 'ok')
    if outcome != r['outcome']:
        notes.append('outcome impl %s model %s' % (outcome, r['outcome']))
        return notes
    state = r['path'] if isinstance(r['path'], str) else 'new'
    if obs['after'] != state:
        notes.append('path state impl %s model %s' % (obs['after'], state))
    if outcome == 'ok' and 'file' in obs and isinstance(r['path'], dict):
        p = r['path']
        fl = obs['file']
        if fl['shape'] != p['shape'] or fl['main'] != p['main']:
            notes.append('main differs')
        _cmp_written('pos', fl['pos'], p['pos'], notes)
        _cmp_written('spec', fl['spec'], p['spec'], notes)
        if sorted(obs['members']) != sorted(p['members']):
            notes.append('members impl %s model %s' % (sorted(obs['members']), sorted(p['members'])))
        if sorted(obs['meas_attrs'].items()) != sorted(tuple(x) for x in p['meas_attrs']):
            notes.append('meas attrs impl %s model %s' % (obs['meas_attrs'], p['meas_attrs']))
        if {e['key']: e['content'] for e in p['extras']} != obs['extras']:
            notes.append('extras impl %s model %s' % (obs['extras'], p['extras']))
        if [p['meas'], p['chan']] != ['Measurement_000', 'Channel_000']:
            notes.append('group names')
    return notes


def _one_sided(inp, obs, failure):
    return failure.startswith('raises-one-sided')


KNOWN_CLASSES = {}


def distribution(cases, obs):
    d = {'array': 0, 'image': 0, 'sidpy': 0, 'array_invalid': 0, 'array_dask': 0, 'image_binned': 0, 'image_normalized': 0,
         'image_nonsquare': 0, 'sidpy_interleaved': 0, 'sidpy_one_sided': 0, 'errors': 0}
    for c, o in zip(cases, obs):
        d[c['kind']] += 1
        d['errors'] += 'err' in o
        if c['kind'] == 'array':
            d['array_invalid'] += bool(c['bad'])
            d['array_dask'] += c['input'] == 'dask'
        elif c['kind'] == 'image':
            d['image_binned'] += c['bin'] is not None
            d['image_normalized'] += c['normalize']
            d['image_nonsquare'] += c['h'] != c['w']
        else:
            sp = [t == 'spatial' for t in c['types']]
            d['sidpy_interleaved'] += any((not sp[i]) and any(sp[i + 1:]) for i in range(len(sp)))
            d['sidpy_one_sided'] += all(sp) or not any(sp)
    return d
