"""C20 — read-side operations work on read-only files and never change the file."""
import os
import io
import sys
import hashlib
import contextlib
import warnings
import numpy as np
import h5py
import gen
from core import derived_rng, err_of
from props.C07 import gen_sel, _py_sel

REQUIRED_THEOREMS = ['Usid.C20.read_frame', 'Usid.C20.history_independent_reads', 'Usid.C20.write_refused',
                     'Usid.C20.ro_never_changes', 'Usid.C20.rw_write_changes', 'Usid.C20.table_functional']
RULE = ('[also: parameter comparison with a nested dictionary] [also: unit values queried for an ancillary pair whose indices do not start at 0] [also: a Process merely CONSTRUCTED on a writable file whose earlier results carry two disagreeing progress records] [also: a process started on a read-only file that already holds its complete results] [also: every file holds a results group whose source reference is stale] [also: every file holds a dataset that is a Main dataset but for the labels / units of one ancillary] [also: a TARGET group in another file - results group, process, empty dataset written to it and look-ups in it - under every combination of open modes of the source and target files] generator files (a Main dataset with 1-3 dimensions per side, its ancillaries, 0-2 groups of earlier results '
        'holding their own Main dataset, a decoy group, plain datasets) opened "r" and "r+"; random sequences (<= 8 '
        'quick, <= 20 thorough) of the 24 read-side operations with generated arguments; after EVERY operation the '
        'SHA-256 of the file on disk (read-only) and a canonical dump of every dataset and attribute through the open '
        'handle (both modes) are compared with the initial ones; every result is recomputed on a fresh handle and a '
        'fresh wrapper whose flag is the initial one flipped once per earlier toggle; every h5py entry point that '
        'modifies a file is traced during each operation; each of the 13 write-side entry points is called on a '
        'read-only handle (alone and in the middle of read sequences) and on a writable one; non-trivial = a sequence '
        'with >= 1 toggle and >= 4 operations, or a write-side call')
TRUSTED = ['that an operation emits no modifying h5py call is OBSERVED by tracing (Dataset.__setitem__/resize/write_direct, '
           'AttributeManager.create/modify/__delitem__, Group.create_dataset/create_group/__setitem__/__delitem__/copy/move) '
           'for the generated inputs, not proved about the Python source; the theorems are conditional on it']

READ_OPS = ['check_if_main', 'wrap', 'repr', 'print_tree', 'get_all_main', 'find_dataset', 'find_results_groups',
            'check_for_old', 'check_for_matching_attrs', 'get_source_dataset', 'get_n_dim_form', 'reshape_to_n_dims',
            'slice', 'slice_2d', 'reduce_mem', 'get_unit_values', 'get_pos_values', 'get_spec_values', 'get_sort_order',
            'get_dimensionality', 'getitem', 'labels_sizes', 'get_current_sorting',
            # constructing a Process looks earlier results up (it is compute() that writes); refused on read-only files
            'process_construct']
WRITE_OPS = ['create_indexed_group', 'create_results_group', 'write_ind_val_dsets', 'write_main_dataset',
             'create_empty_dataset', 'slice_to_dataset', 'reduce_to_file', 'link_as_main', 'write_reduced_anc_dsets',
             'process_init', 'copy_main_attributes', 'write_book_keeping_attrs', 'write_sidpy_dataset']
PARMS = {'p': 1, 'q': 'text'}
TARGET_OPS = ['create_results_group', 'process', 'create_empty_dataset', 'find_results_groups', 'check_for_old']
TARGET_WRITES = ['create_results_group', 'process', 'create_empty_dataset']


# ---------------------------------------------------------------- generation
def _gen_op(rng, ds, name=None):
    name = name or rng.choice(READ_OPS + ['toggle_sorting'] * 4)
    pos, spec = ds['pos'], ds['spec']
    labs = pos['labels'] + spec['labels']
    sizes = pos['sizes'] + spec['sizes']
    op = {'name': name}
    if name == 'check_if_main':
        op['target'] = rng.choice(['main', 'plain', 'anc', 'res', 'older'])
    elif name == 'print_tree':
        op['main_only'] = rng.random() < 0.5
        op['rel'] = rng.random() < 0.5
    elif name == 'find_dataset':
        op['dset'] = rng.choice(['main', 'Position_Indices', 'plain', 'absent'])
    elif name in ('find_results_groups', 'check_for_old'):
        op['tool'] = rng.choice(['Fit', 'Fit', 'Fitting', 'None'])
        op['parms'] = rng.choice([None, dict(PARMS), {'p': 2, 'q': 'text'}, {'p': 1}])
        op['parent'] = rng.random() < 0.4          # the optional parent-group keyword
        op['target'] = rng.choice([None, None, 'Res', 'absent'])
    elif name == 'check_for_matching_attrs':
        op['parms'] = rng.choice([dict(PARMS), {'p': 2}, {'zz': 3}, {},
                                  # a nested dictionary (stored by the attribute writer as a sub-group of that name)
                                  {'p': 1, 'window': {'size': 5}}, {'p': 1, 'window': {'size': 5}}])
    elif name == 'get_n_dim_form':
        op['lazy'] = rng.random() < 0.5
        op['as_scalar'] = rng.random() < 0.3
    elif name == 'reshape_to_n_dims':
        op['sort'] = rng.random() < 0.5
        op['lazy'] = rng.random() < 0.3
        op['verbose'] = rng.random() < 0.2
    elif name in ('slice', 'slice_2d'):
        sd, have_list = [], False          # valid requests only: in-range, non-empty, at most one index list
        for lab, sz in zip(labs, sizes):
            if rng.random() < 0.5:
                kind = rng.choice(['int', 'slice', 'list', 'full'])
                if kind == 'list' and have_list:
                    kind = 'int'
                if kind == 'slice':
                    a = rng.randint(0, sz - 1)
                    v = {'t': 'slice', 'a': a, 'b': rng.randint(a + 1, sz), 's': rng.choice([None, 1, 2])}
                elif kind == 'list':
                    have_list = True
                    v = {'t': 'list', 'l': sorted(rng.sample(range(sz), rng.randint(1, sz))), 'as': 'list'}
                else:
                    v = gen_sel(rng, sz, kind)
                sd.append({'k': lab, 'v': v})
        op['sd'] = sd
        op['lazy'] = rng.random() < 0.3
        op['as_scalar'] = rng.random() < 0.2
        op['verbose'] = rng.random() < 0.2
    elif name == 'reduce_mem':
        k = rng.randint(1, len(labs))
        op['dims'] = sorted(rng.sample(labs, k))
        op['ufunc'] = rng.choice(['mean', 'sum', 'max'])
        op['dset_name'] = rng.choice([None, None, 'Reduced_Named'])      # a documented keyword of reduce()
        op['verbose'] = rng.random() < 0.2
    elif name in ('get_unit_values', 'get_sort_order', 'get_dimensionality'):
        op['side'] = rng.choice(['pos', 'spec'])
        side = pos if op['side'] == 'pos' else spec
        op['dim_names'] = rng.choice([None, None, [rng.choice(side['labels'])]])
        op['verbose'] = rng.random() < 0.2
    elif name == 'get_pos_values':
        op['label'] = rng.choice(pos['labels'])
    elif name == 'get_spec_values':
        op['label'] = rng.choice(spec['labels'])
    elif name == 'getitem':
        n, m = gen.n_points(pos), gen.n_points(spec)
        r0, c0 = rng.randint(0, n - 1), rng.randint(0, m - 1)
        op['key'] = [r0, rng.randint(r0 + 1, n), c0, rng.randint(c0 + 1, m)]
    return op


def _gen_ds(rng):
    """two or more position dimensions, the first with >= 2 values (so that slicing / reducing it to a file
    is a valid request); never more dimensions than points on a side"""
    while True:
        ds = gen.gen_dataset(rng, max_dims=3, max_size=3)
        n, m = gen.n_points(ds['pos']), gen.n_points(ds['spec'])
        if n * m <= 150 and all(len(s['sizes']) <= gen.n_points(s) for s in (ds['pos'], ds['spec'])) \
                and len(ds['pos']['sizes']) >= 2 and ds['pos']['sizes'][0] >= 2 and gen.n_points(ds['pos']) > ds['pos']['sizes'][0]:
            return ds


def generate(seed, tier):
    n_seq, max_len, n_write = {'quick': (70, 8, 1), 'thorough': (600, 20, 6), 'search': (300, 12, 2)}[tier]
    cases = []
    for i in range(n_seq):
        rng = derived_rng(seed, 'C20s', i)
        ds = _gen_ds(rng)
        mode = 'r' if i % 2 == 0 else 'r+'
        ops = [{'name': 'wrap'}]
        for _ in range(rng.randint(2, max_len)):
            if mode == 'r' and rng.random() < 0.08:
                wn = rng.choice(WRITE_OPS)
                ops.append({'name': wn, 'target': rng.choice(['group', 'file', 'dataset', 'main', 'usid'])}
                           if wn == 'write_book_keeping_attrs' else {'name': wn})
            else:
                ops.append(_gen_op(rng, ds))
        cases.append({'kind': 'seq', 'ds': ds, 'nres': rng.choice([0, 1, 2]), 'mode': mode, 'flag0': rng.random() < 0.5,
                      'legacy': rng.random() < 0.4, 'ops': ops})
    j = 0
    for rep in range(n_write):
        for w in WRITE_OPS:
            for mode in ('r', 'r+'):
                rng = derived_rng(seed, 'C20w', j)
                j += 1
                wop = {'name': w}
                if w == 'write_book_keeping_attrs':
                    wop['target'] = ['group', 'file', 'dataset', 'main', 'usid'][(j // 2) % 5]
                cases.append({'kind': 'seq', 'ds': _gen_ds(rng), 'nres': rng.choice([0, 1]), 'mode': mode, 'flag0': False,
                              'ops': [{'name': 'wrap'}, wop]})
                if w == 'process_init' and mode == 'r':
                    # ... also on a file that already holds the COMPLETE results of that very process: starting it on a
                    # read-only target must still be refused (on a writable one the earlier results are handed back)
                    cases.append({'kind': 'seq', 'ds': _gen_ds(rng), 'nres': 0, 'mode': mode, 'flag0': False,
                                  'done_proc': True, 'ops': [{'name': 'wrap'}, {'name': w}]})
                if w == 'write_book_keeping_attrs' and rep == 0:
                    for tg in ('file', 'dataset', 'main', 'usid'):
                        cases.append({'kind': 'seq', 'ds': _gen_ds(rng), 'nres': 0, 'mode': mode, 'flag0': False,
                                      'ops': [{'name': 'wrap'}, {'name': w, 'target': tg}]})
    # a TARGET distinct from the source: results written to / looked up in a group of another file, in every
    # combination of open modes of the two files
    for rep in range({'quick': 1, 'thorough': 4, 'search': 2}[tier]):
        for t_op in TARGET_OPS:
            for sa, ta in (('r', 'r+'), ('r+', 'r'), ('r', 'r'), ('r+', 'r+')):
                rng = derived_rng(seed, 'C20t', len(cases))
                cases.append({'kind': 'target', 'ds': _gen_ds(rng), 'nres': 1, 'mode': sa, 'target_mode': ta, 'op': t_op,
                              'flag0': False, 'ops': [], 'root': rng.random() < 0.5})
    return cases


# ---------------------------------------------------------------- file, dump, tracing
def _make_file(inp, path):
    ds = inp['ds']
    n, m = gen.n_points(ds['pos']), gen.n_points(ds['spec'])
    with h5py.File(path, 'w') as f:
        g = f.create_group('G')
        main = gen.write_usid(g, ds)
        g.create_dataset('plain', data=np.arange(6).reshape(2, 3))
        g.create_dataset('plain_same', data=np.zeros((n, m)))
        for k in range(inp['nres']):
            rg = g.create_group('main-Fit_%03d' % k)
            if not (inp.get('legacy') and k == inp['nres'] - 1):      # a legacy group carries no 'tool' attribute
                rg.attrs['tool'] = 'Fit'
            rg.attrs['machine_id'] = 'verif'
            rg.attrs['timestamp'] = 'none'
            rg.attrs['source_000'] = main.ref
            for key, v in (PARMS if k == 0 else {'p': 2, 'q': 'text'}).items():
                rg.attrs[key] = v
            gen.write_usid(rg, ds, name='Res')
            if k == 0:
                # an interrupted run's two progress records, which disagree (the attribute is written before the marks)
                st = np.zeros(n, dtype=np.uint8)
                st[0] = 1
                rg.create_dataset('completed_positions', data=st)
                rg.attrs['last_pixel'] = n
        decoy = g.create_group('main-Fitting_000')
        decoy.attrs['p'] = 1
        # a spectroscopic ancillary pair whose indices do not start at 0 (kept from a parent dataset after slicing)
        shi = g.create_dataset('Shifted_Indices', data=np.array([[1, 2, 3, 1, 2, 3], [4, 4, 4, 5, 5, 5]], dtype=np.uint32))
        shv = g.create_dataset('Shifted_Values', data=np.array([[5, 6, 7, 5, 6, 7], [10, 10, 10, 20, 20, 20]], dtype=np.float32))
        for d_ in (shi, shv):
            d_.attrs['labels'] = np.array(['A', 'B'], dtype='S')
            d_.attrs['units'] = np.array(['u', 'u'], dtype='S')
        if inp.get('done_proc'):
            import procs
            procs.make_prior_group(g, 'main', 'RowProc', {'zz': 1}, n, mask=[1] * n, source=main)
        # a results group whose recorded source reference no longer resolves (the referenced object was deleted): the
        # source is then recovered from the group's name - a look-up, which must not touch the stale attribute
        sg = g.create_group('main-Old_000')
        sg.attrs['tool'] = 'Old'
        gone = g.create_dataset('gone', data=np.zeros(2))
        sg.attrs['source_000'] = gone.ref
        del g['gone']
        # a Main dataset WITHOUT an N-dimensional form (a raster scan that was aborted: the last positions are missing)
        # whose ancillaries are not marked as incomplete: every read-side call that meets it must leave it as it is
        pg = g.create_group('Partial')
        a_, b_ = 3, 4
        npart = a_ * b_ - 2
        pidx = np.array([[i % a_, i // a_] for i in range(npart)], dtype=np.uint32)
        pm = pg.create_dataset('part', data=np.arange(npart * 2, dtype=np.float64).reshape(npart, 2))
        pm.attrs['quantity'] = 'q'
        pm.attrs['units'] = 'u'
        for nm_, arr_, labs_ in (('Position_Indices', pidx, ['PX', 'PY']), ('Position_Values', pidx.astype(np.float64), ['PX', 'PY']),
                                 ('Spectroscopic_Indices', np.array([[0, 1]], dtype=np.uint32), ['S']),
                                 ('Spectroscopic_Values', np.array([[0.0, 1.0]]), ['S'])):
            d_ = pg.create_dataset(nm_, data=arr_)
            d_.attrs['labels'] = np.array(labs_, dtype='S')
            d_.attrs['units'] = np.array(['u'] * len(labs_), dtype='S')
            pm.attrs[nm_] = d_.ref
        # a dataset that is a Main dataset in everything but the description of ONE of its ancillaries (labels and /
        # or units missing there, present on its sibling): recognising it must answer "not main" and touch nothing
        og = g.create_group('Older')
        gen.write_usid(og, ds, name='almost')
        pick = (n * 7 + m * 3 + len(ds['pos']['sizes'])) % 6
        victim = og[['Position_Values', 'Position_Indices', 'Spectroscopic_Values', 'Spectroscopic_Indices',
                     'Position_Values', 'Spectroscopic_Values'][pick]]
        for a in (['labels', 'units'], ['labels', 'units'], ['units'], ['labels'], ['units'], ['labels', 'units'])[pick]:
            del victim.attrs[a]


def _sha(path):
    with open(path, 'rb') as fh:
        return hashlib.sha256(fh.read()).hexdigest()


def _dump(f):
    out = {}

    def attrs(o):
        a = {}
        for k in sorted(o.attrs.keys()):
            v = o.attrs[k]
            if isinstance(v, h5py.Reference):
                try:
                    a[k] = 'ref:' + (f[v].name if v else 'null')
                except (KeyError, ValueError):
                    a[k] = 'ref:stale'
            else:
                arr = np.asarray(v)
                a[k] = str(arr.dtype) + str(arr.shape) + hashlib.sha1(arr.tobytes()).hexdigest()[:12]
        return a

    def visit(name, o):
        if isinstance(o, h5py.Dataset):
            out[name] = ['D', str(o.dtype), list(o.shape), hashlib.sha1(np.ascontiguousarray(o[()]).tobytes()).hexdigest()[:16],
                         attrs(o)]
        else:
            out[name] = ['G', attrs(o)]
    f.visititems(visit)
    out['/'] = ['G', attrs(f)]
    return out


class WriteTracer(object):
    """counts calls of h5py's file-modifying entry points (outermost only)"""
    TARGETS = [(h5py.Dataset, '__setitem__'), (h5py.Dataset, 'resize'), (h5py.Dataset, 'write_direct'),
               (h5py.AttributeManager, 'create'), (h5py.AttributeManager, 'modify'), (h5py.AttributeManager, '__delitem__'),
               (h5py.AttributeManager, '__setitem__'),
               (h5py.Group, 'create_dataset'), (h5py.Group, 'create_group'), (h5py.Group, '__setitem__'),
               (h5py.Group, '__delitem__'), (h5py.Group, 'copy'), (h5py.Group, 'move'),
               (h5py.Group, 'create_dataset_like'), (h5py.Group, 'create_virtual_dataset')]

    def __init__(self):
        self.events = []
        self.depth = 0

    @contextlib.contextmanager
    def installed(self):
        tr = self
        orig = {}

        def make(cls, name, f):
            def g(self_, *a, **k):
                if tr.depth == 0:
                    tr.events.append('%s.%s' % (cls.__name__, name))
                tr.depth += 1
                try:
                    return f(self_, *a, **k)
                finally:
                    tr.depth -= 1
            return g
        for cls, name in self.TARGETS:
            if name in cls.__dict__:
                orig[(cls, name)] = cls.__dict__[name]
                setattr(cls, name, make(cls, name, orig[(cls, name)]))
        try:
            yield self
        finally:
            for (cls, name), f in orig.items():
                setattr(cls, name, f)


def _dig(x):
    """canonical, JSON-able digest of a result"""
    import dask.array as da
    if x is None or isinstance(x, (bool, str)):
        return x
    if isinstance(x, bytes):
        return x.decode()
    if isinstance(x, (h5py.Dataset, h5py.Group)):
        return 'h5:' + x.name
    if isinstance(x, da.core.Array):
        x = x.compute()
    if isinstance(x, np.ndarray):
        if x.dtype.kind in 'iufb':
            return ['arr', list(x.shape), [round(float(v), 4) if v == v else 'nan' for v in x.ravel()]]
        return ['arr', list(x.shape), [_dig(v) for v in x.ravel().tolist()]]
    if isinstance(x, (np.integer, int)):
        return int(x)
    if isinstance(x, (np.floating, float)):
        return round(float(x), 4) if x == x else 'nan'
    if isinstance(x, (np.bool_,)):
        return bool(x)
    if isinstance(x, dict):
        return {str(k): _dig(v) for k, v in sorted(x.items(), key=lambda kv: str(kv[0]))}
    if isinstance(x, (list, tuple)):
        return [_dig(v) for v in x]
    if isinstance(x, slice):
        return ['slice', x.start, x.stop, x.step]
    return 'obj:' + type(x).__name__


class Ctx(object):
    def __init__(self, f, flag):
        self.f = f
        self.g = f['G']
        self.main = f['G/main']
        self.flag = flag
        self.u = None


def _capture(fn):
    buf = io.StringIO()
    old = sys.stdout
    sys.stdout = buf
    try:
        with warnings.catch_warnings():
            warnings.simplefilter('ignore')
            r = fn()
    finally:
        sys.stdout = old
    return r, buf.getvalue()


def _do(op, cx, inp):
    """perform one operation; returns its digest"""
    import dask.array as da
    from pyUSID import USIDataset
    from pyUSID.io import hdf_utils as hu
    from pyUSID.io.dimension import Dimension
    name = op['name']
    u, f, g, main = cx.u, cx.f, cx.g, cx.main
    ds = inp['ds']
    if name == 'wrap':
        cx.u = USIDataset(main, sort_dims=cx.flag)
        u = cx.u
        return _dig([u.n_dim_labels, u.n_dim_sizes, u.pos_dim_labels, u.spec_dim_labels])
    if name == 'toggle_sorting':
        u.toggle_sorting()
        return None
    if name == 'check_if_main':
        tgt = {'main': main, 'plain': g['plain'], 'anc': g['Position_Indices'],
               'res': g['main-Fit_000/Res'] if 'main-Fit_000' in g else g['plain_same'],
               'older': g['Older/almost']}[op['target']]
        return bool(hu.check_if_main(tgt))
    if name == 'repr':
        return [repr(u), str(u)]
    if name == 'print_tree':
        return _capture(lambda: hu.print_tree(f, rel_paths=op['rel'], main_dsets_only=op['main_only']))[1]
    if name == 'get_all_main':
        return sorted(x.name for x in hu.get_all_main(f))
    if name == 'find_dataset':
        return sorted(x.name for x in hu.find_dataset(f, op['dset']))
    if name == 'find_results_groups':
        kw = {'h5_parent_group': main.parent} if op.get('parent') else {}
        return sorted(x.name for x in hu.find_results_groups(main, op['tool'], **kw))
    if name == 'check_for_old':
        kw = {'h5_parent_goup': main.parent} if op.get('parent') else {}
        if op.get('target'):
            kw['target_dset'] = op['target']
        return sorted(x.name for x in hu.check_for_old(main, op['tool'], new_parms=op['parms'], **kw))
    if name == 'check_for_matching_attrs':
        tgt = g['main-Fit_000'] if 'main-Fit_000' in g else g['main-Fitting_000']
        return bool(hu.check_for_matching_attrs(tgt, new_parms=op['parms']))
    if name == 'process_construct':
        if f.mode == 'r':
            return 'refused-by-design'
        from procs import make_proc_class
        import io as _io
        with contextlib.redirect_stdout(_io.StringIO()):
            p = make_proc_class()(main, process_name='Fit', parms=dict(PARMS))
        return [sorted(x.name for x in p.duplicate_h5_groups), sorted(x.name for x in p.partial_h5_groups)]
    if name == 'get_source_dataset':
        stale = _dig(hu.get_source_dataset(g['main-Old_000']))
        if 'main-Fit_000' not in g:
            return ['no-results', stale]
        return [_dig(hu.get_source_dataset(g['main-Fit_000'])), stale]
    if name == 'get_n_dim_form':
        return _dig(u.get_n_dim_form(lazy=op['lazy'], as_scalar=op.get('as_scalar', False)))
    if name == 'reshape_to_n_dims':
        return _dig(hu.reshape_to_n_dims(main, get_labels=True, sort_dims=op['sort'], lazy=op.get('lazy', False),
                                         verbose=op.get('verbose', False)))
    if name in ('slice', 'slice_2d'):
        sd = {x['k']: _py_sel(x['v']) for x in op['sd']}
        return _dig(u.slice(sd, ndim_form=(name == 'slice'), lazy=op['lazy'], as_scalar=op.get('as_scalar', False),
                            verbose=op.get('verbose', False)))
    if name == 'reduce_mem':
        kw = {}
        if op.get('dset_name'):
            kw['dset_name'] = op['dset_name']
        return _dig(u.reduce(op['dims'], ufunc={'mean': da.mean, 'sum': da.sum, 'max': da.max}[op['ufunc']], to_hdf5=False,
                             verbose=op.get('verbose', False), **kw))
    if name == 'get_unit_values':
        shifted = _dig(hu.get_unit_values(g['Shifted_Indices'], g['Shifted_Values'], is_spec=True))
        if op['side'] == 'pos':
            return [_dig(hu.get_unit_values(u.h5_pos_inds, u.h5_pos_vals, is_spec=False, dim_names=op.get('dim_names'),
                                            verbose=op.get('verbose', False))), shifted]
        return [_dig(hu.get_unit_values(u.h5_spec_inds, u.h5_spec_vals, is_spec=True, dim_names=op.get('dim_names'),
                                        verbose=op.get('verbose', False))), shifted]
    if name == 'get_pos_values':
        return _dig(u.get_pos_values(op['label']))
    if name == 'get_spec_values':
        return _dig(u.get_spec_values(op['label']))
    if name == 'get_sort_order':
        a = np.transpose(u.h5_pos_inds) if op['side'] == 'pos' else np.atleast_2d(u.h5_spec_inds)
        so = hu.get_sort_order(a)
        dim = hu.get_dimensionality(a)
        # argsort ties (dimensions of equal change count) are not ordered: report the change-count classes
        return _dig(sorted(int(dim[i]) for i in so))
    if name == 'get_dimensionality':
        a = np.transpose(u.h5_pos_inds) if op['side'] == 'pos' else np.atleast_2d(u.h5_spec_inds)
        return _dig(hu.get_dimensionality(a))
    if name == 'getitem':
        k = op['key']
        return _dig(u[k[0]:k[1], k[2]:k[3]])
    if name == 'labels_sizes':
        return _dig([u.n_dim_labels, u.n_dim_sizes, u.pos_dim_labels, u.pos_dim_sizes, u.spec_dim_labels,
                     u.spec_dim_sizes, u.data_descriptor, [str(x) for x in u.pos_dim_descriptors]])
    if name == 'get_current_sorting':
        return _capture(u.get_current_sorting)[1]
    # ---- write side
    if name == 'create_indexed_group':
        return _dig(hu.create_indexed_group(g, 'Thing'))
    if name == 'create_results_group':
        return _dig(hu.create_results_group(main, 'Fit'))
    if name == 'write_ind_val_dsets':
        return _dig(hu.write_ind_val_dsets(g, [Dimension('a', 'b', 2)], is_spectral=True, base_name='New'))
    if name == 'write_main_dataset':
        return _dig(hu.write_main_dataset(g, np.zeros((2, 2)), 'NewMain', 'q', 'u', [Dimension('a', 'b', 2)],
                                          [Dimension('c', 'd', 2)], aux_pos_prefix='NP_', aux_spec_prefix='NS_'))
    if name == 'create_empty_dataset':
        return _dig(hu.create_empty_dataset(main, np.float32, 'Empty'))
    if name == 'slice_to_dataset':
        return _dig(u.slice_to_dataset({ds['pos']['labels'][0]: 0}))
    if name == 'reduce_to_file':
        return _dig(u.reduce([ds['pos']['labels'][0]], to_hdf5=True))
    if name == 'link_as_main':
        return _dig(hu.link_as_main(g['plain_same'], u.h5_pos_inds, u.h5_pos_vals, u.h5_spec_inds, u.h5_spec_vals))
    if name == 'write_reduced_anc_dsets':
        return _dig(hu.write_reduced_anc_dsets(g, u.h5_spec_inds, u.h5_spec_vals, ds['spec']['labels'][0], basename='Red', is_spec=True))
    if name == 'process_init':
        from procs import make_proc_class
        p = make_proc_class()(main, parms={'zz': 1})
        p.compute()
        return 'computed'
    if name == 'copy_main_attributes':
        hu.copy_main_attributes(main, g['plain'])
        return None
    if name == 'write_book_keeping_attrs':
        # every kind of object the function accepts: a group, the file, a plain dataset, the Main dataset, its wrapper
        tgt = {'group': g, 'file': f, 'dataset': g['plain'], 'main': main, 'usid': u}[op.get('target', 'group')]
        hu.write_book_keeping_attrs(tgt)
        return None
    if name == 'write_sidpy_dataset':
        import sidpy
        sd = sidpy.Dataset.from_array(np.zeros((2, 2)), name='Sid')
        sd.quantity, sd.units = 'q', 'u'
        sd.set_dimension(0, sidpy.Dimension(np.arange(2), name='a', units='b', quantity='c', dimension_type='spatial'))
        sd.set_dimension(1, sidpy.Dimension(np.arange(2), name='d', units='e', quantity='f', dimension_type='spectral'))
        return _dig(hu.write_sidpy_dataset(sd, f))
    raise KeyError(name)


def _run_op(op, cx, inp):
    try:
        r, _ = _capture(lambda: _do(op, cx, inp))
        return {'ok': r}
    except Exception as e:    # noqa
        return {'err': err_of(e), 'cls': type(e).__name__}


def _run_target(inp, work):
    from pyUSID.io import hdf_utils as hu
    pa, pb = os.path.join(work, 'a.h5'), os.path.join(work, 'b.h5')
    _make_file(inp, pa)
    with h5py.File(pb, 'w') as fb:
        tg = fb.create_group('T')
        old = tg.create_group('main-Fit_000')
        old.attrs['tool'] = 'Fit'
        for key, v in PARMS.items():
            old.attrs[key] = v
        fb.attrs['marker'] = 1
    sha = {'a': _sha(pa), 'b': _sha(pb)}
    with h5py.File(pa, 'r') as f:
        da0 = _dump(f)
    with h5py.File(pb, 'r') as f:
        db0 = _dump(f)
    fa, fb = h5py.File(pa, inp['mode']), h5py.File(pb, inp['target_mode'])
    out = {}
    try:
        main = fa['G/main']
        tgt = fb if inp.get('root') else fb['T']
        op = inp['op']

        def do():
            if op == 'create_results_group':
                return _dig(hu.create_results_group(main, 'Fit', h5_parent_group=tgt))
            if op == 'process':
                from procs import make_proc_class
                p = make_proc_class()(main, parms={'zz': 1}, h5_target_group=tgt)
                p.compute()
                return 'computed'
            if op == 'create_empty_dataset':
                return _dig(hu.create_empty_dataset(main, np.float32, 'Empty', h5_group=tgt))
            if op == 'find_results_groups':
                return _dig(sorted(x.name for x in hu.find_results_groups(main, 'Fit', h5_parent_group=tgt)))
            return _dig(sorted(x.name for x in hu.check_for_old(main, 'Fit', new_parms=dict(PARMS), h5_parent_goup=tgt)))
        try:
            r, _ = _capture(do)
            out['res'] = {'ok': r}
        except Exception as e:    # noqa
            out['res'] = {'err': err_of(e), 'cls': type(e).__name__}
    finally:
        fa.close()
        fb.close()
    out['sha_same'] = {'a': _sha(pa) == sha['a'], 'b': _sha(pb) == sha['b']}
    with h5py.File(pa, 'r') as f:
        out['dump_a_same'] = _dump(f) == da0
    with h5py.File(pb, 'r') as f:
        out['dump_b_same'] = _dump(f) == db0
    return out


def _oracle_target(inp, obs):
    fails = []
    what = '%s with the source opened %r and the target file opened %r' % (inp['op'], inp['mode'], inp['target_mode'])
    is_write = inp['op'] in TARGET_WRITES
    if inp['mode'] == 'r' and not obs['sha_same']['a']:
        fails.append('ro-changed: the read-only SOURCE file changed after %s' % what)
    if inp['target_mode'] == 'r' and not obs['sha_same']['b']:
        fails.append('ro-changed: the read-only TARGET file changed after %s' % what)
    if not obs['dump_a_same']:
        fails.append('changed: datasets / attributes of the source file changed after %s' % what)
    if is_write:
        if inp['target_mode'] == 'r' and 'err' not in obs['res']:
            fails.append('write-accepted: %s did not raise' % what)
        if inp['target_mode'] == 'r+' and 'err' in obs['res']:
            fails.append('write-raises: %s raised %s although the target is writable' % (what, obs['res']['cls']))
    else:
        if 'err' in obs['res']:
            fails.append('read-raises: %s raised %s' % (what, obs['res']['cls']))
        if not obs['dump_b_same']:
            fails.append('changed: the target file changed after the look-up %s' % what)
    return fails


def run_impl(inp, work):
    if inp.get('kind') == 'target':
        return _run_target(inp, work)
    path = os.path.join(work, 'a.h5')
    _make_file(inp, path)
    sha0 = _sha(path)
    with h5py.File(path, 'r') as f:
        dump0 = _dump(f)
    out = {'ops': []}
    flag = inp['flag0']
    flags = []
    f = h5py.File(path, inp['mode'])
    try:
        cx = Ctx(f, flag)
        for op in inp['ops']:
            flags.append(flag)
            cx.flag = flag                      # a re-wrap keeps the current sorting
            tr = WriteTracer()
            with tr.installed():
                res = _run_op(op, cx, inp)
            rec = {'name': op['name'], 'res': res, 'writes': tr.events}
            rec['dump_same'] = _dump(f) == dump0
            if inp['mode'] == 'r':
                rec['sha_same'] = _sha(path) == sha0
            out['ops'].append(rec)
            if op['name'] == 'toggle_sorting' and 'ok' in res:
                flag = not flag
    finally:
        f.close()
    out['final_sha_same'] = _sha(path) == sha0
    with h5py.File(path, 'r') as f2:
        out['final_dump_same'] = _dump(f2) == dump0
    # recompute every read-side result on a fresh handle + fresh wrapper with the predicted flag
    if out['final_dump_same']:
        with h5py.File(path, 'r') as f3:
            for op, fl, rec in zip(inp['ops'], flags, out['ops']):
                if op['name'] in WRITE_OPS or op['name'] in ('toggle_sorting', 'process_construct'):
                    continue        # (a Process cannot be constructed on the read-only handle used for the recomputation)
                cx2 = Ctx(f3, fl)
                _run_op({'name': 'wrap'}, cx2, inp)
                rec['fresh'] = _run_op(op, cx2, inp)
    out['flags'] = flags
    return out


def oracle(inp, obs):
    if inp.get('kind') == 'target':
        return _oracle_target(inp, obs)
    fails = []
    ro = inp['mode'] == 'r'
    for i, (op, rec) in enumerate(zip(inp['ops'], obs['ops'])):
        name = op['name']
        where = '%s (operation %d, mode %s)' % (name, i, inp['mode'])
        is_write = name in WRITE_OPS
        if not is_write:
            if 'err' in rec['res']:
                fails.append('read-raises: %s raised %s' % (where, rec['res']['cls']))
            if not rec['dump_same']:
                fails.append('changed: the file content changed after %s' % where)
            if 'fresh' in rec and rec['fresh'] != rec['res']:
                fails.append('history-dependent: %s returned something else than on a fresh wrapper of the same file' % where)
        if ro:
            if not rec['sha_same'] or not rec['dump_same']:
                fails.append('ro-changed: the read-only file changed after %s' % where)
            if is_write and 'err' not in rec['res']:
                fails.append('write-accepted: %s did not raise on a read-only file' % where)
        elif is_write:
            if 'err' in rec['res']:
                fails.append('write-raises: %s raised %s on a writable file' % (where, rec['res']['cls']))
    if ro and not (obs['final_sha_same'] and obs['final_dump_same']):
        fails.append('ro-changed: the read-only file differs after closing')
    if not ro and not any(o['name'] in WRITE_OPS for o in inp['ops']) and not obs['final_dump_same']:
        fails.append('changed: datasets / attributes of the writable file differ after closing')
    return fails


def nontrivial(inp, obs):
    if inp.get('kind') == 'target':
        return True
    names = [o['name'] for o in inp['ops']]
    return (names.count('toggle_sorting') >= 1 and len(names) >= 4) or any(n in WRITE_OPS for n in names)


def _trace(inp, rec):
    """the primitive trace handed to the model: one read, the modifying h5py calls observed, and - when a
    write-side call raised on a read-only file before reaching any of them - the library's own guard"""
    t = ['r'] + ['w'] * len(rec['writes'])
    if inp['mode'] == 'r' and rec['name'] in WRITE_OPS and not rec['writes'] and 'err' in rec['res']:
        t.append('g')
    return t


def model_requests_obs(inp, obs):
    if inp.get('kind') == 'target':
        return []
    calls = [{'name': rec['name'], 'trace': _trace(inp, rec)} for rec in obs['ops']]
    return [{'op': 'ro.run', 'mode': inp['mode'], 'flag': inp['flag0'], 'calls': calls}]


def model_compare(inp, obs, resp):
    notes = []
    if inp.get('kind') == 'target':
        return notes
    for i, (rec, m, fl) in enumerate(zip(obs['ops'], resp[0], obs['flags'])):
        tag = '%s (operation %d, mode %s)' % (rec['name'], i, inp['mode'])
        if not m['conforms']:
            notes.append('%s: kind %s but modifying calls %s' % (tag, m['kind'], rec['writes'][:4]))
        impl_err = 'err' in rec['res']
        model_err = m['err'] is not None
        if impl_err != model_err:
            notes.append('%s: impl %s, model %s' % (tag, 'raised' if impl_err else 'returned', 'raises' if model_err else 'returns'))
        if m['kind'] != 'write' and m['changed'] != (not rec['dump_same']):
            notes.append('%s: file changed impl %s model %s' % (tag, not rec['dump_same'], m['changed']))
        if m['flag'] != fl:
            notes.append('%s: flag impl %s model %s' % (tag, fl, m['flag']))
    return notes


def distribution(cases, obs):
    d = {'r': 0, 'r+': 0, 'ops': 0, 'toggles': 0, 'write_calls': 0, 'read_errors': 0}
    per = {}
    d['target_cases'] = sum(1 for c in cases if c.get('kind') == 'target')
    for c, o in zip(cases, obs):
        if c.get('kind') == 'target':
            continue
        d[c['mode']] += 1
        for op, rec in zip(c['ops'], o['ops']):
            d['ops'] += 1
            per[op['name']] = per.get(op['name'], 0) + 1
            d['toggles'] += op['name'] == 'toggle_sorting'
            d['write_calls'] += op['name'] in WRITE_OPS
            d['read_errors'] += op['name'] not in WRITE_OPS and 'err' in rec['res']
    d['distinct_ops'] = len(per)
    d['min_per_op'] = min(per.values()) if per else 0
    return d
