"""Translate a whitelisted, integer-only subset of Python (one function / method body) into a Lean 4
`Except PyErr` do-block with `let mut`.  Run on every check of C14 / C15: the theorems in
Usid/Properties/C14.lean and C15.lean are stated about the GENERATED definitions, so they are
re-checked by the Lean kernel against what /repo's source says now.

Anything outside the subset raises Unsupported -> reported as a broken obligation by the check.

Grammar accepted
  statements : docstring, print(...) [dropped], x = e, self.attr = e, if/elif/else, raise E(...), return e, pass
  expressions: int constants, names / attributes bound in the environment, + - * //, int(a / b) [floor division
               of non-negative operands, with an explicit ZeroDivisionError], int(e), int(<comparison>) [0/1],
               abs(e), min(a,b), max(a,b), unary -, c ** k for integer constants, opaque expressions given by a
               per-function table
  float-valued expressions (type Q: an exact fraction `PyQ`, IEEE rounding NOT modelled): Q-typed names, a / b
               [true division, explicit ZeroDivisionError], q * e, abs(q), `x *= q`; int(np.floor(q)); q < e
  conditions : comparisons, and/or/not, `x is None` / `x is not None` for Option-typed names (turned into
               `match`), isinstance(x, int) on Int-typed names [folded to True], conditions mentioning
               `verbose` [folded to False: debugging prints], per-function constant table
"""
import ast
import os


class Unsupported(Exception):
    pass


EXC = {'TypeError': 'typeErr', 'ValueError': 'valueErr', 'ZeroDivisionError': 'zeroDiv'}
LEAN_TY = {'Int': 'Int', 'OptInt': 'Option Int', 'Bool': 'Bool', 'Q': 'PyQ'}


class Tr:
    def __init__(self, params, opaque=None, skip_stmt=None, const_conds=None, assign_override=None):
        # params: list of (python name or attribute text, lean name, type in Int|OptInt|Bool)
        self.params = params
        self.env = {p: (l, t) for p, l, t in params}
        self.opaque = opaque or {}
        self.skip_stmt = skip_stmt or (lambda src: False)
        self.const_conds = const_conds or {}
        self.assign_override = assign_override or {}
        self.out = []
        self.declared = []
        self.decl_ty = {}
        self.shadow = []

    # ---------------- expressions
    def const_false(self, e):
        if isinstance(e, ast.Name) and e.id == 'verbose':
            return True
        if isinstance(e, ast.Attribute) and ast.unparse(e) == 'self.verbose':
            return True
        if isinstance(e, ast.BoolOp) and isinstance(e.op, ast.And):
            return any(self.const_false(v) for v in e.values)
        if isinstance(e, ast.BoolOp) and isinstance(e.op, ast.Or):
            return all(self.const_false(v) for v in e.values)
        return False

    def is_q(self, e):
        k = ast.unparse(e)
        if k in self.opaque:
            return False
        if isinstance(e, (ast.Name, ast.Attribute)):
            return self.env.get(k, (None, None))[1] == 'Q'
        if isinstance(e, ast.BinOp):
            if isinstance(e.op, ast.Div):
                return True
            if isinstance(e.op, ast.Mult):
                return self.is_q(e.left) or self.is_q(e.right)
            return False
        if isinstance(e, ast.Call) and ast.unparse(e.func) == 'abs' and len(e.args) == 1:
            return self.is_q(e.args[0])
        return False

    def qexpr(self, e):
        """Lean term of type PyQ for a float-valued (or integer-valued, then embedded) expression"""
        k = ast.unparse(e)
        if not self.is_q(e):
            return '(PyQ.ofInt %s)' % self.expr(e)
        if isinstance(e, (ast.Name, ast.Attribute)):
            return self.env[k][0]
        if isinstance(e, ast.BinOp) and isinstance(e.op, ast.Div):
            return '(← pyTrueDiv %s %s)' % (self.qexpr(e.left), self.qexpr(e.right))
        if isinstance(e, ast.BinOp) and isinstance(e.op, ast.Mult):
            return '(PyQ.mul %s %s)' % (self.qexpr(e.left), self.qexpr(e.right))
        if isinstance(e, ast.Call) and ast.unparse(e.func) == 'abs':
            return '(PyQ.abs %s)' % self.qexpr(e.args[0])
        raise Unsupported('float expression ' + k)

    def expr(self, e):
        k = ast.unparse(e)
        if k in self.opaque:
            return self.opaque[k]
        if self.is_q(e):
            raise Unsupported('float-valued %s used as an integer value' % k)
        if isinstance(e, ast.Constant):
            if isinstance(e.value, bool) or not isinstance(e.value, int):
                raise Unsupported('constant ' + repr(e.value))
            return '(%d : Int)' % e.value
        if isinstance(e, (ast.Name, ast.Attribute)):
            if k not in self.env:
                raise Unsupported('unknown name ' + k)
            l, t = self.env[k]
            if t != 'Int':
                raise Unsupported('%s-typed %s used as an integer value' % (t, k))
            return l
        if isinstance(e, ast.BinOp):
            a, b = self.expr(e.left), self.expr(e.right)
            if isinstance(e.op, ast.Add):
                return '(%s + %s)' % (a, b)
            if isinstance(e.op, ast.Sub):
                return '(%s - %s)' % (a, b)
            if isinstance(e.op, ast.Mult):
                return '(%s * %s)' % (a, b)
            if isinstance(e.op, ast.FloorDiv):
                return '(← pyFloorDiv %s %s)' % (a, b)
            if isinstance(e.op, ast.Pow) and isinstance(e.left, ast.Constant) and isinstance(e.right, ast.Constant) \
                    and type(e.left.value) is int and type(e.right.value) is int and e.right.value >= 0:
                return '((%d : Int) ^ (%d : Nat))' % (e.left.value, e.right.value)
            raise Unsupported('binary operator in ' + k)
        if isinstance(e, ast.UnaryOp) and isinstance(e.op, ast.USub):
            return '(- %s)' % self.expr(e.operand)
        if isinstance(e, ast.Call):
            f = ast.unparse(e.func)
            if f == 'int' and len(e.args) == 1 and not e.keywords:
                a = e.args[0]
                if isinstance(a, ast.Call) and ast.unparse(a.func) == 'np.floor' and len(a.args) == 1 \
                        and not a.keywords and self.is_q(a.args[0]):
                    return '(PyQ.floor %s)' % self.qexpr(a.args[0])
                if isinstance(a, ast.BinOp) and isinstance(a.op, ast.Div):
                    # int(a / b): truncation of the true quotient; pyTruncDiv raises zeroDiv for b = 0
                    return '(← pyTruncDiv %s %s)' % (self.expr(a.left), self.expr(a.right))
                if isinstance(a, (ast.Compare, ast.BoolOp)):
                    return '(if %s then (1 : Int) else 0)' % self.cond(a)
                return self.expr(a)
            if f == 'abs' and len(e.args) == 1:
                return '((Int.natAbs %s : Nat) : Int)' % self.expr(e.args[0])
            if f in ('max', 'min') and len(e.args) == 2 and not e.keywords:
                return '(%s %s %s)' % (f, self.expr(e.args[0]), self.expr(e.args[1]))
        raise Unsupported('expression ' + k)

    def cond(self, e):
        k = ast.unparse(e)
        if k in self.const_conds:
            return self.const_conds[k]
        if isinstance(e, ast.BoolOp):
            op = ' ∧ ' if isinstance(e.op, ast.And) else ' ∨ '
            return '(' + op.join(self.cond(v) for v in e.values) + ')'
        if isinstance(e, ast.UnaryOp) and isinstance(e.op, ast.Not):
            return '(¬ %s)' % self.cond(e.operand)
        if isinstance(e, ast.Compare) and len(e.ops) == 1 and (self.is_q(e.left) or self.is_q(e.comparators[0])):
            a, b = e.left, e.comparators[0]
            if isinstance(e.ops[0], ast.Lt):
                return '(PyQ.lt %s %s = true)' % (self.qexpr(a), self.qexpr(b))
            if isinstance(e.ops[0], ast.Gt):
                return '(PyQ.lt %s %s = true)' % (self.qexpr(b), self.qexpr(a))
            raise Unsupported('float comparison ' + k)
        if isinstance(e, ast.Compare) and len(e.ops) == 1:
            a, b = e.left, e.comparators[0]
            ops = {ast.Lt: '<', ast.LtE: '≤', ast.Gt: '>', ast.GtE: '≥', ast.Eq: '=', ast.NotEq: '≠'}
            for t, s in ops.items():
                if isinstance(e.ops[0], t):
                    return '(%s %s %s)' % (self.expr(a), s, self.expr(b))
        if isinstance(e, ast.Call) and ast.unparse(e.func) == 'isinstance' and len(e.args) == 2:
            x = ast.unparse(e.args[0])
            if self.env.get(x, (None, None))[1] == 'Int' and ast.unparse(e.args[1]) == 'int':
                return 'True'
            if self.env.get(x, (None, None))[1] == 'Q' and ast.unparse(e.args[1]) == 'float':
                return 'True'
            raise Unsupported('isinstance ' + k)
        if isinstance(e, (ast.Name, ast.Attribute)) and self.env.get(k, (None, None))[1] == 'Bool':
            return '(%s = true)' % self.env[k][0]
        raise Unsupported('condition ' + k)

    # ---------------- statements
    def emit(self, ind, s):
        self.out.append('  ' * ind + s)

    def lean_var(self, name, ty='Int'):
        ln = name.replace('self.', '').replace('__', '').strip('_') + ('_v' if ty == 'Int' else '_q')
        if ln not in self.declared:
            self.declared.append(ln)
            self.decl_ty[ln] = ty
        return ln

    def assign_q(self, ind, name, rhs):
        l, t = self.env.get(name, (None, None))
        if l is None or t != 'Q' or not l.endswith('_q'):
            ln = self.lean_var(name, 'Q')
            if l is not None and t == 'Q':
                self.shadow.append((ln, l))
            self.env[name] = (ln, 'Q')
        self.emit(ind, '%s := %s' % (self.env[name][0], rhs))

    def assign(self, ind, name, rhs):
        l, t = self.env.get(name, (None, None))
        if l is None or t in ('OptInt', 'Q') or not l.endswith('_v'):
            ln = self.lean_var(name)
            if l is not None and t == 'Int':
                self.shadow.append((ln, l))     # starts from the parameter's value
            self.env[name] = (ln, 'Int')
        self.emit(ind, '%s := %s' % (self.env[name][0], rhs))

    def is_none_test(self, t):
        if isinstance(t, ast.Compare) and len(t.ops) == 1 and isinstance(t.comparators[0], ast.Constant) \
                and t.comparators[0].value is None:
            n = ast.unparse(t.left)
            if self.env.get(n, (None, None))[1] == 'OptInt':
                return n, isinstance(t.ops[0], ast.Is)
        return None

    def block(self, ind, stmts):
        n0 = len(self.out)
        for s in stmts:
            self.stmt(ind, s)
        if len(self.out) == n0:
            self.emit(ind, 'pure ()')

    def stmt(self, ind, s):
        src = ast.unparse(s)
        if self.skip_stmt(src):
            return
        if isinstance(s, ast.Expr):
            if isinstance(s.value, ast.Constant):
                return
            if isinstance(s.value, ast.Call) and ast.unparse(s.value.func) == 'print':
                return
            raise Unsupported('expression statement ' + src)
        if isinstance(s, ast.Assign) and len(s.targets) == 1:
            tgt = ast.unparse(s.targets[0])
            if tgt in self.assign_override:
                return self.assign(ind, tgt, self.assign_override[tgt](s.value))
            if self.is_q(s.value):
                return self.assign_q(ind, tgt, self.qexpr(s.value))
            return self.assign(ind, tgt, self.expr(s.value))
        if isinstance(s, ast.AugAssign) and isinstance(s.op, ast.Mult):
            tgt = ast.unparse(s.target)
            prod = ast.BinOp(left=s.target, op=ast.Mult(), right=s.value)
            if self.is_q(prod):
                return self.assign_q(ind, tgt, self.qexpr(prod))
            return self.assign(ind, tgt, self.expr(prod))
        if isinstance(s, ast.Raise):
            nm = ast.unparse(s.exc.func) if isinstance(s.exc, ast.Call) else ast.unparse(s.exc)
            if nm not in EXC:
                raise Unsupported('raise ' + nm)
            return self.emit(ind, 'throw PyErr.%s' % EXC[nm])
        if isinstance(s, ast.Return):
            return self.emit(ind, 'return %s' % self.expr(s.value))
        if isinstance(s, ast.Pass):
            return
        if isinstance(s, ast.If):
            if self.const_false(s.test):
                if s.orelse:
                    self.block(ind, s.orelse)
                return
            k = ast.unparse(s.test)
            if self.const_conds.get(k) == 'True':
                return self.block(ind, s.body)
            nt = self.is_none_test(s.test)
            if nt:
                name, isnone = nt
                l, _ = self.env[name]
                lv = self.lean_var(name)
                none_body, some_body = (s.body, s.orelse) if isnone else (s.orelse, s.body)
                self.emit(ind, 'match %s with' % l)
                saved = dict(self.env)
                self.emit(ind, '| none =>')
                self.block(ind + 1, none_body)
                env_none = self.env
                self.env = dict(saved)
                self.emit(ind, '| some %s_s =>' % l)
                self.emit(ind + 1, '%s := %s_s' % (lv, l))
                self.env[name] = (lv, 'Int')
                self.block(ind + 1, some_body)
                # after the match the name is an Int variable (both branches must have assigned it)
                self.env.update({k2: v2 for k2, v2 in env_none.items() if k2 not in self.env})
                self.env[name] = (lv, 'Int')
                return
            self.emit(ind, 'if %s then' % self.cond(s.test))
            self.block(ind + 1, s.body)
            if s.orelse:
                self.emit(ind, 'else')
                self.block(ind + 1, s.orelse)
            return
        raise Unsupported('statement ' + src.splitlines()[0])


def translate(fn, lean_name, params, outputs=None, **kw):
    """outputs: list of python names whose final values are returned as a tuple (for methods that
    communicate through attributes); None -> the function's own `return`"""
    tr = Tr(params, **kw)
    tr.block(1, fn.body)
    sig = ' '.join('(%s : %s)' % (l, LEAN_TY[t]) for p, l, t in params)
    init = dict(tr.shadow)
    decls = ['  let mut %s : %s := %s' % (v, LEAN_TY[tr.decl_ty.get(v, 'Int')],
                                          init.get(v, '0' if tr.decl_ty.get(v, 'Int') == 'Int' else '⟨0, 1⟩'))
             for v in tr.declared]
    body = list(tr.out)
    if outputs is not None:
        outs = []
        for o in outputs:
            if o not in tr.env:
                raise Unsupported('output %s is never bound' % o)
            outs.append(tr.env[o][0])
        body.append('  return (' + ', '.join(outs) + ')')
        ret = ' × '.join(['Int'] * len(outputs))
    else:
        ret = 'Int'
    return 'def %s %s : Except PyErr (%s) := do\n' % (lean_name, sig, ret) + '\n'.join(decls + body) + '\n'


HEADER = ('/- GENERATED by harness/py2lean.py from %s -- do not edit; regenerated on every check run. -/\n'
          'import Usid.Basic.Py\nnamespace Usid.Generated\nopen Usid\n\n')


def _find(mod, name, cls=None):
    body = mod.body
    if cls:
        body = [n for n in mod.body if isinstance(n, ast.ClassDef) and n.name == cls][0].body
    fns = [n for n in body if isinstance(n, ast.FunctionDef) and n.name == name]
    if len(fns) != 1:
        raise Unsupported('function %s not found exactly once' % name)
    return fns[0]


def gen_recommend(repo):
    mod = ast.parse(open(os.path.join(repo, 'pyUSID/processing/comp_utils.py')).read())
    fn = _find(mod, 'recommend_cpu_cores')
    params = [('logical_cores', 'logical_cores', 'Int'), ('num_jobs', 'num_jobs', 'Int'),
              ('requested_cores', 'requested_cores', 'OptInt'), ('min_free_cores', 'min_free_cores', 'OptInt'),
              ('lengthy_computation', 'lengthy_computation', 'Bool')]
    seen = {'n': 0}

    def skip(src):
        if src.startswith('logical_cores = cpu_count()'):
            seen['n'] += 1
            return True
        return False
    out = translate(fn, 'recommend_cpu_cores', params, skip_stmt=skip)
    if seen['n'] != 1:
        raise Unsupported('expected exactly one `logical_cores = cpu_count()`')
    return out


def gen_process(repo):
    mod = ast.parse(open(os.path.join(repo, 'pyUSID/processing/process.py')).read())
    # __assign_job_indices: inputs jobs (= self.__compute_jobs.size), rank, size, batch
    p1 = [('jobs', 'jobs', 'Int'), ('self.mpi_rank', 'rank', 'Int'), ('self.mpi_size', 'size', 'Int'),
          ('self._max_pos_per_read', 'batch', 'Int')]
    seen = {'w': 0}

    def skip1(src):
        if src.startswith('self.__compute_jobs = np.where(self._h5_status_dset[()] == 0)[0]'):
            seen['w'] += 1
            return True
        return False
    g1 = translate(_find(mod, '__assign_job_indices', 'Process'), 'assign_job_indices', p1,
                   outputs=['self.__start_pos', 'self.__rank_end_pos', 'self.__end_pos'],
                   opaque={'self.__compute_jobs.size': 'jobs'}, skip_stmt=skip1)
    if seen['w'] != 1:
        raise Unsupported('__assign_job_indices: pending set is no longer np.where(status == 0)[0]')
    # _read_data_chunk: inputs start, rank_end, batch, previous end; outputs (end, has_data 0/1)
    p2 = [('self.__start_pos', 'start', 'Int'), ('self.__rank_end_pos', 'rank_end', 'Int'),
          ('self._max_pos_per_read', 'batch', 'Int'), ('self.__end_pos', 'end_in', 'Int')]
    seen2 = {'pix': 0, 'data': 0}

    def skip2(src):
        if src.startswith('self.__pixels_in_batch = self.__compute_jobs[self.__start_pos:self.__end_pos]'):
            seen2['pix'] += 1
            return True
        if src.startswith('if self.__lazy:') or src.startswith('main_dset ='):
            return True
        return False

    def data_assign(v):
        if isinstance(v, ast.Constant) and v.value is None:
            return '(0 : Int)'
        if ast.unparse(v) == 'main_dset[self.__pixels_in_batch, :]':
            seen2['data'] += 1
            return '(1 : Int)'
        raise Unsupported('self.data = ' + ast.unparse(v))
    tr_fn = _find(mod, '_read_data_chunk', 'Process')
    g2 = translate(tr_fn, 'read_window', p2, outputs=['self.__end_pos', 'self.data'], skip_stmt=skip2,
                   assign_override={'self.data': data_assign})
    if seen2['pix'] != 1 or seen2['data'] != 1:
        raise Unsupported('_read_data_chunk: batch is no longer compute_jobs[start:end] / data = main[batch, :]')
    # __set_cores, serial branch (mpi_comm is None)
    p3 = [('logical', 'logical', 'Int'), ('cores', 'cores', 'OptInt')]
    g3 = translate(_find(mod, '__set_cores', 'Process'), 'set_cores', p3, outputs=['self._cores'],
                   opaque={'psutil.cpu_count()': 'logical'}, const_conds={'self.mpi_comm is None': 'True'},
                   skip_stmt=lambda s: s.startswith(('self.__socket_master_rank =', 'self.__ranks_on_socket =')))
    # __set_memory: float arithmetic rendered in exact fractions (PyQ)
    p4 = [('avail', 'avail', 'Int'), ('man_mem_limit', 'man_mem_limit', 'OptInt'),
          ('mem_multiplier', 'mem_multiplier', 'Q'), ('self._cores', 'cores', 'Int'),
          ('self.__ranks_on_socket', 'ranks', 'Int'), ('itemsize', 'itemsize', 'Int'), ('columns', 'columns', 'Int')]
    seen4 = {'avail': 0}

    def skip4(src):
        if src.startswith('avail_mem_bytes = get_available_memory()'):
            seen4['avail'] += 1
        return False
    g4 = translate(_find(mod, '__set_memory', 'Process'), 'set_memory', p4, outputs=['self._max_pos_per_read'],
                   opaque={'get_available_memory()': 'avail', 'self.h5_main.dtype.itemsize': 'itemsize',
                           'self.h5_main.shape[1]': 'columns'}, skip_stmt=skip4)
    if seen4['avail'] != 1:
        raise Unsupported('__set_memory: available memory is no longer get_available_memory()')
    return g1, g2, g3, g4


def generate_all(repo, outdir):
    """writes Generated/RecommendCores.lean and Generated/JobWindow.lean; returns a list of problems"""
    os.makedirs(outdir, exist_ok=True)
    problems = []
    targets = [('RecommendCores.lean', 'pyUSID/processing/comp_utils.py', lambda: [gen_recommend(repo)]),
               ('JobWindow.lean', 'pyUSID/processing/process.py', lambda: list(gen_process(repo)))]
    for fname, src, f in targets:
        path = os.path.join(outdir, fname)
        try:
            defs = f()
            text = HEADER % src + '\n'.join(defs) + '\nend Usid.Generated\n'
        except (Unsupported, SyntaxError, IndexError, OSError) as e:
            problems.append('%s: %s: %s' % (fname, type(e).__name__, e))
            continue
        old = open(path).read() if os.path.exists(path) else None
        if old != text:
            with open(path, 'w') as fh:
                fh.write(text)
    return problems


if __name__ == '__main__':
    import sys
    print(generate_all(sys.argv[1] if len(sys.argv) > 1 else '/repo',
                       os.path.join(os.path.dirname(os.path.dirname(os.path.abspath(__file__))), 'lean', 'Usid', 'Generated')))
