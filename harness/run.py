import argparse
import os
import sys
import warnings

warnings.filterwarnings('ignore')
HERE = os.path.dirname(os.path.abspath(__file__))
sys.path.insert(0, HERE)


def main():
    ap = argparse.ArgumentParser()
    ap.add_argument('prop')
    ap.add_argument('--tier', default=os.environ.get('VERIF_TIER', 'quick'))
    ap.add_argument('--replay', default=None)
    a = ap.parse_args()
    seed = int(os.environ.get('VERIF_SEED', '0') or 0)
    import core
    try:
        rc = core.run_check(a.prop, tier=a.tier, seed=seed, replay=a.replay)
    except core.Infra as e:
        print('INFRA: %s' % e)
        rc = 2
    except Exception:
        import traceback
        traceback.print_exc()
        rc = 2
    sys.stdout.flush()
    os._exit(rc)


if __name__ == '__main__':
    main()
