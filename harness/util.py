import contextlib, io, os, sys, warnings


@contextlib.contextmanager
def quiet():
    """silence the library's prints and warnings while the implementation runs"""
    old = sys.stdout
    sys.stdout = io.StringIO()
    try:
        with warnings.catch_warnings():
            warnings.simplefilter('ignore')
            yield
    finally:
        sys.stdout = old


def call(f, *a, **k):
    """run f; returns ('ok', value) or ('err', enum, exception class name)"""
    from core import err_of
    try:
        with quiet():
            return ('ok', f(*a, **k))
    except Exception as e:     # noqa
        return ('err', err_of(e), type(e).__name__)
