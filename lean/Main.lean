import Usid.Driver
def main : IO Unit := Usid.Driver.driverMain Usid.Driver.handlers
