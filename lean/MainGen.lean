import Usid.DriverGen
def main : IO Unit := Usid.Driver.driverMain (Usid.Driver.handlers ++ Usid.Driver.genHandlers)
