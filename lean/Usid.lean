import Usid.Basic.Radix
import Usid.Basic.NDArray
import Usid.Basic.ChangeCount
import Usid.Basic.Str
import Usid.Basic.ListPrims
import Usid.Basic.Stride
