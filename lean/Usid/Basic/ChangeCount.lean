/-! Wrap-around change count of a grid digit (get_sort_order core lemma). -/
namespace Usid


/-- number of multiples of t below n -/
def multiplesBelow (t n : Nat) : Nat := ((List.range n).filter (fun r => r % t = 0)).length

theorem multiplesBelow_succ (t n : Nat) :
    multiplesBelow t (n + 1) = multiplesBelow t n + (if n % t = 0 then 1 else 0) := by
  unfold multiplesBelow
  rw [List.range_succ, List.filter_append, List.length_append]
  by_cases h : n % t = 0 <;> simp [h]

theorem multiplesBelow_mul (t k : Nat) (ht : 0 < t) : multiplesBelow t (t * k) = k := by
  -- stronger: for all m ≤ t, multiplesBelow t (t*k + m) = k + (if m = 0 then 0 else 1)
  have key : ∀ k m, m ≤ t → multiplesBelow t (t * k + m) = k + (if m = 0 then 0 else 1) := by
    intro k
    induction k with
    | zero =>
      intro m
      induction m with
      | zero => intro _; simp [multiplesBelow]
      | succ m ihm =>
        intro hm
        have := ihm (by omega)
        simp only [Nat.mul_zero, Nat.zero_add] at this ⊢
        rw [multiplesBelow_succ, this]
        have hmt : m % t = m := Nat.mod_eq_of_lt (by omega)
        rw [hmt]
        by_cases h0 : m = 0 <;> simp [h0]
    | succ k ihk =>
      intro m
      induction m with
      | zero =>
        intro _
        have := ihk t (Nat.le_refl t)
        have e : t * (k + 1) + 0 = t * k + t := by rw [Nat.mul_succ, Nat.add_zero]
        rw [e, this]
        have : t ≠ 0 := by omega
        simp [this]
      | succ m ihm =>
        intro hm
        have h1 := ihm (by omega)
        have e : t * (k + 1) + (m + 1) = (t * (k + 1) + m) + 1 := by omega
        rw [e, multiplesBelow_succ, h1]
        have hmod : (t * (k + 1) + m) % t = m := by
          rw [Nat.mul_add_mod]; exact Nat.mod_eq_of_lt (by omega)
        rw [hmod]
        by_cases h0 : m = 0 <;> simp [h0]
  simpa using key k 0 (Nat.zero_le t)

/-- python-style previous element with wrap-around: row[i-1] for i = 0 is row[n-1] -/
def prevIdx (n i : Nat) : Nat := if i = 0 then n - 1 else i - 1

/-- wrap-around change count of the function row over [0, n) -/
def changeCount (n : Nat) (row : Nat → Nat) : Nat :=
  ((List.range n).filter (fun i => row i ≠ row (prevIdx n i))).length

/-- digit of dimension with stride t and size s at row r -/
def digit (t s r : Nat) : Nat := r / t % s

theorem digit_change_interior (t s r : Nat) (ht : 0 < t) (hs : 1 < s) (hr : 0 < r) :
    (digit t s r ≠ digit t s (r - 1)) ↔ r % t = 0 := by
  unfold digit
  constructor
  · intro h
    by_cases hnd : r % t = 0
    · exact hnd
    exfalso; apply h
    have hdm := Nat.div_add_mod r t
    have hlt := Nat.mod_lt r ht
    have e : r - 1 = t * (r / t) + (r % t - 1) := by omega
    have hd : (r % t - 1) / t = 0 := Nat.div_eq_of_lt (by omega)
    rw [e, Nat.mul_add_div ht, hd]
    simp
  · intro h0
    obtain ⟨k, rfl⟩ : ∃ k, r = t * k := ⟨r / t, by have := Nat.div_add_mod r t; omega⟩
    have hk : 0 < k := by
      rcases Nat.eq_zero_or_pos k with h | h
      · subst h; simp at hr
      · exact h
    have h1 : t * k / t = k := Nat.mul_div_cancel_left k ht
    have h2 : (t * k - 1) / t = k - 1 := by
      have e : t * k - 1 = t * (k - 1) + (t - 1) := by
        have : t * k = t * (k - 1) + t := by
          conv => lhs; rw [show k = (k - 1) + 1 by omega]
          rw [Nat.mul_add, Nat.mul_one]
        omega
      have hd : (t - 1) / t = 0 := Nat.div_eq_of_lt (by omega)
      rw [e, Nat.mul_add_div ht, hd]; omega
    rw [h1, h2]
    intro heq
    have hm := Nat.mod_lt (k - 1) (by omega : 0 < s)
    have hk' : k = (k - 1) + 1 := by omega
    rw [hk'] at heq
    simp only [Nat.add_sub_cancel] at heq
    rcases Nat.lt_or_ge ((k - 1) % s + 1) s with hlt | hge
    · have : (k - 1 + 1) % s = (k - 1) % s + 1 := by
        rw [Nat.add_mod, Nat.mod_eq_of_lt (by omega : 1 < s)]; exact Nat.mod_eq_of_lt hlt
      omega
    · have hE : (k - 1) % s + 1 = s := by omega
      have : (k - 1 + 1) % s = 0 := by
        rw [Nat.add_mod, Nat.mod_eq_of_lt (by omega : 1 < s), hE, Nat.mod_self]
      omega

/-- wrap-around comparison at r = 0: digit(0) = 0 but digit(N-1) = s-1 when N = t*s*u -/
theorem digit_change_wrap (t s u : Nat) (ht : 0 < t) (hs : 1 < s) (hu : 0 < u) :
    digit t s 0 ≠ digit t s (t * s * u - 1) := by
  unfold digit
  have hpos : 0 < s * u := Nat.mul_pos (by omega) hu
  have e : t * s * u - 1 = t * (s * u - 1) + (t - 1) := by
    have : t * s * u = t * (s * u - 1) + t := by
      rw [Nat.mul_assoc]
      conv => lhs; rw [show s * u = (s * u - 1) + 1 by omega]
      rw [Nat.mul_add, Nat.mul_one]
    omega
  have hd : (t - 1) / t = 0 := Nat.div_eq_of_lt (by omega)
  rw [e, Nat.mul_add_div ht, hd]
  simp only [Nat.zero_div, Nat.zero_mod, Nat.add_zero]
  -- (s*u - 1) % s = s - 1 ≠ 0
  have e2 : s * u - 1 = s * (u - 1) + (s - 1) := by
    have : s * u = s * (u - 1) + s := by
      conv => lhs; rw [show u = (u - 1) + 1 by omega]
      rw [Nat.mul_add, Nat.mul_one]
    omega
  rw [e2, Nat.mul_add_mod, Nat.mod_eq_of_lt (by omega)]
  omega

theorem changeCount_digit (t s u : Nat) (ht : 0 < t) (hs : 1 < s) (hu : 0 < u) :
    changeCount (t * s * u) (digit t s) = s * u := by
  unfold changeCount
  have hN : 0 < t * s * u := Nat.mul_pos (Nat.mul_pos ht (by omega)) hu
  have hfilter : (List.range (t * s * u)).filter (fun i => digit t s i ≠ digit t s (prevIdx (t * s * u) i))
      = (List.range (t * s * u)).filter (fun r => r % t = 0) := by
    apply List.filter_congr
    intro r _
    by_cases h0 : r = 0
    · subst h0
      have := digit_change_wrap t s u ht hs hu
      simp [prevIdx, this]
    · have := digit_change_interior t s r ht hs (by omega)
      simp only [prevIdx, h0, if_false]
      by_cases hm : r % t = 0
      · simp [hm, this.mpr hm]
      · have : ¬ (digit t s r ≠ digit t s (r - 1)) := fun h => hm (this.mp h)
        simp [hm, this]
  rw [hfilter]
  have := multiplesBelow_mul t (s * u) ht
  unfold multiplesBelow at this
  rw [Nat.mul_assoc]; exact this

theorem changeCount_size_one (n t : Nat) : changeCount n (digit t 1) = 0 := by
  unfold changeCount digit; simp [Nat.mod_one]

end Usid
