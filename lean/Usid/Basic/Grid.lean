import Usid.Basic.ChangeCount
import Usid.Basic.Stride
/-! Regular grids: index matrices that enumerate a full Cartesian product in mixed-radix order for some
    rate order of the dimensions.  Core facts: strides, change counts, distinct counts. -/
namespace Usid.Grid
open Usid

/-- index of dimension `d` at row `r` of a regular grid: `sz` gives the size of a dimension id, `rate`
    lists the dimension ids fastest → slowest -/
def gridIdx (sz : Nat → Nat) (rate : List Nat) (r d : Nat) : Nat := r / strideBefore sz rate d % sz d

/-- number of points of the grid -/
def npoints (sz : Nat → Nat) (rate : List Nat) : Nat := (rate.map sz).prod

/-- the index row of dimension `d` -/
def gridRow (sz : Nat → Nat) (rate : List Nat) (d : Nat) : List Nat :=
  (List.range (npoints sz rate)).map (fun r => gridIdx sz rate r d)

/-! ### decomposition of the rate order around a dimension -/

theorem takeWhile_split (pre post : List Nat) (d : Nat) (h : d ∉ pre) :
    (pre ++ d :: post).takeWhile (fun e => e != d) = pre := by
  induction pre with
  | nil => simp [List.takeWhile]
  | cons x xs ih =>
    have hx : x ≠ d := fun e => h (by rw [e]; exact List.mem_cons_self)
    have : (x != d) = true := by simpa using hx
    simp only [List.cons_append, List.takeWhile, this]
    rw [ih (fun hm => h (List.mem_cons_of_mem _ hm))]

theorem split_of_mem : ∀ (l : List Nat) (d : Nat), d ∈ l → ∃ pre post, l = pre ++ d :: post ∧ d ∉ pre
  | [], _, h => by simp at h
  | x :: xs, d, h => by
    by_cases hx : x = d
    · exact ⟨[], xs, by simp [hx], by simp⟩
    · have hd : d ∈ xs := by
        rcases List.mem_cons.mp h with e | e
        · exact absurd e.symm hx
        · exact e
      obtain ⟨pre, post, e, hn⟩ := split_of_mem xs d hd
      refine ⟨x :: pre, post, by simp [e], ?_⟩
      intro hm
      rcases List.mem_cons.mp hm with e' | e'
      · exact hx e'.symm
      · exact hn e'

theorem stride_split (sz : Nat → Nat) (pre post : List Nat) (d : Nat) (h : d ∉ pre) :
    strideBefore sz (pre ++ d :: post) d = (pre.map sz).prod := by
  unfold strideBefore; rw [takeWhile_split pre post d h]

theorem npoints_split (sz : Nat → Nat) (pre post : List Nat) (d : Nat) :
    npoints sz (pre ++ d :: post) = (pre.map sz).prod * sz d * (post.map sz).prod := by
  unfold npoints
  rw [List.map_append, List.prod_append, List.map_cons, List.prod_cons, Nat.mul_assoc]

theorem prod_pos (sz : Nat → Nat) : ∀ (l : List Nat), (∀ e ∈ l, 1 ≤ sz e) → 0 < (l.map sz).prod
  | [], _ => by simp
  | x :: xs, h => by
    rw [List.map_cons, List.prod_cons]
    exact Nat.mul_pos (h x List.mem_cons_self) (prod_pos sz xs (fun e he => h e (List.mem_cons_of_mem _ he)))

/-! ### change counts -/

/-- list form of the wrap-around change count (as the Python expression computes it) -/
def changeCountList (row : List Nat) : Nat :=
  ((List.range row.length).filter (fun i =>
    row.getD i 0 != row.getD (if i = 0 then row.length - 1 else i - 1) 0)).length

theorem changeCountList_map (n : Nat) (f : Nat → Nat) :
    changeCountList ((List.range n).map f) = changeCount n f := by
  unfold changeCountList changeCount
  simp only [List.length_map, List.length_range]
  congr 1
  apply List.filter_congr
  intro i hi
  have hi' : i < n := List.mem_range.mp hi
  have hp : prevIdx n i < n := by unfold prevIdx; split <;> omega
  have e1 : ((List.range n).map f).getD i 0 = f i := by
    simp [List.getD_eq_getElem?_getD, List.getElem?_map, List.getElem?_range hi']
  have e2 : ((List.range n).map f).getD (if i = 0 then n - 1 else i - 1) 0 = f (prevIdx n i) := by
    have : (if i = 0 then n - 1 else i - 1) = prevIdx n i := rfl
    rw [this]
    simp [List.getD_eq_getElem?_getD, List.getElem?_map, List.getElem?_range hp]
  rw [e1, e2]
  by_cases h : f i = f (prevIdx n i) <;> simp [h]

/-- the wrap-around change count of a grid row: `N / stride` for a dimension of size > 1, else 0 -/
theorem changeCount_gridRow (sz : Nat → Nat) (pre post : List Nat) (d : Nat) (hd : d ∉ pre)
    (hpos : ∀ e ∈ pre ++ d :: post, 1 ≤ sz e) :
    changeCountList (gridRow sz (pre ++ d :: post) d) =
      if 1 < sz d then sz d * (post.map sz).prod else 0 := by
  unfold gridRow
  rw [changeCountList_map]
  have hfun : (fun r => gridIdx sz (pre ++ d :: post) r d) = digit (pre.map sz).prod (sz d) := by
    funext r; unfold gridIdx digit; rw [stride_split sz pre post d hd]
  rw [hfun, npoints_split]
  have ht : 0 < (pre.map sz).prod := prod_pos sz pre (fun e he => hpos e (List.mem_append_left _ he))
  have hu : 0 < (post.map sz).prod :=
    prod_pos sz post (fun e he => hpos e (List.mem_append_right _ (List.mem_cons_of_mem _ he)))
  by_cases hs : 1 < sz d
  · simp only [hs, if_true]
    exact changeCount_digit _ _ _ ht hs hu
  · have h1 : sz d = 1 := by
      have := hpos d (List.mem_append_right _ List.mem_cons_self); omega
    simp only [hs, if_false, h1]
    exact changeCount_size_one _ _

/-- change count as a function of the dimension id (for a nodup rate order) -/
def countOf (sz : Nat → Nat) (rate : List Nat) (d : Nat) : Nat := changeCountList (gridRow sz rate d)

theorem countOf_split (sz : Nat → Nat) (rate pre post : List Nat) (d : Nat) (e : rate = pre ++ d :: post)
    (hd : d ∉ pre) (hpos : ∀ x ∈ rate, 1 ≤ sz x) :
    countOf sz rate d = if 1 < sz d then sz d * (post.map sz).prod else 0 := by
  subst e
  exact changeCount_gridRow sz pre post d hd hpos

/-- counts are strictly decreasing along the rate order among dimensions of size > 1 -/
theorem counts_strict (sz : Nat → Nat) (rate : List Nat) (hnd : rate.Nodup) (hpos : ∀ e ∈ rate, 1 ≤ sz e) :
    rate.Pairwise (fun a b => 1 < sz a → 1 < sz b → countOf sz rate b < countOf sz rate a) := by
  rw [List.pairwise_iff_getElem]
  intro i j hi hj hij ha hb
  have split : ∀ k (hk : k < rate.length), rate = rate.take k ++ rate[k] :: rate.drop (k + 1) ∧ rate[k] ∉ rate.take k := by
    intro k hk
    have e : rate = rate.take k ++ rate[k] :: rate.drop (k + 1) := by
      rw [← List.drop_eq_getElem_cons hk, List.take_append_drop]
    refine ⟨e, ?_⟩
    intro hm
    have hnd' := hnd
    rw [e] at hnd'
    exact (List.nodup_append.mp hnd').2.2 _ hm _ List.mem_cons_self rfl
  obtain ⟨ea, hapre⟩ := split i hi
  obtain ⟨eb, hbpre⟩ := split j hj
  have ca : countOf sz rate rate[i] = sz rate[i] * ((rate.drop (i + 1)).map sz).prod := by
    rw [countOf_split sz rate _ _ _ ea hapre hpos]; simp [ha]
  have cb : countOf sz rate rate[j] = sz rate[j] * ((rate.drop (j + 1)).map sz).prod := by
    rw [countOf_split sz rate _ _ _ eb hbpre hpos]; simp [hb]
  -- the part after a contains b and everything after b
  have hrest : rate.drop (i + 1) = (rate.take j).drop (i + 1) ++ rate[j] :: rate.drop (j + 1) := by
    have := congrArg (List.drop (i + 1)) eb
    rw [List.drop_append_of_le_length (by simp; omega)] at this
    exact this
  rw [ca, cb, hrest, List.map_append, List.prod_append, List.map_cons, List.prod_cons]
  have hm : 0 < (((rate.take j).drop (i + 1)).map sz).prod :=
    prod_pos sz _ (fun x hx => hpos x ((List.take_sublist _ _).subset ((List.drop_sublist _ _).subset hx)))
  have hp : 0 < sz rate[j] * ((rate.drop (j + 1)).map sz).prod := Nat.mul_pos (by omega)
    (prod_pos sz _ (fun x hx => hpos x ((List.drop_sublist _ _).subset hx)))
  calc sz rate[j] * ((rate.drop (j + 1)).map sz).prod
      < 2 * (sz rate[j] * ((rate.drop (j + 1)).map sz).prod) := by omega
    _ ≤ sz rate[i] * ((((rate.take j).drop (i + 1)).map sz).prod * (sz rate[j] * ((rate.drop (j + 1)).map sz).prod)) := by
      apply Nat.mul_le_mul ha
      exact Nat.le_mul_of_pos_left _ hm

end Usid.Grid
