/-! numpy tile / repeat as list functions. -/
namespace Usid
/-! tile / repeat -/
def repeatEach (l : List α) (k : Nat) : List α := l.flatMap (fun x => List.replicate k x)
def tile (l : List α) (k : Nat) : List α := (List.replicate k l).flatten

theorem length_repeatEach (l : List α) (k : Nat) : (repeatEach l k).length = l.length * k := by
  induction l with
  | nil => simp [repeatEach]
  | cons x xs ih =>
    simp only [repeatEach, List.flatMap_cons, List.length_append, List.length_replicate, List.length_cons] at ih ⊢
    rw [ih, Nat.add_mul, Nat.one_mul, Nat.add_comm]

theorem getElem?_repeatEach (l : List α) (k i : Nat) (hk : 0 < k) :
    (repeatEach l k)[i]? = l[i / k]? := by
  induction l generalizing i with
  | nil => simp [repeatEach]
  | cons x xs ih =>
    have hrep : repeatEach (x :: xs) k = List.replicate k x ++ repeatEach xs k := by
      simp [repeatEach]
    rw [hrep]
    by_cases hi : i < k
    · rw [List.getElem?_append_left (by simpa using hi)]
      simp [Nat.div_eq_of_lt hi, List.getElem?_replicate, hi]
    · have hge : k ≤ i := by omega
      rw [List.getElem?_append_right (by simpa using hge)]
      simp only [List.length_replicate]
      rw [ih (i - k)]
      have : i / k = (i - k) / k + 1 := by
        rw [← Nat.div_eq_sub_div hk hge]
      rw [this]; simp

theorem getElem?_tile (l : List α) (k i : Nat) (hi : i < l.length * k) :
    (tile l k)[i]? = l[i % l.length]? := by
  induction k generalizing i with
  | zero => simp at hi
  | succ n ih =>
    have ht : tile l (n + 1) = l ++ tile l n := by simp [tile, List.replicate_succ]
    rw [ht]
    have hl : 0 < l.length := by
      rcases Nat.eq_zero_or_pos l.length with h0 | h0
      · simp [h0] at hi
      · exact h0
    by_cases hlt : i < l.length
    · rw [List.getElem?_append_left hlt, Nat.mod_eq_of_lt hlt]
    · have hge : l.length ≤ i := by omega
      rw [List.getElem?_append_right hge, ih (i - l.length) (by rw [Nat.mul_succ] at hi; omega)]
      rw [Nat.mod_eq_sub_mod hge]

/-- the entry of `np.tile(np.repeat(np.arange(n), rs), ts)` at column c -/
theorem index_formula (n rs ts c : Nat) (hrs : 0 < rs) (hc : c < n * rs * ts) :
    (tile (repeatEach (List.range n) rs) ts)[c]? = some (c / rs % n) := by
  have hlen : (repeatEach (List.range n) rs).length = n * rs := by simp [length_repeatEach]
  rw [getElem?_tile _ _ _ (by rw [hlen]; exact hc), hlen, getElem?_repeatEach _ _ _ hrs]
  have hn : 0 < n := by
    rcases Nat.eq_zero_or_pos n with h0 | h0
    · simp [h0] at hc
    · exact h0
  have : c % (n * rs) / rs = c / rs % n := by
    rw [Nat.mul_comm]; exact Nat.mod_mul_right_div_self c rs n
  rw [this]
  simp [List.getElem?_range, Nat.mod_lt _ hn]

example : tile (repeatEach (List.range 3) 2) 2 = [0,0,1,1,2,2,0,0,1,1,2,2] := by decide

end Usid
