import Usid.Basic.Radix
/-! Executable N-D array (C order), transpose, reshape. -/
namespace Usid
structure NDArr (α : Type) where
  shape : List Nat
  flat : List α

variable {α : Type} [Inhabited α]

/-- element access with numpy C-order; out-of-range reads give `default` (never used under InBounds) -/
def NDArr.get (a : NDArr α) (idx : List Nat) : α := a.flat.getD (ravelC a.shape idx) default

/-- old multi-index addressed by new multi-index `idx'` under numpy `transpose(axes)`:
    new axis j is old axis axes[j]; `inv` is the inverse permutation, old = inv.map (idx'[·]). -/
def gatherIdx (inv idx' : List Nat) : List Nat := inv.map (fun j => idx'.getD j 0)

def NDArr.transpose (a : NDArr α) (axes inv : List Nat) : NDArr α :=
  let newShape := axes.map (fun ax => a.shape.getD ax 1)
  { shape := newShape
    flat := (List.range newShape.prod).map
              (fun k => a.get (gatherIdx inv (unravelC newShape k))) }

/-- access lemma for transpose -/
theorem transpose_get (a : NDArr α) (axes inv idx' : List Nat)
    (hb : InBounds (axes.map (fun ax => a.shape.getD ax 1)) idx') :
    (a.transpose axes inv).get idx' = a.get (gatherIdx inv idx') := by
  have hk := ravelC_lt _ idx' hb
  unfold NDArr.transpose
  simp only [NDArr.get]
  rw [List.getD_eq_getElem?_getD, List.getElem?_map, List.getElem?_range hk]
  simp only [Option.map_some, Option.getD_some]
  rw [unravelC_ravelC _ _ hb]

/-- reshape is the identity on the flat data -/
def NDArr.reshape (a : NDArr α) (newShape : List Nat) : NDArr α := { a with shape := newShape }

theorem reshape_get (a : NDArr α) (newShape idx : List Nat) :
    (a.reshape newShape).get idx = a.flat.getD (ravelC newShape idx) default := rfl

example : (({ shape := [2,3], flat := [0,1,2,3,4,5] } : NDArr Nat).transpose [1,0] [1,0]).flat = [0,3,1,4,2,5] := by decide

end Usid
