/-! Python-level error enum and guarded integer division shared by hand models and generated code. -/
namespace Usid

inductive PyErr
  | typeErr | valueErr | keyErr | indexErr | notImpl | attrErr | zeroDiv | osErr | other
deriving Repr, DecidableEq, Inhabited

def PyErr.toString : PyErr → String
  | .typeErr => "typeErr" | .valueErr => "valueErr" | .keyErr => "keyErr" | .indexErr => "indexErr"
  | .notImpl => "notImpl" | .attrErr => "attrErr" | .zeroDiv => "zeroDiv" | .osErr => "osErr"
  | .other => "other"

instance : ToString PyErr := ⟨PyErr.toString⟩

/-- Python `a // b` on ints: floor division, `ZeroDivisionError` for `b = 0`. -/
def pyFloorDiv (a b : Int) : Except PyErr Int :=
  if b = 0 then .error .zeroDiv else .ok (Int.fdiv a b)

/-- Python `int(a / b)` on ints: truncation of the true quotient (float rounding not modelled),
    `ZeroDivisionError` for `b = 0`. -/
def pyTruncDiv (a b : Int) : Except PyErr Int :=
  if b = 0 then .error .zeroDiv else .ok (Int.tdiv a b)

end Usid
