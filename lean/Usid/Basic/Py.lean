/-! Python-level error enum and guarded integer division shared by hand models and generated code. -/
namespace Usid

inductive PyErr
  | typeErr | valueErr | keyErr | indexErr | notImpl | attrErr | zeroDiv | osErr | other
deriving Repr, DecidableEq, Inhabited

def PyErr.toString : PyErr → String
  | .typeErr => "typeErr" | .valueErr => "valueErr" | .keyErr => "keyErr" | .indexErr => "indexErr"
  | .notImpl => "notImpl" | .attrErr => "attrErr" | .zeroDiv => "zeroDiv" | .osErr => "osErr"
  | .other => "other"

instance : ToString PyErr := ⟨PyErr.toString⟩

/-- truncated quotient, kept as a named definition so that proofs about control flow can treat the
    quotient as opaque -/
def tquot (a b : Int) : Int := Int.tdiv a b
/-- floored quotient -/
def fquot (a b : Int) : Int := Int.fdiv a b

/-- Python `a // b` on ints: floor division, `ZeroDivisionError` for `b = 0`. -/
def pyFloorDiv (a b : Int) : Except PyErr Int :=
  if b = 0 then .error .zeroDiv else .ok (fquot a b)

/-- Python `int(a / b)` on ints: truncation of the true quotient (float rounding not modelled),
    `ZeroDivisionError` for `b = 0`. -/
def pyTruncDiv (a b : Int) : Except PyErr Int :=
  if b = 0 then .error .zeroDiv else .ok (tquot a b)

/-- An exact fraction standing for a Python `float` in generated code.  IEEE rounding is NOT modelled: the
    real code's result is compared with this exact value by the correspondence.  Every operation below keeps
    `d > 0` when its inputs have it. -/
structure PyQ where
  n : Int
  d : Int
deriving Repr, DecidableEq, Inhabited

def PyQ.ofInt (a : Int) : PyQ := ⟨a, 1⟩
def PyQ.abs (q : PyQ) : PyQ := ⟨((Int.natAbs q.n : Nat) : Int), q.d⟩
def PyQ.mul (a b : PyQ) : PyQ := ⟨a.n * b.n, a.d * b.d⟩
/-- `a < b` for positive denominators -/
def PyQ.lt (a b : PyQ) : Bool := decide (a.n * b.d < b.n * a.d)
/-- `floor` of the fraction -/
def PyQ.floor (q : PyQ) : Int := fquot q.n q.d
/-- Python `a / b` (true division): `ZeroDivisionError` for `b = 0`; the denominator stays positive. -/
def pyTrueDiv (a b : PyQ) : Except PyErr PyQ :=
  if b.n = 0 then .error .zeroDiv
  else if 0 < b.n then .ok ⟨a.n * b.d, a.d * b.n⟩
  else .ok ⟨-(a.n * b.d), -(a.d * b.n)⟩

/-- `[f x for x in l]` where `f` may raise: the first error wins, otherwise all results in order -/
def mapME {β γ : Type} (f : β → Except PyErr γ) : List β → Except PyErr (List γ)
  | [] => .ok []
  | x :: xs =>
    match f x with
    | .error e => .error e
    | .ok y =>
      match mapME f xs with
      | .error e => .error e
      | .ok ys => .ok (y :: ys)

end Usid
