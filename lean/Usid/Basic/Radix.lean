/-! C-order ravel/unravel (mixed radix) and bounds. Core Lean only. -/
namespace Usid


/-- C-order (row-major) flat index of a multi-index: shape and index listed slowest axis first. -/
def ravelC : List Nat → List Nat → Nat
  | s :: ss, i :: is => i * ss.prod + ravelC ss is
  | _, _ => 0

/-- digits of r in C order for a shape (slowest first) -/
def unravelC : List Nat → Nat → List Nat
  | [], _ => []
  | _ :: ss, r => (r / ss.prod) :: unravelC ss (r % ss.prod)

def InBounds : List Nat → List Nat → Prop
  | [], [] => True
  | s :: ss, i :: is => i < s ∧ InBounds ss is
  | _, _ => False

theorem ravelC_lt : ∀ (shape idx : List Nat), InBounds shape idx → ravelC shape idx < shape.prod
  | [], [], _ => by simp [ravelC]
  | s :: ss, i :: is, h => by
    obtain ⟨hi, hr⟩ := h
    have ih := ravelC_lt ss is hr
    simp only [ravelC, List.prod_cons]
    calc i * ss.prod + ravelC ss is < i * ss.prod + ss.prod := by omega
      _ = (i + 1) * ss.prod := by rw [Nat.add_mul, Nat.one_mul]
      _ ≤ s * ss.prod := Nat.mul_le_mul_right _ hi
  | [], _ :: _, h => by simp [InBounds] at h
  | _ :: _, [], h => by simp [InBounds] at h

theorem ravelC_append : ∀ (s1 i1 s2 i2 : List Nat), s1.length = i1.length →
    ravelC (s1 ++ s2) (i1 ++ i2) = ravelC s1 i1 * s2.prod + ravelC s2 i2
  | [], [], s2, i2, _ => by simp [ravelC]
  | s :: ss, i :: is, s2, i2, h => by
    have h' : ss.length = is.length := by simpa using h
    simp only [List.cons_append, ravelC, List.prod_append]
    rw [ravelC_append ss is s2 i2 h', Nat.add_mul, Nat.mul_assoc, Nat.add_assoc]
  | [], _ :: _, _, _, h => by simp at h
  | _ :: _, [], _, _, h => by simp at h

theorem ravelC_unravelC : ∀ (shape : List Nat) (r : Nat), r < shape.prod →
    ravelC shape (unravelC shape r) = r
  | [], r, h => by simp at h; simp [ravelC, unravelC, h]
  | s :: ss, r, h => by
    simp only [unravelC, ravelC]
    have hp : 0 < ss.prod := by
      rcases Nat.eq_zero_or_pos ss.prod with h0 | h0
      · rw [List.prod_cons, h0] at h; simp at h
      · exact h0
    rw [ravelC_unravelC ss (r % ss.prod) (Nat.mod_lt _ hp)]
    rw [Nat.mul_comm]; exact Nat.div_add_mod r ss.prod

/-- Two-sided statement used by C01: main is an N×M row-major matrix stored flat; reshaping to
    (posShape ++ specShape) and reading at (posIdx ++ specIdx) is reading main at
    row = ravelC posShape posIdx, col = ravelC specShape specIdx. -/
theorem reshape_two_sided (posShape specShape posIdx specIdx : List Nat)
    (hl : posShape.length = posIdx.length) (hs : InBounds specShape specIdx) :
    ravelC (posShape ++ specShape) (posIdx ++ specIdx)
      = ravelC posShape posIdx * specShape.prod + ravelC specShape specIdx
    ∧ ravelC specShape specIdx < specShape.prod :=
  ⟨ravelC_append _ _ _ _ hl, ravelC_lt _ _ hs⟩




theorem unravelC_length : ∀ (shape : List Nat) (r : Nat), (unravelC shape r).length = shape.length
  | [], _ => rfl
  | _ :: ss, r => by simp [unravelC, unravelC_length ss]

theorem unravelC_inBounds : ∀ (shape : List Nat) (r : Nat), r < shape.prod → InBounds shape (unravelC shape r)
  | [], _, _ => by simp [unravelC, InBounds]
  | s :: ss, r, h => by
    have hp : 0 < ss.prod := by
      rcases Nat.eq_zero_or_pos ss.prod with h0 | h0
      · rw [List.prod_cons, h0] at h; simp at h
      · exact h0
    refine ⟨?_, unravelC_inBounds ss _ (Nat.mod_lt _ hp)⟩
    rw [List.prod_cons] at h
    exact (Nat.div_lt_iff_lt_mul hp).mpr h

theorem unravelC_ravelC : ∀ (shape idx : List Nat), InBounds shape idx →
    unravelC shape (ravelC shape idx) = idx
  | [], [], _ => rfl
  | s :: ss, i :: is, h => by
    obtain ⟨_, hr⟩ := h
    have hlt := ravelC_lt ss is hr
    have hp : 0 < ss.prod := by omega
    simp only [ravelC, unravelC]
    have h1 : (i * ss.prod + ravelC ss is) / ss.prod = i := by
      rw [Nat.mul_comm, Nat.mul_add_div hp, Nat.div_eq_of_lt hlt]; simp
    have h2 : (i * ss.prod + ravelC ss is) % ss.prod = ravelC ss is := by
      rw [Nat.mul_comm, Nat.mul_add_mod, Nat.mod_eq_of_lt hlt]
    rw [h1, h2, unravelC_ravelC ss is hr]
  | [], _ :: _, h => by simp [InBounds] at h
  | _ :: _, [], h => by simp [InBounds] at h


end Usid
