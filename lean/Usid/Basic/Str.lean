/-! Group-name strings over `List Char`. -/
namespace Usid


abbrev Str := List Char

def allDigits (s : Str) : Bool := s.all Char.isDigit

/-- `base_` : append '_' unless already there (as `assign_group_index` does) -/
def withUnderscore (b : Str) : Str := if b.getLast? = some '_' then b else b ++ ['_']

/-- `name` is an indexed name for the (already underscore-terminated) prefix `p` -/
def HasPrefixIndex (p name : Str) : Prop := ∃ ds : Str, ds ≠ [] ∧ allDigits ds = true ∧ name = p ++ ds

theorem underscore_not_digit : Char.isDigit '_' = false := by decide

theorem withUnderscore_getLast (b : Str) : (withUnderscore b).getLast? = some '_' := by
  unfold withUnderscore
  split
  · assumption
  · simp

/-- key lemma: two underscore-terminated prefixes of the same indexed name coincide -/
theorem prefix_unique (p q name : Str)
    (hp : p.getLast? = some '_') (hq : q.getLast? = some '_')
    (h1 : HasPrefixIndex p name) (h2 : HasPrefixIndex q name) : p = q := by
  obtain ⟨d1, _, hd1, e1⟩ := h1
  obtain ⟨d2, _, hd2, e2⟩ := h2
  have e : p ++ d1 = q ++ d2 := e1.symm.trans e2
  -- compare lengths via List.append_eq_append_iff
  rcases List.append_eq_append_iff.mp e with ⟨a, rfl, rfl⟩ | ⟨c, rfl, rfl⟩
  · -- q = p ++ a, d1 = a ++ d2 : if a ≠ [] then last of q (= '_') lies in a ⊆ d1 (digits)
    rcases a with _ | ⟨x, xs⟩
    · simp
    · exfalso
      have hlast : ((x :: xs)).getLast? = some '_' := by
        rw [List.getLast?_append] at hq
        simpa using hq
      have hmem : '_' ∈ (x :: xs) := List.mem_of_getLast? hlast
      have : '_' ∈ (x :: xs) ++ d2 := List.mem_append_left _ hmem
      have hdig := List.all_eq_true.mp hd1 '_' this
      simp [underscore_not_digit] at hdig
  · rcases c with _ | ⟨x, xs⟩
    · simp
    · exfalso
      have hlast : ((x :: xs)).getLast? = some '_' := by
        rw [List.getLast?_append] at hp
        simpa using hp
      have hmem : '_' ∈ (x :: xs) := List.mem_of_getLast? hlast
      have : '_' ∈ (x :: xs) ++ d1 := List.mem_append_left _ hmem
      have hdig := List.all_eq_true.mp hd2 '_' this
      simp [underscore_not_digit] at hdig

theorem base_unique (b b' name : Str)
    (h1 : HasPrefixIndex (withUnderscore b) name) (h2 : HasPrefixIndex (withUnderscore b') name) :
    withUnderscore b = withUnderscore b' :=
  prefix_unique _ _ _ (withUnderscore_getLast b) (withUnderscore_getLast b') h1 h2

/-- the parser the code uses today is *not* of this form: startswith + replace + int -/
example : ("A_B_000".toList.take 2 = "A_".toList) ∧ allDigits ("A_B_000".toList.drop 2) = false := by decide

end Usid
