/-! Strides along a sorted order equal strides along the rate order. -/
namespace Usid


/-- stride of dimension d along an order: product of the sizes of the dimensions listed before d -/
def strideBefore (sizes : Nat → Nat) (ord : List Nat) (d : Nat) : Nat :=
  ((ord.takeWhile (fun e => e != d)).map sizes).prod

/-- in a pairwise-R list: anything in the prefix before d is R-related to d -/
theorem before_rel {R : Nat → Nat → Prop} : ∀ (l : List Nat) (d x : Nat), l.Pairwise R → d ∈ l →
    x ∈ l.takeWhile (fun e => e != d) → R x d
  | [], _, _, _, hd, _ => by simp at hd
  | a :: l, d, x, hp, hd, hx => by
    rw [List.pairwise_cons] at hp
    by_cases had : a = d
    · subst had; simp [List.takeWhile] at hx
    · have hne : (a != d) = true := by simpa using had
      simp only [List.takeWhile, hne] at hx
      have hd' : d ∈ l := by
        rcases List.mem_cons.mp hd with h | h
        · exact absurd h.symm had
        · exact h
      rcases List.mem_cons.mp hx with rfl | hx
      · exact hp.1 d hd'
      · exact before_rel l d x hp.2 hd' hx

/-- in a pairwise-R list: anything not in the prefix before d (and ≠ d) comes after d -/
theorem after_rel {R : Nat → Nat → Prop} : ∀ (l : List Nat) (d x : Nat), l.Pairwise R → d ∈ l → x ∈ l →
    x ≠ d → x ∉ l.takeWhile (fun e => e != d) → R d x
  | [], _, _, _, hd, _, _, _ => by simp at hd
  | a :: l, d, x, hp, hd, hx, hxd, hnot => by
    rw [List.pairwise_cons] at hp
    by_cases had : a = d
    · subst had
      rcases List.mem_cons.mp hx with h | h
      · exact absurd h hxd
      · exact hp.1 x h
    · have hne : (a != d) = true := by simpa using had
      simp only [List.takeWhile, hne, List.mem_cons, not_or] at hnot
      have hd' : d ∈ l := by
        rcases List.mem_cons.mp hd with h | h
        · exact absurd h.symm had
        · exact h
      have hx' : x ∈ l := by
        rcases List.mem_cons.mp hx with h | h
        · exact absurd h hnot.1
        · exact h
      exact after_rel l d x hp.2 hd' hx' hxd hnot.2

theorem mem_takeWhile_pred {p : Nat → Bool} : ∀ (l : List Nat) (x : Nat), x ∈ l.takeWhile p → p x = true
  | [], _, h => by simp at h
  | a :: l, x, h => by
    by_cases hp : p a = true
    · simp only [List.takeWhile, hp] at h
      rcases List.mem_cons.mp h with rfl | h
      · exact hp
      · exact mem_takeWhile_pred l x h
    · have hp' : p a = false := by simpa using hp
      simp [List.takeWhile, hp'] at h

/-- dropping size-1 entries does not change a product of sizes -/
theorem prod_filter_big (sizes : Nat → Nat) : ∀ (l : List Nat), (∀ e ∈ l, 1 ≤ sizes e) →
    (l.map sizes).prod = ((l.filter (fun e => decide (1 < sizes e))).map sizes).prod
  | [], _ => rfl
  | a :: l, h => by
    have ih := prod_filter_big sizes l (fun e he => h e (List.mem_cons_of_mem _ he))
    have ha := h a (List.mem_cons_self)
    by_cases hb : 1 < sizes a
    · simp [List.filter, hb, ih]
    · have : sizes a = 1 := by omega
      simp [List.filter, hb, this, ih]

theorem stride_eq_of_sorted (sizes cnt : Nat → Nat) (rate ord : List Nat)
    (hperm : ord.Perm rate) (hnd : rate.Nodup)
    (hsz : ∀ d ∈ rate, 1 ≤ sizes d)
    (hstrict : rate.Pairwise (fun a b => 1 < sizes a → 1 < sizes b → cnt b < cnt a))
    (hsorted : ord.Pairwise (fun a b => cnt b ≤ cnt a))
    (d : Nat) (hd : d ∈ rate) (hd1 : 1 < sizes d) :
    strideBefore sizes ord d = strideBefore sizes rate d := by
  unfold strideBefore
  have hndo : ord.Nodup := hperm.nodup_iff.mpr hnd
  have hdo : d ∈ ord := hperm.mem_iff.mpr hd
  have hszo : ∀ e ∈ ord, 1 ≤ sizes e := fun e he => hsz e (hperm.mem_iff.mp he)
  rw [prod_filter_big sizes _ (fun e he => hszo e ((List.takeWhile_sublist _).subset he)),
      prod_filter_big sizes _ (fun e he => hsz e ((List.takeWhile_sublist _).subset he))]
  apply List.Perm.prod_nat
  apply List.Perm.map
  have nd1 : ((ord.takeWhile (fun e => e != d)).filter (fun e => decide (1 < sizes e))).Nodup :=
    ((List.filter_sublist).trans (List.takeWhile_sublist _)).nodup hndo
  have nd2 : ((rate.takeWhile (fun e => e != d)).filter (fun e => decide (1 < sizes e))).Nodup :=
    ((List.filter_sublist).trans (List.takeWhile_sublist _)).nodup hnd
  rw [List.perm_ext_iff_of_nodup nd1 nd2]
  intro e
  simp only [List.mem_filter, decide_eq_true_eq]
  -- an element of a takeWhile (≠ d) prefix is a member and differs from d
  have memne : ∀ (l : List Nat) (x : Nat), x ∈ l.takeWhile (fun e => e != d) → x ∈ l ∧ x ≠ d := by
    intro l x hx
    refine ⟨(List.takeWhile_sublist _).subset hx, ?_⟩
    have := mem_takeWhile_pred l x hx
    simpa using this
  constructor
  · rintro ⟨he, he1⟩
    refine ⟨?_, he1⟩
    obtain ⟨heo, hed⟩ := memne ord e he
    have her : e ∈ rate := hperm.mem_iff.mp heo
    -- e before d in ord ⇒ cnt d ≤ cnt e; if e were after d in rate ⇒ cnt e < cnt d
    apply Classical.byContradiction
    intro hnot
    have h1 : cnt d ≤ cnt e := before_rel ord d e hsorted hdo he
    have h2 := after_rel rate d e hstrict hd her hed hnot hd1 he1
    omega
  · rintro ⟨he, he1⟩
    refine ⟨?_, he1⟩
    obtain ⟨her, hed⟩ := memne rate e he
    have heo : e ∈ ord := hperm.mem_iff.mpr her
    apply Classical.byContradiction
    intro hnot
    have h1 := before_rel rate d e hstrict hd he he1 hd1
    have h2 : cnt e ≤ cnt d := after_rel ord d e hsorted hdo heo hed hnot
    omega

end Usid
