import Usid.Driver.J
import Usid.Driver.Process
import Usid.Driver.Crash
import Usid.Driver.Groups
import Usid.Driver.Attrs
import Usid.Driver.Dup
import Usid.Driver.MainCheck
import Usid.Driver.Anc
import Usid.Driver.Dims
import Usid.Driver.Reshape
import Usid.Driver.Slice
import Usid.Driver.MainW
import Usid.Driver.SliceTo
import Usid.Driver.Reduce
import Usid.Driver.Csv
import Usid.Driver.Empty
import Usid.Driver.Translate
import Usid.Driver.ReadOnly
/-! Line-protocol driver over the hand-written models: one JSON request per line on stdin,
    one JSON response per line on stdout. -/
namespace Usid.Driver
open Lean Usid.J

def handlers : List (String × (Json → R Json)) := [
  ("proc.ranks", hProcRanks),
  ("proc.socket", hSocket), ("sync.safe", hSyncSafe), ("sync.run", hSyncRun),
  ("proc.run", hProcRun),
  ("crash.wf", hCrashWf), ("crash.trace", hCrashTrace), ("crash.resume", hCrashResume),
  ("grp.run", hGrpRun),
  ("grp.file", hGrpFile),
  ("attrs.match", hAttrsMatch),
  ("dup.decide", hDupDecide),
  ("main.check", hMainCheck),
  ("anc.build", hAncBuild), ("anc.make", hAncMake), ("anc.write", hAncWrite),
  ("dims.sort", hDimsSort), ("uv.get", hUvGet), ("uv.rebuild", hUvRebuild),
  ("rs.to_nd", hRsToNd), ("rs.wrapper", hRsWrapper), ("rs.from_nd", hRsFromNd),
  ("slice.nd", hSliceNd), ("slice.2d", hSlice2d),
  ("main.write", hMainWrite),
  ("sliceto.run", hSliceTo),
  ("reduce.run", hReduce),
  ("csv.lines", hCsvLines), ("csv.fs", hCsvFs),
  ("empty.run", hEmptyRun),
  ("trans.sidpy", hTransSidpy), ("trans.image", hTransImage), ("trans.array", hTransArray),
  ("ro.run", hRoRun)
]

def respond (tbl : List (String × (Json → R Json))) (line : String) : String :=
  match Json.parse line with
  | .error e => (Json.mkObj [("driver_error", Json.str ("parse: " ++ e))]).compress
  | .ok j =>
    match j.getObjVal? "op" >>= (·.getStr?) with
    | .error e => (Json.mkObj [("driver_error", Json.str e)]).compress
    | .ok op =>
      match tbl.lookup op with
      | none => (Json.mkObj [("driver_error", Json.str ("unknown op " ++ op))]).compress
      | some h =>
        match h j with
        | .ok v => v.compress
        | .error e => (Json.mkObj [("driver_error", Json.str e)]).compress

partial def loop (tbl : List (String × (Json → R Json))) (h : IO.FS.Stream) (out : IO.FS.Stream) : IO Unit := do
  let line ← h.getLine
  if line.isEmpty then return ()
  if line.trimAscii.isEmpty then loop tbl h out else
  out.putStrLn (respond tbl line)
  loop tbl h out

def driverMain (tbl : List (String × (Json → R Json))) : IO Unit := do
  let out ← IO.getStdout
  loop tbl (← IO.getStdin) out
  out.flush

end Usid.Driver
