import Usid.Driver.J
import Usid.Model.Anc
namespace Usid.Driver
open Lean Usid.J Usid.Anc

def hAncBuild (j : Json) : R Json := do
  let uv ← intListList j "values"
  let (ind, val) := buildIndVal uv
  return Json.mkObj [("ind", ofNatListList ind), ("val", ofIntListList val)]

def hAncMake (j : Json) : R Json := do
  return ofExcept ofNatListList (makeIndicesMatrix (← natList j "steps"))

def hAncWrite (j : Json) : R Json := do
  let dims ← (← arr j "dims").mapM fun d => do
    return ({ name := ← str d "name", units := ← str d "units", values := ← intList d "values" } : Dim)
  let w := writeIndVal dims (← bool j "s2f")
  return Json.mkObj [("labels", ofStrList w.labels), ("units", ofStrList w.units),
    ("ind", ofNatListList w.indices), ("val", ofIntListList w.values)]

end Usid.Driver
