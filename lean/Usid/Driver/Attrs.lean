import Usid.Driver.J
import Usid.Model.Attrs
namespace Usid.Driver
open Lean Usid.J Usid.Attrs

def parseScalar (j : Json) : R Scalar := do
  match ← str j "t" with
  | "int" => return .int (← int j "n")
  | "num" => return .num (← int j "n") (← nat j "d")
  | "bool" => return .bool (← bool j "b")
  | "nan" => return .nan
  | _ => return .str (← str j "s")

def parseVal (j : Json) : R Val := do
  match ← str j "t" with
  | "none" => return .none
  | "list" => return .list (← (← arr j "l").mapM parseScalar)
  | _ => return .scalar (← parseScalar j)

def parseDict (j : Json) : R Dict := do
  (← j.getArr?).toList.mapM fun kv => do return (← str kv "k", ← parseVal (← fld kv "v"))

/-- `attrs.match`: write `stored`, then compare with each query dictionary -/
def hAttrsMatch (j : Json) : R Json := do
  let stored ← parseDict (← fld j "stored")
  let obj := store stored
  let qs ← (← arr j "queries").mapM parseDict
  return Json.arr (qs.map (fun q => Json.bool (matchAll obj q))).toArray

end Usid.Driver
