import Usid.Driver.J
import Usid.Model.Crash
namespace Usid.Driver
open Lean Usid.J Usid.Proc Usid.Crash

def parseEv (j : Json) : R Ev := do
  let e ← str j "e"
  match e with
  | "w" => return Ev.writeRes ⟨← nat j "f", ← nat j "g", ← nat j "p"⟩ (← int j "v")
  | "m" => return Ev.mark ⟨← nat j "f", ← nat j "g", ← nat j "p"⟩
  | "f" => return Ev.flush (← nat j "f")
  | _ => return Ev.other

def evJson : Ev → Json
  | .writeRes k v => Json.mkObj [("e", "w"), ("f", k.file), ("g", k.grp), ("p", k.pos), ("v", toJson v)]
  | .mark k => Json.mkObj [("e", "m"), ("f", k.file), ("g", k.grp), ("p", k.pos)]
  | .flush f => Json.mkObj [("e", "f"), ("f", f)]
  | .other => Json.mkObj [("e", "o")]

def finalOf (l : List Int) : Nat → Int := fun p => l.getD p 0

/-- `crash.wf`: acceptance of an OBSERVED trace + survivors at every crash index for group (f, g) -/
def hCrashWf (j : Json) : R Json := do
  let final := finalOf (← intList j "final")
  let evs ← (← arr j "events").mapM parseEv
  let f ← nat j "f"
  let g ← nat j "g"
  let status0 ← natList j "status0"
  let n := status0.length
  let points : List Nat := match j.getObjVal? "points" with
    | .ok v => (asNatList v).toOption.getD (List.range (evs.length + 1))
    | .error _ => List.range (evs.length + 1)
  let surv := points.map fun i =>
    let w := run {} (evs.take i)
    let res (s : St) : Json := ofList ((List.range n).map fun p =>
      match s.lookup ⟨f, g, p⟩ with
      | some v => toJson v
      | none => Json.null)
    Json.mkObj [("i", i), ("vs", ofNatList (statusOf w.vol f g status0)), ("ds", ofNatList (statusOf w.dur f g status0)),
      ("vr", res w.vol), ("dr", res w.dur)]
  return Json.mkObj [("wf", WellFormed final evs), ("strong", wfStrongFrom final {} evs),
    ("survivors", ofList surv)]

/-- `crash.trace`: the trace the modelled compute loop emits for a configuration -/
def hCrashTrace (j : Json) : R Json := do
  let final := finalOf (← intList j "final")
  let status0 ← natList j "status0"
  let batch ← nat j "batch"
  let same ← bool j "same"
  let g ← nat j "g"
  if h : 0 < batch then
    let bs := rankBatches (pending status0) 1 0 batch h
    let t := computeTrace final (resFileOf same) g (codeFlushes same) bs
    return ofList (t.map evJson)
  else
    return Json.null

/-- `crash.resume`: datasets after a list of interruptions and the finished run from there -/
def hCrashResume (j : Json) : R Json := do
  let final := finalOf (← intList j "final")
  let status0 ← natList j "status0"
  let results0 ← intList j "results0"
  let ints ← (← arr j "interruptions").mapM fun x => do
    return ({ b := (← nat x "batch") - 1, i := ← nat x "i", kill := ← bool x "kill" } : Interruption)
  let s := afterInterruptions final ⟨results0, status0⟩ ints
  let b ← nat j "batch"
  if h : 0 < b then
    let (fin, log) := computeRun final s b h
    return Json.mkObj [("status", ofNatList s.status), ("results", ofIntList s.results),
      ("final_status", ofNatList fin.status), ("final_results", ofIntList fin.results), ("calls", ofNatList log)]
  else return Json.null

end Usid.Driver
