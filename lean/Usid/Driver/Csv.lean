import Usid.Driver.J
import Usid.Model.Csv
namespace Usid.Driver
open Lean Usid.J Usid.Csv

def strMat (j : Json) (k : String) : R (List (List Str)) := do
  (← arr j k).mapM fun row => do return (← asStrList row).map String.toList

def hCsvLines (j : Json) : R Json := do
  let t : Table := { specDesc := (← strList j "spec_desc").map String.toList,
                     posDesc := (← strList j "pos_desc").map String.toList,
                     specVals := ← strMat j "spec_vals", posVals := ← strMat j "pos_vals", data := ← strMat j "data" }
  let parsed := parseCsv (csvLines t)
  return ofList (parsed.map fun row => ofStrList (row.map String.ofList))

def hCsvFs (j : Json) : R Json := do
  let fs : FS := { files := ← strList j "files" }
  let (fs', o) := toCsvFS fs (← str j "output") (← str j "tmp") (← nat j "bytes") (← bool j "force")
  return Json.mkObj [("files", ofStrList fs'.files),
    ("outcome", match o with | .wrote p => Json.str ("wrote:" ++ p) | .skipped => Json.str "skipped" | .refused => Json.str "refused")]

end Usid.Driver
