import Usid.Driver.J
import Usid.Model.UnitValues
namespace Usid.Driver
open Lean Usid.J Usid.Dims Usid.UV

def optNatList (j : Json) (k : String) : R (Option (List Nat)) :=
  match j.getObjVal? k with
  | .ok .null => pure none
  | .ok v => do return some (← asNatList v)
  | .error _ => pure none

def optBool (j : Json) (k : String) : Option Bool :=
  match j.getObjVal? k with
  | .ok (.bool b) => some b
  | _ => none

def hDimsSort (j : Json) : R Json := do
  let m ← natListList j "m"
  return Json.mkObj [("order", ofNatList (getSortOrder m)),
    ("dims", ofExcept ofNatList (getDimensionality m (← optNatList j "order")))]

def hUvGet (j : Json) : R Json := do
  let inds ← natListList j "inds"
  let vals ← intListList j "vals"
  let names ← strList j "names"
  let want ← optStrList j "want"
  let r := getUnitValues inds vals names want (optBool j "is_spec")
  return ofExcept (fun l => Json.mkObj (l.map fun kv => (kv.1, ofIntList kv.2))) r

def hUvRebuild (j : Json) : R Json := do
  return ofNatListList (createSpecIndsFromVals (← intListList j "vals"))

end Usid.Driver
