import Usid.Driver.Attrs
import Usid.Model.Dup
namespace Usid.Driver
open Lean Usid.J Usid.Dup Usid.Grp

def parseStatus (j : Json) : R StatusRec := do
  match ← str j "k" with
  | "absent" => return .absent
  | "notds" => return .notDataset
  | _ => return .dataset (← nat j "len") (← nat j "rank") (← bool j "u8") (← natList j "vals")

def parseResGroup (j : Json) : R ResGroup := do
  return { name := (← str j "name").toList, isGroup := ← bool j "is_group",
           attrs := Usid.Attrs.store (← parseDict (← fld j "attrs")),
           status := ← parseStatus (← fld j "status"), lastPixel := ← optInt j "last_pixel",
           otherSource := match j.getObjVal? "other_source" with
             | .ok (Json.bool b) => b
             | _ => false }

def statusJson : StatusRec → Json
  | .absent => Json.str "absent"
  | .notDataset => Json.str "notds"
  | .dataset _ _ _ vals => ofNatList vals

def hDupDecide (j : Json) : R Json := do
  let groups ← (← arr j "groups").mapM parseResGroup
  let dset := (← str j "dset").toList
  let tool := (← str j "tool").toList
  let parms ← parseDict (← fld j "parms")
  let n ← nat j "n"
  let ov ← bool j "override"
  let ms := matching groups dset tool parms
  let nm (g : ResGroup) : String := String.ofList g.name
  let dec := match decision groups dset tool parms n ov with
    | .returnExisting g => Json.mkObj [("kind", "return"), ("name", String.ofList g)]
    | .resume g => Json.mkObj [("kind", "resume"), ("name", String.ofList g)]
    | .fresh => Json.mkObj [("kind", "fresh")]
  let after := afterConstruct groups dset tool parms n
  return Json.mkObj [("dups", ofStrList ((dupsOf n ms).map nm)), ("partials", ofStrList ((partialsOf n ms).map nm)),
    ("decision", dec), ("after", ofList (after.map fun g => Json.mkObj [("name", nm g), ("status", statusJson g.status)]))]

end Usid.Driver
