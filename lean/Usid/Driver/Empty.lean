import Usid.Driver.J
import Usid.Model.Empty
namespace Usid.Driver
open Lean Usid.J Usid.Empty

def optNatL (j : Json) (k : String) : R (Option (List Nat)) :=
  match j.getObjVal? k with
  | .ok .null => pure none
  | .ok v => do return some (← asNatList v)
  | .error _ => pure none

def optStr (j : Json) (k : String) : Option String :=
  match j.getObjVal? k with
  | .ok (.str s) => some s
  | _ => none

def parseDset (j : Json) : R Dset := do
  let lk ← str j "links"
  return { shape := ← natList j "shape", dtype := ← str j "dtype", chunks := ← optNatL j "chunks",
           compression := optStr j "compression", attrs := ← strList j "attrs",
           links := if lk == "source" then .toSource else if lk == "copies" then .toCopies else .none,
           zero := ← bool j "zero" }

def dsetJson (d : Dset) : Json :=
  Json.mkObj [("shape", ofNatList d.shape), ("dtype", d.dtype),
    ("chunks", match d.chunks with | some c => ofNatList c | none => Json.null),
    ("compression", match d.compression with | some c => Json.str c | none => Json.null),
    ("attrs", ofStrList d.attrs),
    ("links", match d.links with | .toSource => "source" | .toCopies => "copies" | .none => "none"),
    ("zero", d.zero)]

/-- `empty.run`: a sequence of create_empty_dataset calls on one destination group; between calls the
    harness may write data into the returned dataset (`wrote`) -/
def hEmptyRun (j : Json) : R Json := do
  let src ← parseDset (← fld j "src")
  let init ← (← arr j "group").mapM fun m => do
    let k ← str m "kind"
    let nm ← str m "name"
    if k == "dataset" then
      let ds ← parseDset (← fld m "dset")
      return (nm, Member.dataset ds)
    else return (nm, Member.other)
  let calls ← arr j "calls"
  let (_, outs) ← calls.foldlM (fun (acc : Group × List Json) c => do
    let r : Req := { src := src, dtype := ← str c "dtype", name := ← str c "name", sameFile := ← bool j "same_file",
                     newAttrs := ← strList c "new_attrs" }
    match createEmpty acc.1 r with
    | .error e => return (acc.1, acc.2 ++ [err e])
    | .ok (g', d) =>
      -- data written by the user after the call
      let g'' := if (← bool c "wrote") then setMember g' r.name (.dataset { d with zero := false }) else g'
      return (g'', acc.2 ++ [ok (dsetJson d)])) (init, [])
  return ofList outs

end Usid.Driver
