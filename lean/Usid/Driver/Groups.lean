import Usid.Driver.J
import Usid.Model.Groups
namespace Usid.Driver
open Lean Usid.J Usid.Grp

def parseEntry (j : Json) : R Entry := do
  let k ← str j "kind"
  return { name := (← str j "name").toList, kind := if k == "group" then .group else .dataset }

def parseOp (j : Json) : R Op := do
  match ← str j "op" with
  | "indexed" => return .indexed (← str j "base").toList
  | "results" =>
    let d ← str j "dset"
    let sid := match j.getObjVal? "sid" with
      | .ok (Json.str x) => x
      | _ => d
    return .results d.toList (← str j "tool").toList (← bool j "same") sid.toList
  | _ => return .del (← str j "name").toList

def outJson : Except PyErr Str → Json
  | .ok n => ok (Json.str (String.ofList n))
  | .error e => err e

/-- `grp.run`: a history of create/delete requests on a parent group, then look-ups -/
def hGrpRun (j : Json) : R Json := do
  let init ← (← arr j "initial").mapM parseEntry
  let ops ← (← arr j "ops").mapM parseOp
  let (par, outs) := runOps init ops
  let queries ← (← arr j "queries").mapM fun q => do
    let d ← str q "dset"
    let sid := match q.getObjVal? "sid" with
      | .ok (Json.str x) => x
      | _ => d
    let same := match q.getObjVal? "same" with
      | .ok (Json.bool b) => b
      | _ => false
    return (d.toList, (← str q "tool").toList, same, sid.toList)
  let sources ← strList j "sources"
  return Json.mkObj [
    ("outs", ofList (outs.map outJson)),
    ("listing", ofStrList ((names par).map String.ofList)),
    ("find", ofList (queries.map fun (d, t, same, sid) => ofStrList ((findResults par d t same sid).map String.ofList))),
    ("sources", ofList (sources.map fun s => outJson (getSource par s.toList)))]

/-- `grp.file`: a history of requests addressed in turn to several parent groups of one file -/
def hGrpFile (j : Json) : R Json := do
  let parents ← (← arr j "parents").mapM fun p => do (← p.getArr?).toList.mapM parseEntry
  let ops ← (← arr j "ops").mapM fun o => do return ((← nat o "parent"), (← parseOp o))
  let (f, outs) := runFile parents ops
  let queries ← (← arr j "queries").mapM fun q => do
    return ((← str q "dset").toList, (← str q "tool").toList, (← str q "sid").toList)
  return Json.mkObj [
    ("outs", ofList (outs.map fun (p, o) => Json.mkObj [("parent", p), ("out", outJson o)])),
    ("listing", ofList (f.map fun par => ofStrList ((names par).map String.ofList))),
    ("find", ofList (f.map fun par => ofList (queries.map fun (d, t, sid) =>
      ofStrList ((findResults par d t true sid).map String.ofList))))]

end Usid.Driver
