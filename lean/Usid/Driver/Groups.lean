import Usid.Driver.J
import Usid.Model.Groups
namespace Usid.Driver
open Lean Usid.J Usid.Grp

def parseEntry (j : Json) : R Entry := do
  let k ← str j "kind"
  return { name := (← str j "name").toList, kind := if k == "group" then .group else .dataset }

def parseOp (j : Json) : R Op := do
  match ← str j "op" with
  | "indexed" => return .indexed (← str j "base").toList
  | "results" => return .results (← str j "dset").toList (← str j "tool").toList (← bool j "same")
  | _ => return .del (← str j "name").toList

def outJson : Except PyErr Str → Json
  | .ok n => ok (Json.str (String.ofList n))
  | .error e => err e

/-- `grp.run`: a history of create/delete requests on a parent group, then look-ups -/
def hGrpRun (j : Json) : R Json := do
  let init ← (← arr j "initial").mapM parseEntry
  let ops ← (← arr j "ops").mapM parseOp
  let (par, outs) := runOps init ops
  let queries ← (← arr j "queries").mapM fun q => do
    return ((← str q "dset").toList, (← str q "tool").toList)
  let sources ← strList j "sources"
  return Json.mkObj [
    ("outs", ofList (outs.map outJson)),
    ("listing", ofStrList ((names par).map String.ofList)),
    ("find", ofList (queries.map fun (d, t) => ofStrList ((findResults par d t).map String.ofList))),
    ("sources", ofList (sources.map fun s => outJson (getSource par s.toList)))]

end Usid.Driver
