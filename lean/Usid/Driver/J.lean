import Lean.Data.Json
import Usid.Basic.Py
/-! JSON helpers for the line-protocol driver. -/
namespace Usid.J
open Lean

abbrev R := Except String

def fld (j : Json) (k : String) : R Json := j.getObjVal? k
def nat (j : Json) (k : String) : R Nat := do (← fld j k).getNat?
def int (j : Json) (k : String) : R Int := do (← fld j k).getInt?
def bool (j : Json) (k : String) : R Bool := do (← fld j k).getBool?
def str (j : Json) (k : String) : R String := do (← fld j k).getStr?
def arr (j : Json) (k : String) : R (List Json) := do return (← (← fld j k).getArr?).toList

def optInt (j : Json) (k : String) : R (Option Int) :=
  match j.getObjVal? k with
  | .ok .null => pure none
  | .ok v => do return some (← v.getInt?)
  | .error _ => pure none

def asNatList (j : Json) : R (List Nat) := do (← j.getArr?).toList.mapM (·.getNat?)
def asIntList (j : Json) : R (List Int) := do (← j.getArr?).toList.mapM (·.getInt?)
def asStrList (j : Json) : R (List String) := do (← j.getArr?).toList.mapM (·.getStr?)
def asNatListList (j : Json) : R (List (List Nat)) := do (← j.getArr?).toList.mapM asNatList
def asIntListList (j : Json) : R (List (List Int)) := do (← j.getArr?).toList.mapM asIntList

def natList (j : Json) (k : String) : R (List Nat) := do asNatList (← fld j k)
def intList (j : Json) (k : String) : R (List Int) := do asIntList (← fld j k)
def strList (j : Json) (k : String) : R (List String) := do asStrList (← fld j k)
def natListList (j : Json) (k : String) : R (List (List Nat)) := do asNatListList (← fld j k)
def intListList (j : Json) (k : String) : R (List (List Int)) := do asIntListList (← fld j k)

def optStrList (j : Json) (k : String) : R (Option (List String)) :=
  match j.getObjVal? k with
  | .ok .null => pure none
  | .ok v => do return some (← asStrList v)
  | .error _ => pure none

def ofNatList (l : List Nat) : Json := Json.arr (l.map (fun n => toJson n)).toArray
def ofIntList (l : List Int) : Json := Json.arr (l.map (fun n => toJson n)).toArray
def ofStrList (l : List String) : Json := Json.arr (l.map Json.str).toArray
def ofNatListList (l : List (List Nat)) : Json := Json.arr (l.map ofNatList).toArray
def ofIntListList (l : List (List Int)) : Json := Json.arr (l.map ofIntList).toArray
def ofList (l : List Json) : Json := Json.arr l.toArray

def ok (v : Json) : Json := Json.mkObj [("ok", v)]
def err (e : PyErr) : Json := Json.mkObj [("err", Json.str e.toString)]
def ofExcept {α : Type} (f : α → Json) : Except PyErr α → Json
  | .ok v => ok (f v)
  | .error e => err e

end Usid.J
