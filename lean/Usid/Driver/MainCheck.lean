import Usid.Driver.J
import Usid.Model.MainCheck
namespace Usid.Driver
open Lean Usid.J Usid.MainCheck

def parseAttrV (j : Json) (k : String) : R AttrV := do
  match ← str j k with
  | "str" => return .str
  | "nonstr" => return .nonStr
  | _ => return .absent

def parseLink (j : Json) : R Link := do
  match ← str j "k" with
  | "absent" => return .absent
  | "notref" => return .notRef
  | "dangling" => return .dangling
  | "group" => return .toGroup
  | _ => return .toDataset (← natList j "shape") (← optStrList j "labels") (← optStrList j "units")

def parseDesc (j : Json) : R Desc := do
  return { isDataset := ← bool j "is_dataset", shape := ← natList j "shape",
           quantity := ← parseAttrV j "quantity", units := ← parseAttrV j "units",
           pi := ← parseLink (← fld j "pi"), pv := ← parseLink (← fld j "pv"),
           si := ← parseLink (← fld j "si"), sv := ← parseLink (← fld j "sv") }

/-- `main.check`: check_if_main / USIDataset gate for each descriptor, and get_all_main over the tree -/
def hMainCheck (j : Json) : R Json := do
  let tree ← (← arr j "tree").mapM fun x => do return (← str x "name", ← parseDesc (← fld x "desc"))
  return Json.mkObj [
    ("check", ofList (tree.map fun nd => Json.bool (checkIfMain nd.2))),
    ("wrap", ofList (tree.map fun nd => match wrap nd.2 with | .ok _ => Json.str "ok" | .error e => Json.str e.toString)),
    ("all_main", ofStrList (getAllMain tree))]

end Usid.Driver
