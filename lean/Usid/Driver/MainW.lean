import Usid.Driver.Anc
import Usid.Model.Main
namespace Usid.Driver
open Lean Usid.J Usid.Anc Usid.Main

def parseDims (j : Json) : R (List Dim) := do
  (← j.getArr?).toList.mapM fun d => do
    return ({ name := ← str d "name", units := ← str d "units", values := ← intList d "values" } : Dim)

def parseSide (j : Json) (s2f : Bool) : R SideArg := do
  match ← str j "k" with
  | "dims" => return .dims (← parseDims (← fld j "dims"))
  | "reuse" =>
    let dims ← parseDims (← fld j "dims")
    return .reuse (← str j "base") (writeIndVal dims s2f) (npointsOf dims) (← bool j "same")
  | "reuse_bad" => return .reuseBad (← str j "base") (← bool j "same")
  | _ => return .badType

def parseData (j : Json) : R DataArg := do
  match ← str j "k" with
  | "array" => return .array (← nat j "rank")
  | "shape" => return .shape (← nat j "len") (← bool j "positive") (← bool j "dtype")
  | _ => return .badType

def hMainWrite (j : Json) : R Json := do
  let s2f ← bool j "s2f"
  let a : Args := { groupOk := true, stringsOk := ← bool j "strings_ok", name := ← str j "name",
                    n := ← nat j "n", m := ← nat j "m", data := ← parseData (← fld j "data"),
                    pos := ← parseSide (← fld j "pos") s2f, spec := ← parseSide (← fld j "spec") s2f,
                    posPrefix := ← str j "pos_prefix", specPrefix := ← str j "spec_prefix", s2f := s2f,
                    storageOk := match j.getObjVal? "storage_ok" with
                      | .ok (Json.bool b) => b
                      | _ => true }
  let g : Group := { members := ← strList j "members" }
  let (g', r) := writeMain g a
  return Json.mkObj [("outcome", match r with | .ok _ => Json.str "ok" | .error e => Json.str e.toString),
    ("members", ofStrList g'.members)]

end Usid.Driver
