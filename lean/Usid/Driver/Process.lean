import Usid.Driver.J
import Usid.Model.Process
import Usid.Model.Sync
namespace Usid.Driver
open Lean Usid.J Usid.Proc

def windowsTotal (batch start stop : Nat) : List (Nat × Nat) :=
  if h : 0 < batch then windows batch h start stop else []

/-- `proc.ranks`: per-rank ranges and batches of positions for a status mask -/
def hProcRanks (j : Json) : R Json := do
  let status ← natList j "status"
  let size ← nat j "size"
  let batch ← nat j "batch"
  -- optional per-rank batch limits (ranks on sockets with different memory): default = the common limit
  let batches ← match j.getObjVal? "batches" with
    | .ok _ => natList j "batches"
    | .error _ => pure (List.replicate size batch)
  let pend := pending status
  let ranks := (List.range size).map fun r =>
    let s := rankStart pend.length size r
    let e := rankEnd pend.length size r
    let bs := (windowsTotal (batches.getD r batch) s e).map (fun w => pySlice pend w.1 w.2)
    Json.mkObj [("start", s), ("end", e), ("batches", ofNatListList bs)]
  return Json.mkObj [("pending", ofNatList pend), ("ranks", ofList ranks)]

/-- `proc.run`: single-rank compute() on a status mask; results are reported as the list of
    positions whose slot holds `f p` afterwards (slots start as `none`) -/
def hProcRun (j : Json) : R Json := do
  -- the marks compute() starts from: a status dataset ("status"), or a group without one ("n" positions and,
  -- for a group left by an old version, "last_pixel")
  let status ← match j.getObjVal? "status" with
    | .ok _ => natList j "status"
    | .error _ => do
      let n ← nat j "n"
      let lp := match j.getObjVal? "last_pixel" with
        | .ok v => (v.getInt?).toOption
        | .error _ => none
      pure (initialStatus n none lp)
  let batch ← nat j "batch"
  if h : 0 < batch then
    let s : DS (Option Nat) := { results := status.map (fun _ => none), status := status }
    let (fin, log) := computeRun (fun p => some p) s batch h
    let computed := (List.range status.length).filter (fun p => fin.results[p]? == some (some p))
    return Json.mkObj [("batches", ofNatListList (rankBatches (pending status) 1 0 batch h)),
      ("calls", ofNatList log), ("status", ofNatList fin.status), ("computed", ofNatList computed)]
  else
    return Json.mkObj [("nontermination", true)]

def hSocket (j : Json) : R Json := do
  let names ← strList j "names"
  return ofNatList (socketMasters names)

/-- `sync.safe`: is the synchronisation skeleton extracted from `compute()` safe; `sync.run`: what every rank had
    seen of the completion marks when it derived its range, under a given schedule -/
def parseProg (j : Json) : R Usid.Sync.Prog := do
  return (← strList j "prog").map fun s => match s with
    | "assign" => Usid.Sync.Instr.assign
    | "barrier" => .barrier
    | "mark" => .mark
    | _ => .other

def hSyncSafe (j : Json) : R Json := do
  return Json.bool (Usid.Sync.Safe (← parseProg j))

def hSyncRun (j : Json) : R Json := do
  let p ← parseProg j
  let n ← nat j "n"
  let s := Usid.Sync.run p n Usid.Sync.init (← natList j "schedule")
  return Json.mkObj [("seen", ofList ((List.range n).map fun r => match s.seen r with
    | none => Json.null
    | some k => toJson k)), ("marks", s.marks), ("pcs", ofNatList ((List.range n).map s.pc))]

end Usid.Driver
