import Usid.Driver.J
import Usid.Model.ReadOnly
namespace Usid.Driver
open Lean Usid.J Usid.ReadOnly

/-- `ro.run`: mode, initial flag, calls [{name, trace: [bool]}] ->
    per call {kind, conforms, err, changed, flag} (flag = the flag the call saw) -/
def hRoRun (j : Json) : R Json := do
  let mode := if (← str j "mode") == "r" then Mode.ro else Mode.rw
  let flag0 ← bool j "flag"
  let calls ← (← arr j "calls").mapM fun c => do
    let name ← str c "name"
    let tr ← (← arr c "trace").mapM fun b => do
      match ← b.getStr? with
      | "w" => pure (Prim.write 0 1)
      | "g" => pure Prim.guard
      | _ => pure Prim.read
    match kindOf name with
    | none => throw s!"unknown-op {name}"
    | some k => return ({ name := name, kind := k, trace := tr } : Call)
  let (_, outs) := calls.foldl (fun (acc : State × List Json) c =>
    let (st', o) := step (fun _ _ f => f) acc.1 c
    let kind := match c.kind with | .read => "read" | .toggle => "toggle" | .write => "write"
    (st', acc.2 ++ [Json.mkObj [("kind", kind), ("conforms", c.conforms),
      ("err", match o.err with | some e => Json.str e.toString | none => Json.null),
      ("changed", decide (st'.store ≠ acc.1.store)), ("flag", acc.1.sorted)]])) (⟨mode, [], flag0⟩, [])
  return ofList outs

end Usid.Driver
