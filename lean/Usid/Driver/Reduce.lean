import Usid.Driver.Reshape
import Usid.Model.Reduce
import Usid.Model.UnitValues
namespace Usid.Driver
open Lean Usid.J Usid.Reshape Usid.Reduce Usid Usid.Dims

def ancJson (a : AncK) : Json :=
  Json.mkObj [("labels", ofStrList a.labels), ("units", ofStrList a.units), ("inds", ofNatListList a.inds),
    ("vals", ofIntListList a.vals)]

/-- `reduce.run`: in-memory groups and the to-file pipeline on a generated dataset -/
def hReduce (j : Json) : R Json := do
  let n ← nat j "n"
  let m ← nat j "m"
  let pos ← natListList j "pos"           -- N × kp
  let spec ← natListList j "spec"         -- ks × M
  let posV ← intListList j "posv"         -- N × kp
  let specV ← intListList j "specv"       -- ks × M
  let plabs ← strList j "plabs"
  let slabs ← strList j "slabs"
  let punits ← strList j "punits"
  let sunits ← strList j "sunits"
  let dims ← strList j "dims"
  match reshapeToNDims (mainTokens n m) pos spec plabs slabs false with
  | .error e => return Json.mkObj [("mem", err e)]
  | .ok (nd, labels) =>
    match reduceMem nd labels dims with
    | .error e => return Json.mkObj [("mem", err e)]
    | .ok g =>
      let mem := Json.mkObj [("shape", ofNatList g.shape), ("groups", ofNatListList g.flat)]
      let posSliced := dims.any (fun d => plabs.contains d)
      let specSliced := dims.any (fun d => slabs.contains d)
      let posK : AncK := { labels := plabs, units := punits, inds := transposeM pos, vals := Usid.UV.transposeI posV }
      let specK : AncK := { labels := slabs, units := sunits, inds := spec, vals := specV }
      let newPos := if posSliced then writeReducedAnc posK (dims.filter (fun d => plabs.contains d)) else posK
      let newSpec := if specSliced then writeReducedAnc specK (dims.filter (fun d => slabs.contains d)) else specK
      -- flatten the groups array (each cell holds its group) with the new index matrices
      let file := match reshapeFromNDimsBoth g (transposeM newPos.inds) newSpec.inds with
        | .error e => err e
        | .ok two =>
          -- link_as_main validates that the flattened result is two dimensional and matches the ancillaries
          if two.shape.length != 2 || two.shape.getD 0 0 != (transposeM newPos.inds).length ||
              two.shape.getD 1 0 != ncols newSpec.inds then err .valueErr else
          ok (Json.mkObj [("shape", ofNatList two.shape), ("groups", ofNatListList two.flat),
            ("pos", ancJson newPos), ("spec", ancJson newSpec), ("pos_reused", !posSliced), ("spec_reused", !specSliced)])
      return Json.mkObj [("mem", ok mem), ("file", file)]

end Usid.Driver
