import Usid.Driver.Reshape
import Usid.Model.Reduce
import Usid.Model.UnitValues
namespace Usid.Driver
open Lean Usid.J Usid.Reshape Usid.Reduce Usid Usid.Dims

def ancJson (a : AncK) : Json :=
  Json.mkObj [("labels", ofStrList a.labels), ("units", ofStrList a.units), ("inds", ofNatListList a.inds),
    ("vals", ofIntListList a.vals)]

/-- `reduce.run`: in-memory groups and the to-file pipeline on a generated dataset -/
def hReduce (j : Json) : R Json := do
  let n ← nat j "n"
  let m ← nat j "m"
  let pos ← natListList j "pos"           -- N × kp
  let spec ← natListList j "spec"         -- ks × M
  let posV ← intListList j "posv"         -- N × kp
  let specV ← intListList j "specv"       -- ks × M
  let plabs ← strList j "plabs"
  let slabs ← strList j "slabs"
  let punits ← strList j "punits"
  let sunits ← strList j "sunits"
  let dims ← strList j "dims"
  match reshapeToNDims (mainTokens n m) pos spec plabs slabs false with
  | .error e => return Json.mkObj [("mem", err e)]
  | .ok (nd, labels) =>
    match reduceMem nd labels dims with
    | .error e => return Json.mkObj [("mem", err e)]
    | .ok g =>
      let mem := Json.mkObj [("shape", ofNatList g.shape), ("groups", ofNatListList g.flat)]
      let posK : AncK := { labels := plabs, units := punits, inds := transposeM pos, vals := Usid.UV.transposeI posV }
      let specK : AncK := { labels := slabs, units := sunits, inds := spec, vals := specV }
      let file := match reduceToFile nd labels posK specK dims with
        | .error e => err e
        | .ok res =>
          ok (Json.mkObj [("shape", ofNatList res.data.shape), ("groups", ofNatListList res.data.flat),
            ("pos", ancJson res.pos), ("spec", ancJson res.spec), ("pos_reused", res.posReused),
            ("spec_reused", res.specReused)])
      return Json.mkObj [("mem", ok mem), ("file", file)]

end Usid.Driver
