import Usid.Driver.J
import Usid.Model.Reshape
namespace Usid.Driver
open Lean Usid.J Usid.Reshape Usid

def ndJson (a : NDArr Nat) : Json := Json.mkObj [("shape", ofNatList a.shape), ("flat", ofNatList a.flat)]

def mainTokens (n m : Nat) : NDArr Nat := { shape := [n, m], flat := List.range (n * m) }

def hRsToNd (j : Json) : R Json := do
  let n ← nat j "n"
  let m ← nat j "m"
  let r := reshapeToNDims (mainTokens n m) (← natListList j "pos") (← natListList j "spec")
    (← strList j "plabs") (← strList j "slabs") (← bool j "sort")
  return match r with
  | .ok (a, labs) => ok (Json.mkObj [("shape", ofNatList a.shape), ("flat", ofNatList a.flat), ("labels", ofStrList labs)])
  | .error e => err e

def hRsWrapper (j : Json) : R Json := do
  let n ← nat j "n"
  let m ← nat j "m"
  match wrapperInit (mainTokens n m) (← natListList j "pos") (← natListList j "spec")
      (← strList j "plabs") (← strList j "slabs") (← bool j "sort") with
  | .error e => return err e
  | .ok w0 =>
    let ops ← strList j "ops"
    let snap (w : Wrapper Nat) : Json := Json.mkObj [("labels", ofStrList w.labels), ("sizes", ofNatList w.sizes),
      ("view", match w.view with | some a => ndJson a | none => Json.null)]
    let (_, outs) := ops.foldl (fun (acc : Wrapper Nat × List Json) op =>
      let w := if op == "toggle" then acc.1.toggle else acc.1
      (w, acc.2 ++ [snap w])) (w0, [snap w0])
    return ok (ofList outs)

def optMat (j : Json) (k : String) : R (Option (List (List Nat))) :=
  match j.getObjVal? k with
  | .ok .null => pure none
  | .ok v => do return some (← asNatListList v)
  | .error _ => pure none

def hRsFromNd (j : Json) : R Json := do
  let a : NDArr Nat := { shape := ← natList j "shape", flat := ← natList j "flat" }
  let r ← match ← optMat j "pos", ← optMat j "spec" with
    | some p, some s => pure (reshapeFromNDimsBoth a p s)
    | some p, none => pure (reshapeFromNDimsOne a p false)
    | none, some s => pure (reshapeFromNDimsOne a s true)
    | none, none => pure (.error .valueErr)
  return ofExcept ndJson r

end Usid.Driver
