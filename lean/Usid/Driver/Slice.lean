import Usid.Driver.Reshape
import Usid.Model.Slice
namespace Usid.Driver
open Lean Usid.J Usid.Reshape Usid.Slice Usid Usid.Dims

def optI (j : Json) (k : String) : Option Int :=
  match j.getObjVal? k with
  | .ok v => (v.getInt?).toOption
  | .error _ => none

def parseSel (j : Json) : R Sel := do
  match ← str j "t" with
  | "int" => return .int (← int j "i")
  | "slice" => return .slice (optI j "a") (optI j "b") (optI j "s")
  | "list" => return .list (← intList j "l")
  | "tuple" => return .tuple (← intList j "l")
  | _ => return .other

def parseSliceDict (j : Json) : R SliceDict := do
  (← j.getArr?).toList.mapM fun kv => do return (← str kv "k", ← parseSel (← fld kv "v"))

/-- `slice.nd`: slice the (file-order or sorted) N-D view of a generated dataset -/
def hSliceNd (j : Json) : R Json := do
  let n ← nat j "n"
  let m ← nat j "m"
  let sd ← parseSliceDict (← fld j "sd")
  match wrapperInit (mainTokens n m) (← natListList j "pos") (← natListList j "spec")
      (← strList j "plabs") (← strList j "slabs") (← bool j "sort") with
  | .error e => return err e
  | .ok w =>
    match w.view with
    | none => return err .valueErr
    | some v => return ofExcept ndJson (sliceND v w.labels sd)

/-- `slice.2d` -/
def hSlice2d (j : Json) : R Json := do
  let n ← nat j "n"
  let m ← nat j "m"
  let sd ← parseSliceDict (← fld j "sd")
  let pos ← natListList j "pos"
  let spec ← natListList j "spec"
  let r := slice2D (mainTokens n m) pos (transposeM spec) (← strList j "plabs") (← strList j "slabs")
    (← natList j "psizes") (← natList j "ssizes") sd (← bool j "lazy")
  let rc := posSpecSlices pos (transposeM spec) (← strList j "plabs") (← strList j "slabs")
    (← natList j "psizes") (← natList j "ssizes") sd
  return Json.mkObj [("data", ofExcept ndJson r),
    ("rows", ofExcept (fun p => Json.mkObj [("rows", ofNatList p.1), ("cols", ofNatList p.2)]) rc)]

end Usid.Driver
