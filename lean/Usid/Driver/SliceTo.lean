import Usid.Driver.Slice
import Usid.Model.SliceTo
namespace Usid.Driver
open Lean Usid.J Usid.Slice Usid.SliceTo Usid.Anc Usid

def parseSideST (j : Json) : R (Side × List Nat) := do
  return ({ labels := ← strList j "labels", units := ← strList j "units", inds := ← natListList j "inds",
            vals := ← intListList j "vals" }, ← natList j "sizes")

def newSideJson : NewSide → Json
  | .reused => Json.null
  | .written w => ofStrList w.labels

def hSliceTo (j : Json) : R Json := do
  let n ← nat j "n"
  let m ← nat j "m"
  let (pos, psz) ← parseSideST (← fld j "pos")
  let (spec, ssz) ← parseSideST (← fld j "spec")
  let sd ← parseSliceDict (← fld j "sd")
  match sliceToDataset (mainTokens n m) pos spec psz ssz sd with
  | .error e => return err e
  | .ok r =>
    let reused (s : NewSide) : Bool := match s with | .reused => true | _ => false
    return ok (Json.mkObj [("shape", ofNatList r.data.shape), ("pos_reused", reused r.pos), ("spec_reused", reused r.spec),
      ("pos_labels", newSideJson r.pos), ("spec_labels", newSideJson r.spec)])

end Usid.Driver
