import Usid.Driver.MainW
import Usid.Model.Translate
namespace Usid.Driver
open Lean Usid.J Usid.Anc Usid.Translate

def writtenJson (w : Written) : Json :=
  Json.mkObj [("labels", ofStrList w.labels), ("units", ofStrList w.units),
    ("ind", ofNatListList w.indices), ("val", ofIntListList w.values)]

def transOutJson (o : Out Int) : Json :=
  Json.mkObj [("shape", ofNatList o.main.shape), ("main", ofIntList o.main.flat),
    ("pos", writtenJson o.pos), ("spec", writtenJson o.spec)]

def hTransSidpy (j : Json) : R Json := do
  let axes ← (← arr j "axes").mapM fun d => do
    return ({ name := ← str d "name", units := ← str d "units", values := ← intList d "values",
              spatial := ← bool d "spatial" } : Axis)
  let a : NDArr Int := { shape := ← natList j "shape", flat := ← intList j "flat" }
  let o := if (← bool j "unfixed") then writeSidpyUnfixed a axes else writeSidpy a axes
  return transOutJson o

def hTransImage (j : Json) : R Json := do
  let a : NDArr Int := { shape := ← natList j "shape", flat := ← intList j "flat" }
  return transOutJson (imageTranslate a)

def parseDimsArg (j : Json) : R DimsArg := do
  match ← str j "k" with
  | "dims" => return .dims (← parseDims (← fld j "dims"))
  | _ => return .badType

def strPairs (l : List (String × String)) : Json :=
  ofList (l.map fun (k, v) => ofStrList [k, v])

def hTransArray (j : Json) : R Json := do
  let extras ← (← arr j "extras").mapM fun e => do
    return ({ keyIsStr := ← bool e "key_is_str", key := ← str e "key",
              val := if (← bool e "val_ok") then .arrayLike else .badType, content := ← intList e "content" } : Extra)
  let parms ← (← arr j "parms").mapM fun p => do
    match ← asStrList p with
    | [k, v] => pure (k, v)
    | _ => throw "bad parm"
  let dj ← fld j "data"
  let dk ← str dj "k"
  let rank ← (if dk == "array" then nat dj "rank" else pure 0)
  let data : Translate.DataArg := if dk == "array" then .array rank else .badType
  let a : ArrIn := { stringsOk := ← bool j "strings_ok", dataName := ← str j "data_name", translator := ← str j "translator",
                     data := data, n := ← nat j "n", m := ← nat j "m", raw := ← intList j "raw",
                     pos := ← parseDimsArg (← fld j "pos"), spec := ← parseDimsArg (← fld j "spec"),
                     parms := parms, extrasIsDict := ← bool j "extras_is_dict", extras := extras }
  let before : PathState := if (← bool j "preexisting") then .other 1 else .absent
  let (after, r) := arrayTranslate before a
  let afterJ : Json := match after with
    | .absent => Json.str "absent"
    | .other _ => Json.str "old"
    | .usid f => Json.mkObj [("root", strPairs f.rootAttrs), ("meas", f.measName), ("meas_attrs", strPairs f.measAttrs),
        ("chan", f.chanName), ("members", ofStrList f.members), ("shape", ofNatList f.mainShape), ("main", ofIntList f.main),
        ("pos", writtenJson f.pos), ("spec", writtenJson f.spec),
        ("extras", ofList (f.extras.map fun (k, c) => Json.mkObj [("key", k), ("content", ofIntList c)]))]
  return Json.mkObj [("outcome", match r with | .ok _ => Json.str "ok" | .error e => Json.str e.toString), ("path", afterJ)]

end Usid.Driver
