import Usid.Driver
import Usid.Generated.JobWindow
import Usid.Generated.RecommendCores
/-! Handlers over the GENERATED kernels (translated from /repo on every run). -/
namespace Usid.Driver
open Lean Usid.J Usid.Generated

def ofInt3 (t : Int × Int × Int) : Json := ofIntList [t.1, t.2.1, t.2.2]
def ofInt2 (t : Int × Int) : Json := ofIntList [t.1, t.2]

def hGenAssign (j : Json) : R Json := do
  return ofExcept ofInt3 (assign_job_indices (← int j "jobs") (← int j "rank") (← int j "size") (← int j "batch"))

def hGenWindow (j : Json) : R Json := do
  return ofExcept ofInt2 (read_window (← int j "start") (← int j "stop") (← int j "batch") (← int j "end"))

def hGenSetCores (j : Json) : R Json := do
  return ofExcept (fun (n : Int) => toJson n) (set_cores (← int j "logical") (← optInt j "cores"))

def hGenRecommend (j : Json) : R Json := do
  return ofExcept (fun (n : Int) => toJson n)
    (recommend_cpu_cores (← int j "logical") (← int j "num_jobs") (← optInt j "requested")
      (← optInt j "min_free") (← bool j "lengthy"))

def genHandlers : List (String × (Json → R Json)) := [
  ("gen.assign", hGenAssign), ("gen.window", hGenWindow), ("gen.set_cores", hGenSetCores),
  ("gen.recommend", hGenRecommend)
]
end Usid.Driver
