import Usid.Driver
import Usid.Model.LoopGen
import Usid.Model.Memory
/-! Handlers over the GENERATED kernels (translated from /repo on every run). -/
namespace Usid.Driver
open Lean Usid.J Usid.Generated

def ofInt3 (t : Int × Int × Int) : Json := ofIntList [t.1, t.2.1, t.2.2]
def ofInt2 (t : Int × Int) : Json := ofIntList [t.1, t.2]

def hGenAssign (j : Json) : R Json := do
  return ofExcept ofInt3 (assign_job_indices (← int j "jobs") (← int j "rank") (← int j "size") (← int j "batch"))

def hGenWindow (j : Json) : R Json := do
  return ofExcept ofInt2 (read_window (← int j "start") (← int j "stop") (← int j "batch") (← int j "end"))

def hGenSetCores (j : Json) : R Json := do
  return ofExcept (fun (n : Int) => toJson n) (set_cores (← int j "logical") (← optInt j "cores"))

def hGenRecommend (j : Json) : R Json := do
  return ofExcept (fun (n : Int) => toJson n)
    (recommend_cpu_cores (← int j "logical") (← int j "num_jobs") (← optInt j "requested")
      (← optInt j "min_free") (← bool j "lengthy"))

def hGenLoop (j : Json) : R Json := do
  let r := computeLoop (← int j "logical") (← int j "cores") (← nat j "fuel") (← int j "start") (← int j "stop")
    (← int j "batch") 0 []
  return match r with
  | .error e => err e
  | .ok none => Json.mkObj [("ok", Json.str "no-termination")]
  | .ok (some ms) => ok (ofIntListList (ms.map (fun m => [m.1, m.2])))

def hMaxPos (j : Json) : R Json := do
  let mb : Option Nat := match j.getObjVal? "mb" with
    | .ok .null => none
    | .ok v => (v.getNat?).toOption
    | .error _ => none
  let g := Usid.Mem.granted (← nat j "avail") mb
  -- the GENERATED `__set_memory` decides the batch size; `granted` is reported for the oracle's messages only
  return match set_memory (← int j "avail") (← optInt j "mb") ⟨← int j "num", ← int j "den"⟩ (← int j "workers") 1
      (← int j "rowbytes") 1 with
    | .error e => err e
    | .ok mp => Json.mkObj [("granted", g), ("maxpos", toJson mp)]

def optNat (j : Json) (k : String) : Option Nat :=
  match j.getObjVal? k with
  | .ok .null => none
  | .ok v => (v.getNat?).toOption
  | .error _ => none

/-- constructor sizing: generated `__set_cores`, then the generated `__set_memory` (floats as exact fractions;
    one rank on the socket; `rowbytes` = itemsize × columns) -/
def sizing (j : Json) : R (Except PyErr (Int × Int)) := do
  match set_cores (← int j "logical") (← optInt j "cores") with
  | .error e => return .error e
  | .ok c =>
    return match set_memory (← int j "avail") (← optInt j "mb") ⟨← int j "num", ← int j "den"⟩ c 1
        (← int j "rowbytes") 1 with
      | .error e => .error e
      | .ok mp => .ok (c, mp)

def hGenSizing (j : Json) : R Json := do
  return match ← sizing j with
  | .error e => err e
  | .ok (c, mp) => Json.mkObj [("cores", toJson c), ("maxpos", toJson mp)]

/-- sizing followed by the compute loop over `n` pending positions -/
def hGenRun (j : Json) : R Json := do
  match ← sizing j with
  | .error e => return err e
  | .ok (c, mp) =>
    let n ← nat j "n"
    let r := computeLoop (← int j "logical") c (n + 2) 0 n mp 0 []
    let res := match r with
      | .error e => err e
      | .ok none => Json.mkObj [("ok", Json.str "no-termination")]
      | .ok (some ms) => ok (ofIntListList (ms.map (fun m => [m.1, m.2])))
    return Json.mkObj [("cores", toJson c), ("maxpos", mp), ("loop", res)]

def genHandlers : List (String × (Json → R Json)) := [
  ("gen.assign", hGenAssign), ("gen.window", hGenWindow), ("gen.set_cores", hGenSetCores),
  ("gen.recommend", hGenRecommend), ("gen.loop", hGenLoop), ("mem.maxpos", hMaxPos),
  ("gen.sizing", hGenSizing), ("gen.run", hGenRun)
]
end Usid.Driver
