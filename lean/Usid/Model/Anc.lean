import Usid.Basic.Py
import Usid.Basic.ListPrims
/-! Model of the ancillary-matrix builders: `build_ind_val_matrices`, `make_indices_matrix`
    (pyUSID/io/anc_build_utils.py) and `write_ind_val_dsets` (pyUSID/io/hdf_utils/simple.py).
    Matrices are lists of rows in SPECTROSCOPIC orientation (one row per dimension); position matrices
    are their transposes.  Values are integers (quarter units in the harness). -/
namespace Usid.Anc
open Usid

/-- `tile_size`, `rep_size` of dimension `d` -/
def repSize (lengths : List Nat) (d : Nat) : Nat := (lengths.take d).prod
def tileSize (lengths : List Nat) (d : Nat) : Nat := (lengths.drop (d + 1)).prod

/-- `np.tile(np.repeat(vec, rs), ts)` for every dimension -/
def buildRows {α : Type} (vecs : List (List α)) : List (List α) :=
  let lengths := vecs.map List.length
  (List.range vecs.length).map (fun d =>
    tile (repeatEach (vecs.getD d []) (repSize lengths d)) (tileSize lengths d))

/-- `build_ind_val_matrices(unit_values, is_spectral=True)`: (indices, values), first vector fastest -/
def buildIndVal (unitValues : List (List Int)) : List (List Nat) × List (List Int) :=
  (buildRows (unitValues.map (fun v => List.range v.length)), buildRows unitValues)

def transpose {α : Type} [Inhabited α] (rows : List (List α)) : List (List α) :=
  match rows with
  | [] => []
  | r :: _ => (List.range r.length).map (fun c => rows.map (fun row => row.getD c default))

/-- `make_indices_matrix(num_steps, is_position=False)` (short and wide) -/
def makeIndicesMatrix (numSteps : List Nat) : Except PyErr (List (List Nat)) :=
  if numSteps = [] then .error .valueErr
  else if numSteps = [1] then .ok [[0]]
  else if numSteps.any (· < 2) then .error .valueErr
  else .ok ((List.range numSteps.length).map (fun i =>
    let part1 := (numSteps.take (i + 1)).prod
    let part2 := (numSteps.take i).prod
    let part3 := (numSteps.drop (i + 1)).prod
    tile ((List.range part1).map (· / part2)) part3))

structure Dim where
  name : String
  units : String
  values : List Int
deriving Repr, DecidableEq

structure Written where
  labels : List String
  units : List String
  indices : List (List Nat)      -- one row per stored dimension (spectroscopic orientation)
  values : List (List Int)
deriving Repr, DecidableEq

/-- `write_ind_val_dsets(..., slow_to_fast)`, DEFAULT mode -/
def writeIndVal (dims : List Dim) (slowToFast : Bool) : Written :=
  -- arrange fastest -> slowest for the builder
  let f2s := if slowToFast then dims.reverse else dims
  let (ind, val) := buildIndVal (f2s.map (·.values))
  -- stored slowest -> fastest: flipud (spectroscopic) / fliplr (position)
  let s2f := f2s.reverse
  { labels := s2f.map (·.name), units := s2f.map (·.units), indices := ind.reverse, values := val.reverse }

end Usid.Anc
