import Usid.Basic.Py
/-! Model of `check_for_matching_attrs` (pyUSID/io/hdf_utils/simple.py) over the supported value types.
    Numbers are exact rationals `num / den` (`den > 0`); floats enter as the exact value of the float. -/
namespace Usid.Attrs

inductive Scalar
  | int (n : Int)                -- Python int / numpy integer
  | num (n : Int) (d : Nat)      -- float as an exact rational n / d, d > 0
  | bool (b : Bool)
  | str (s : String)
  | nan                          -- float('nan'): a legitimate parameter value that must equal itself
deriving DecidableEq, Repr

inductive Val
  | none
  | scalar (s : Scalar)
  | list (l : List Scalar)
deriving DecidableEq, Repr

abbrev Dict := List (String × Val)

/-- what `get_attr` returns for a stored attribute: a (numpy) scalar / str, or an array -/
inductive Stored
  | scalar (s : Scalar)
  | array (l : List Scalar)
deriving DecidableEq, Repr

abbrev Obj := List (String × Stored)

/-- `write_simple_attrs`: `None` is not written; a list becomes an array -/
def storeVal : Val → Option Stored
  | .none => Option.none
  | .scalar s => some (.scalar s)
  | .list l => some (.array l)

def store (d : Dict) : Obj := d.filterMap (fun kv => (storeVal kv.2).map (fun s => (kv.1, s)))

/-- numeric value of a scalar (numpy treats booleans as 0 / 1) -/
def numOf : Scalar → Option (Int × Nat)
  | .int n => some (n, 1)
  | .num n d => some (n, d)
  | .bool b => some (if b then 1 else 0, 1)
  | .str _ => Option.none
  | .nan => Option.none

/-- Python / numpy `==` between two scalars, with the NaN rule of the comparison (NaN matches NaN) -/
def scalarEq (a b : Scalar) : Bool :=
  match numOf a, numOf b with
  | some (an, ad), some (bn, bd) => an * bd == bn * ad
  | Option.none, Option.none => a == b
  | _, _ => false

/-- `np.isclose(a, b)` with the default tolerances, exactly over ℚ:
    |a − b| ≤ 1e-8 + 1e-5·|b|   ⟺   10⁸·|an·bd − bn·ad| ≤ ad·(bd + 1000·|bn|) -/
def isClose (a b : Int × Nat) : Bool :=
  (10 ^ 8 : Int) * (a.1 * b.2 - b.1 * a.2).natAbs ≤ a.2 * ((b.2 : Int) + 1000 * b.1.natAbs)

def isNum (s : Scalar) : Bool := (numOf s).isSome || s == .nan

/-- `np.isclose(a, b, equal_nan=True)` on two array elements -/
def closeS (a b : Scalar) : Bool :=
  match numOf a, numOf b with
  | some x, some y => isClose x y
  | _, _ => a == .nan && b == .nan

def isBoolS : Scalar → Bool
  | .bool _ => true
  | _ => false

def isIntKind : Scalar → Bool
  | .int _ => true
  | .bool _ => true
  | _ => false

/-- numpy dtype kind of `np.array(l)` is integer / unsigned / bool (an empty list gives float64) -/
def intArray (l : List Scalar) : Bool := !l.isEmpty && l.all isIntKind

/-- arrays of whole numbers are compared exactly; otherwise `np.allclose(old, new)`, which raises
    TypeError for string arrays (the code then falls back to element-wise `==`) -/
def arraysMatch (old new : List Scalar) : Bool :=
  let numeric := (old ++ new).all isNum
  if intArray old && intArray new then (old.zip new).all (fun p => scalarEq p.1 p.2)
  else if numeric then (old.zip new).all (fun p => closeS p.1 p.2)
  else (old.zip new).all (fun p => scalarEq p.1 p.2)

/-- one queried entry against the stored attributes: `none` = entry skipped, `some (result, break?)` -/
def matchEntry (obj : Obj) (key : String) (v : Val) : Option (Bool × Bool) :=
  match v with
  | .none => Option.none
  | _ =>
    match obj.lookup key with
    | Option.none => some (false, true)
    | some (.array old) =>
      match v with
      | .scalar _ => some (false, true)          -- not a sequence (a string is a scalar value)
      | .list new => if old.length != new.length then some (false, false) else some (arraysMatch old new, false)
      | .none => Option.none
    | some (.scalar old) =>
      match v with
      | .scalar s => some (scalarEq s old, false)
      | .list _ => some (false, true)            -- a sequence never matches a stored scalar
      | .none => Option.none

/-- `check_for_matching_attrs`: loop over the queried dictionary with `break` -/
def matchAll (obj : Obj) : Dict → Bool
  | [] => true
  | (k, v) :: rest =>
    match matchEntry obj k v with
    | Option.none => matchAll obj rest
    | some (r, brk) => if brk then r else r && matchAll obj rest

end Usid.Attrs
