import Usid.Model.Process
/-! Crash model for `Process.compute()` (C04): events on HDF5 files, a volatile and a durable copy of
    every file, crash survivors, well-formed traces, and the trace the modelled compute loop emits. -/
namespace Usid.Crash
open Usid.Proc

/-- one result slot / completion mark: file, results group, position -/
structure Key where
  file : Nat
  grp : Nat
  pos : Nat
deriving DecidableEq, Repr

inductive Ev where
  | writeRes (k : Key) (v : Int)   -- result value for position k.pos written into group k.grp
  | mark (k : Key)                 -- completion mark for k written
  | flush (file : Nat)             -- `h5file.flush()`
  | other                          -- any other file-modifying call (attributes, object creation)
deriving DecidableEq, Repr

/-- contents of the files (all files together; `Key.file` says which file an entry lives in) -/
structure St where
  stored : List (Key × Int) := []   -- latest write first
  marked : List Key := []
deriving Repr

def St.lookup (s : St) (k : Key) : Option Int := (s.stored.find? (fun e => e.1 = k)).map (·.2)

/-- volatile (in-memory / gracefully closed) and durable (as of the last flush) contents -/
structure World where
  vol : St := {}
  dur : St := {}
deriving Repr

/-- `flush f`: the durable copy of file `f` becomes its volatile copy; other files keep theirs -/
def flushFile (f : Nat) (w : World) : St :=
  { stored := w.vol.stored.filter (fun e => e.1.file = f) ++ w.dur.stored.filter (fun e => e.1.file ≠ f),
    marked := w.vol.marked.filter (fun k => k.file = f) ++ w.dur.marked.filter (fun k => k.file ≠ f) }

def step (w : World) : Ev → World
  | .writeRes k v => { w with vol := { w.vol with stored := (k, v) :: w.vol.stored } }
  | .mark k => { w with vol := { w.vol with marked := k :: w.vol.marked } }
  | .flush f => { w with dur := flushFile f w }
  | .other => w

def run (w : World) (t : List Ev) : World := t.foldl step w

/-- "no position is marked complete unless its final result is stored" -/
def Consistent (final : Nat → Int) (s : St) : Prop :=
  ∀ k ∈ s.marked, s.lookup k = some (final k.pos)

/-- executable acceptance of a trace: a mark is written only when the stored result of that slot is the
    final one, and a marked slot is never overwritten with a different value -/
def wfFrom (final : Nat → Int) (w : World) : List Ev → Bool
  | [] => true
  | .mark k :: t => (w.vol.lookup k == some (final k.pos)) && wfFrom final (step w (.mark k)) t
  | .writeRes k v :: t =>
      (!(w.vol.marked.contains k) || v == final k.pos) && wfFrom final (step w (.writeRes k v)) t
  | e :: t => wfFrom final (step w e) t

def WellFormed (final : Nat → Int) (t : List Ev) : Bool := wfFrom final {} t

/-- stronger acceptance (what the shipped ordering write → flush → mark achieves): a mark is written
    only when the final result is already DURABLE -/
def wfStrongFrom (final : Nat → Int) (w : World) : List Ev → Bool
  | [] => true
  | .mark k :: t => (w.dur.lookup k == some (final k.pos)) && (w.vol.lookup k == some (final k.pos)) &&
      wfStrongFrom final (step w (.mark k)) t
  | .writeRes k v :: t =>
      (!(w.vol.marked.contains k) || v == final k.pos) && wfStrongFrom final (step w (.writeRes k v)) t
  | e :: t => wfStrongFrom final (step w e) t

/-! ### the trace of the modelled compute loop -/

/-- one batch: write the results, (attribute `last_pixel`), flush the files in `flushed`, then mark -/
def batchTrace (final : Nat → Int) (resFile grp : Nat) (flushed : List Nat) (batch : List Nat) : List Ev :=
  batch.map (fun p => Ev.writeRes ⟨resFile, grp, p⟩ (final p)) ++ (Ev.other :: flushed.map Ev.flush) ++
  batch.map (fun p => Ev.mark ⟨resFile, grp, p⟩)

/-- the whole loop over the batches of the pending list.  `flushed` lists the files compute() flushes
    at each checkpoint, `resFile` is the file holding the results group. -/
def computeTrace (final : Nat → Int) (resFile grp : Nat) (flushed : List Nat) (batches : List (List Nat)) :
    List Ev :=
  batches.flatMap (batchTrace final resFile grp flushed)

/-- files flushed per checkpoint by the code as it is: file 0 is the source file, file 1 a separate
    results file.  `process.py` flushes `self.h5_main.file` and, when different, the results file. -/
def codeFlushes (sameFile : Bool) : List Nat := if sameFile then [0] else [0, 1]

/-- file holding the results group -/
def resFileOf (sameFile : Bool) : Nat := if sameFile then 0 else 1

/-- marks of group `(file, grp)` as a status vector of length `n` on top of an initial vector -/
def statusOf (s : St) (file grp : Nat) (init : List Nat) : List Nat :=
  (List.range init.length).map (fun p =>
    if s.marked.contains ⟨file, grp, p⟩ then 1 else init.getD p 0)

/-- the two datasets of results group `(file, grp)` as seen in file contents `st` laid over the
    state `s0` the run started from -/
def project (s0 : DS Int) (st : St) (file grp : Nat) : DS Int :=
  { results := (List.range s0.results.length).map
      (fun p => (st.lookup ⟨file, grp, p⟩).getD (s0.results.getD p 0)),
    status := (List.range s0.status.length).map
      (fun p => if st.marked.contains ⟨file, grp, p⟩ then 1 else s0.status.getD p 0) }

/-- one interruption: batch limit `b + 1`, crash before event number `i`, survivor kind -/
structure Interruption where
  b : Nat
  i : Nat
  kill : Bool
deriving Repr

/-- the trace of one same-file attempt started from `s0` -/
def attemptTrace (final : Nat → Int) (s0 : DS Int) (b : Nat) : List Ev :=
  computeTrace final 0 0 [0] (rankBatches (pending s0.status) 1 0 (b + 1) (Nat.succ_pos b))

/-- datasets left behind after a list of successive interruptions (each attempt re-reads the survivor) -/
def afterInterruptions (final : Nat → Int) (s0 : DS Int) : List Interruption → DS Int
  | [] => s0
  | x :: rest =>
    let w := run {} ((attemptTrace final s0 x.b).take x.i)
    afterInterruptions final (project s0 (if x.kill then w.dur else w.vol) 0 0) rest

end Usid.Crash
