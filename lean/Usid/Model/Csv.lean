import Usid.Basic.Py
/-! Model of `USIDataset.to_csv` (pyUSID/io/usi_data.py) at the level the code works at: lines of text
    assembled with `','.join`, and a small file-system state for the overwrite / size / temp-file logic.
    Cells are opaque strings (`List Char`) that contain neither commas nor newlines. -/
namespace Usid.Csv

abbrev Str := List Char

/-- Python `sep.join(cells)` -/
def joinWith (sep : Char) : List Str → Str
  | [] => []
  | [x] => x
  | x :: y :: rest => x ++ sep :: joinWith sep (y :: rest)

/-- Python `line.split(sep)` (always at least one field) -/
def splitOnC (sep : Char) : Str → List Str
  | [] => [[]]
  | c :: cs =>
    if c = sep then [] :: splitOnC sep cs
    else match splitOnC sep cs with
      | [] => [[c]]
      | f :: fs => (c :: f) :: fs

def dash : Str := "--------------------------------------------------------------".toList

structure Table where
  specDesc : List Str            -- one descriptor per spectroscopic dimension (Q)
  posDesc : List Str             -- one descriptor per position dimension (P)
  specVals : List (List Str)     -- Q × M
  posVals : List (List Str)      -- N × P
  data : List (List Str)         -- N × M

/-- the lines `np.savetxt(..., header=header)` writes: Q header lines, the dashed line, N data lines -/
def rightLines (t : Table) : List Str :=
  t.specVals.map (joinWith ',') ++ [joinWith ',' ((t.specVals.headD []).map (fun _ => dash))] ++
  t.data.map (joinWith ',')

/-- the left block: `(P-1)` commas + descriptor + ',' per spectroscopic dimension, the position
    descriptors + ',', and one line of position values + ',' per position -/
def leftLines (t : Table) : List Str :=
  t.specDesc.map (fun d => joinWith ',' (t.posDesc.map (fun _ => [])) ++ d ++ [',']) ++
  [joinWith ',' t.posDesc ++ [',']] ++
  t.posVals.map (fun row => joinWith ',' row ++ [','])

/-- the lines of the output file -/
def csvLines (t : Table) : List Str := List.zipWith (· ++ ·) (leftLines t) (rightLines t)

/-- the table a CSV reader recovers -/
def parseCsv (lines : List Str) : List (List Str) := lines.map (splitOnC ',')

/-! ### file-system behaviour -/

structure FS where
  files : List String            -- paths that exist (absolute); the scratch file lives in `tmpDir`
deriving Repr, DecidableEq

inductive Outcome
  | wrote (path : String)
  | skipped                      -- dataset too large and not forced: returns None
  | refused                      -- FileExistsError
deriving Repr, DecidableEq

/-- the size above which an export must be forced: `itemsize * size / 1024**2 > 15`, in bytes -/
def limitBytes : Nat := 15 * 1048576

/-- `to_csv(output_path, force)`: `tmp` is the path of the scratch file the call creates and removes;
    `bytes` = `h5_main.dtype.itemsize * h5_main.size` -/
def toCsvFS (fs : FS) (output tmp : String) (bytes : Nat) (force : Bool) : FS × Outcome :=
  if bytes > limitBytes && !force then (fs, .skipped)
  else if fs.files.contains output && !force then (fs, .refused)
  else
    -- existing output removed when forced; scratch file written, merged into the output, scratch removed
    -- (`files` is used as a set: only membership matters)
    ({ files := ((fs.files.filter (· != output)) ++ [tmp, output]).filter (· != tmp) }, .wrote output)

end Usid.Csv
