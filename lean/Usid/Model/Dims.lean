import Usid.Basic.Py
import Usid.Basic.NDArray
/-! Model of `get_sort_order`, `get_dimensionality` (pyUSID/io/hdf_utils/model.py) on index matrices given
    as lists of rows, with the `shape[0] > shape[1] ⇒ transpose` heuristic the code applies. -/
namespace Usid.Dims
open Usid

/-- matrix transpose of a list of equally long rows (an empty matrix stays empty) -/
def transposeM (m : List (List Nat)) : List (List Nat) :=
  match m with
  | [] => []
  | r :: _ => (List.range r.length).map (fun c => m.map (fun row => row.getD c 0))

/-- number of columns -/
def ncols (m : List (List Nat)) : Nat := (m.headD []).length

/-- the heuristic `if ds.shape[0] > ds.shape[1]: ds = ds.T` -/
def orient (m : List (List Nat)) : List (List Nat) := if m.length > ncols m then transposeM m else m

/-- `len(np.where([row[i] != row[i - 1] for i in range(len(row))])[0])` with Python's `row[-1]` wrap-around -/
def changeCountRow (row : List Nat) : Nat :=
  ((List.range row.length).filter (fun i =>
    row.getD i 0 != row.getD (if i = 0 then row.length - 1 else i - 1) 0)).length

/-- `np.argsort(counts)[::-1]` (numpy's sort is insertion sort, hence stable, below 16 elements) -/
def argsortRev (counts : List Nat) : List Nat :=
  (((List.range counts.length).map (fun i => (counts.getD i 0, i))).mergeSort (fun a b => a.1 ≤ b.1)).reverse.map (·.2)

/-- `get_sort_order`: rows ordered from fastest to slowest changing -/
def getSortOrder (m : List (List Nat)) : List Nat := argsortRev ((orient m).map changeCountRow)

/-- `len(np.unique(row))` -/
def distinctCount (row : List Nat) : Nat := row.eraseDups.length

/-- `get_dimensionality(ds_index, index_sort)`; `index_sort` must be a permutation of the row numbers -/
def getDimensionality (m : List (List Nat)) (order : Option (List Nat)) : Except PyErr (List Nat) :=
  let m' := orient m
  match order with
  | none => .ok (m'.map distinctCount)
  | some o =>
    if o.eraseDups.length > m'.length then .error .valueErr
    else if !((List.range m'.length).all (fun i => o.contains i) && o.all (fun i => i < m'.length)) then .error .valueErr
    else .ok (o.map (fun d => distinctCount (m'.getD d [])))

end Usid.Dims
