import Usid.Model.Groups
import Usid.Model.Attrs
/-! Model of `Process._check_for_duplicates` and the reuse decision at the top of `compute()`
    (pyUSID/processing/process.py) on top of the name model (C13) and the attribute model (C16). -/
namespace Usid.Dup
open Usid Usid.Grp Usid.Attrs

/-- what is found under the name of the completion-status dataset inside a results group -/
inductive StatusRec
  | absent
  | notDataset                                              -- e.g. a group of that name
  | dataset (len rank : Nat) (uint8 : Bool) (vals : List Nat)
deriving DecidableEq, Repr

structure ResGroup where
  name : Str
  isGroup : Bool := true
  attrs : Obj := []
  status : StatusRec := .absent
  lastPixel : Option Int := none          -- legacy attribute `last_pixel`
  /-- within the file of the dataset, the group's `source_000` points at ANOTHER dataset (one that merely
      carries the same name): `find_results_groups` leaves such a group out -/
  otherSource : Bool := false
deriving Repr

inductive Class | dup | part | skip
deriving DecidableEq, Repr

/-- the status dataset is usable: a 1-D uint8 dataset with one 0/1 entry per position -/
def statusUsable (n : Nat) : StatusRec → Bool
  | .dataset len rank u8 vals => len == n && rank == 1 && u8 && vals.all (fun v => v ≤ 1)
  | _ => false

/-- one group of `existing` in `_check_for_duplicates` (N = number of positions); also returns the
    group as the constructor leaves it (unchanged: looking for earlier results writes nothing) -/
def classify (n : Nat) (g : ResGroup) : Class × ResGroup :=
  match g.status with
  | .notDataset => (.skip, g)
  | .dataset len rank u8 vals =>
    if !(statusUsable n g.status) then (.skip, g)
    else if (vals.filter (· == 1)).length < n then (.part, g) else (.dup, g)
  | .absent =>
    match g.lastPixel with
    | none => (.skip, g)
    | some lp => if lp < n then (.part, g) else (.dup, g)

/-- `check_for_old`: groups named for exactly this (dataset, tool) whose stored parameters match -/
def matching (groups : List ResGroup) (dset tool : Str) (parms : Dict) : List ResGroup :=
  groups.filter (fun g => g.isGroup && !g.otherSource && (indexOf (resultsPrefix dset tool) g.name).isSome &&
    matchAll g.attrs parms)

inductive Decision
  | returnExisting (name : Str)
  | resume (name : Str)
  | fresh
deriving DecidableEq, Repr

def dupsOf (n : Nat) (gs : List ResGroup) : List ResGroup := gs.filter (fun g => (classify n g).1 == .dup)
def partialsOf (n : Nat) (gs : List ResGroup) : List ResGroup := gs.filter (fun g => (classify n g).1 == .part)

/-- the decision `compute(override)` takes -/
def decision (groups : List ResGroup) (dset tool : Str) (parms : Dict) (n : Nat) (override : Bool) : Decision :=
  let ms := matching groups dset tool parms
  if override then .fresh
  else match (dupsOf n ms).getLast?, (partialsOf n ms).getLast? with
    | some g, _ => .returnExisting g.name
    | none, some g => .resume g.name
    | none, none => .fresh

/-- the groups as the constructor leaves them -/
def afterConstruct (groups : List ResGroup) (dset tool : Str) (parms : Dict) (n : Nat) : List ResGroup :=
  groups.map (fun g =>
    if g.isGroup && !g.otherSource && (indexOf (resultsPrefix dset tool) g.name).isSome && matchAll g.attrs parms
    then (classify n g).2 else g)

/-- every position is marked complete -/
def Complete (n : Nat) (g : ResGroup) : Prop :=
  match g.status with
  | .dataset len _ _ vals => len = n ∧ vals.length = n → ∀ v ∈ vals, v = 1
  | _ => False

end Usid.Dup
