import Usid.Basic.Py
/-! Model of `create_empty_dataset` (pyUSID/io/hdf_utils/simple.py): what the destination group holds
    under the requested name before and after the call. -/
namespace Usid.Empty

/-- where the ancillary links of a dataset point -/
inductive Links | none | toSource | toCopies
deriving DecidableEq, Repr

structure Dset where
  shape : List Nat
  dtype : String
  chunks : Option (List Nat)
  compression : Option String
  attrs : List String            -- descriptive attribute names (quantity, units, user attributes ...)
  links : Links
  zero : Bool                    -- contents are all zero / empty (never written)
deriving DecidableEq, Repr

inductive Member
  | dataset (d : Dset)
  | other                        -- a group (or anything that is not a dataset)
deriving DecidableEq, Repr

abbrev Group := List (String × Member)

structure Req where
  src : Dset                     -- the Main source dataset
  dtype : String
  name : String                  -- '-' already replaced by '_'
  sameFile : Bool                -- destination group lives in the source's file
  newAttrs : List String
deriving Repr

/-- attribute names after writing `b` onto an object that already has `a` -/
def union (a b : List String) : List String := a ++ (b.filter (fun x => !a.contains x)).eraseDups

/-- the freshly created dataset: shape, chunking and compression of the source, requested type, zero
    contents, the source's attributes plus the new ones, linked like the source (same file) or to copies -/
def fresh (r : Req) : Dset :=
  { shape := r.src.shape, dtype := r.dtype, chunks := r.src.chunks, compression := r.src.compression,
    attrs := union r.src.attrs r.newAttrs,
    links := if r.sameFile then .toSource else .toCopies, zero := true }

/-- attributes are (re)copied onto whatever dataset is returned -/
def refresh (r : Req) (d : Dset) : Dset :=
  { d with attrs := union d.attrs (r.src.attrs ++ r.newAttrs),
           links := if r.sameFile then .toSource else .toCopies }

def setMember (g : Group) (name : String) (m : Member) : Group :=
  if (g.lookup name).isSome then g.map (fun kv => if kv.1 == name then (name, m) else kv) else g ++ [(name, m)]

/-- `create_empty_dataset(source, dtype, name, h5_group, new_attrs)` -/
def createEmpty (g : Group) (r : Req) : Except PyErr (Group × Dset) :=
  match g.lookup r.name with
  | some .other => .error .keyErr
  | some (.dataset d) =>
    if d.shape != r.src.shape || d.dtype != r.dtype then
      let n := fresh r
      .ok (setMember g r.name (.dataset n), n)          -- deleted and recreated
    else
      let n := refresh r d
      .ok (setMember g r.name (.dataset n), n)          -- returned as it is: contents untouched
  | none =>
    let n := fresh r
    .ok (setMember g r.name (.dataset n), n)

end Usid.Empty
