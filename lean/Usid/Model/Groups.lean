import Usid.Basic.Py
import Usid.Basic.Str
/-! Model of group naming in `pyUSID/io/hdf_utils/simple.py`: `assign_group_index`,
    `create_indexed_group`, `create_results_group`, `find_results_groups`, `get_source_dataset`.
    A parent group is a list of entries (name, kind, provenance). Strings are `List Char`. -/
namespace Usid.Grp
open Usid

inductive Kind | group | dataset
deriving DecidableEq, Repr

structure Entry where
  name : Str
  kind : Kind
  /-- attribute `tool` written by `create_results_group` -/
  tool : Option Str := none
  /-- name of the dataset the attribute `source_000` refers to (same file only) -/
  source : Option Str := none
  /-- identity (path) of that dataset: two datasets in different groups may carry the same name -/
  sourceId : Option Str := none
deriving DecidableEq, Repr

abbrev Parent := List Entry

def names (par : Parent) : List Str := par.map (·.name)

/-- Python `s.isdecimal()` on ASCII names: non-empty, all decimal digits -/
def isDigitStr (s : Str) : Bool := !s.isEmpty && allDigits s

/-- Python `int(s)` for a string of ASCII digits -/
def parseNat (s : Str) : Nat := s.foldl (fun a c => 10 * a + (c.toNat - 48)) 0

/-- decimal digits of `n`, most significant first (fuel-structured, `fuel > n` always suffices) -/
def digitsAux : Nat → Nat → Str → Str
  | 0, _, acc => acc
  | fuel + 1, n, acc =>
    let acc' := Char.ofNat (48 + n % 10) :: acc
    if n / 10 = 0 then acc' else digitsAux fuel (n / 10) acc'

def natDigits (n : Nat) : Str := digitsAux (n + 1) n []

/-- Python `'{:03d}'.format(n)` for `n ≥ 0`: zero-padded to three digits, wider if needed -/
def fmt03 (n : Nat) : Str :=
  let ds := natDigits n
  List.replicate (3 - ds.length) '0' ++ ds

/-- the index a child name carries for the underscore-terminated prefix `p`:
    `name.startswith(p)` and the remainder is all digits -/
def indexOf (p name : Str) : Option Nat :=
  if p.isPrefixOf name && isDigitStr (name.drop p.length) then some (parseNat (name.drop p.length)) else none

def usedIndices (p : Str) (par : Parent) : List Nat := par.filterMap (fun e => indexOf p e.name)

def maxList : List Nat → Nat
  | [] => 0
  | x :: xs => max x (maxList xs)

def nextIndex (p : Str) (par : Parent) : Nat :=
  if usedIndices p par = [] then 0 else maxList (usedIndices p par) + 1

/-- `assign_group_index`: every kind of child counts; only `<prefix><digits>` names count -/
def assignIndex (par : Parent) (base : Str) : Except PyErr Str :=
  if base = [] then .error .valueErr
  else
    let p := withUnderscore base
    .ok (p ++ fmt03 (nextIndex p par))

/-- h5py `create_group`: refuses a name that is taken (by anything) -/
def createGroup (par : Parent) (e : Entry) : Except PyErr Parent :=
  if (names par).contains e.name then .error .valueErr else .ok (par ++ [e])

/-- `create_indexed_group` -/
def createIndexed (par : Parent) (base : Str) : Except PyErr (Parent × Str) := do
  let name ← assignIndex par base
  let par' ← createGroup par { name := name, kind := .group }
  return (par', name)

/-- `tool_name.replace('-', '_')` -/
def normTool (tool : Str) : Str := tool.map (fun c => if c = '-' then '_' else c)

def resultsPrefix (dset tool : Str) : Str := dset ++ ['-'] ++ normTool tool ++ ['_']

/-- `create_results_group` (`sameFile`: parent lives in the file of the source dataset; `sid`: the identity
    of the source dataset, which the reference `source_000` pins down) -/
def createResults (par : Parent) (dset tool : Str) (sameFile : Bool) (sid : Str) : Except PyErr (Parent × Str) := do
  let name ← assignIndex par (resultsPrefix dset tool)
  let src : Option Str := if sameFile then some dset else none
  let srcId : Option Str := if sameFile then some sid else none
  let par' ← createGroup par { name := name, kind := .group, tool := some (normTool tool), source := src, sourceId := srcId }
  return (par', name)

/-- `find_results_groups`: groups named exactly `<dset>-<tool>_<digits>`; within one file a group that records
    ANOTHER dataset as its source (one that merely carries the same name) is left out -/
def findResults (par : Parent) (dset tool : Str) (sameFile : Bool) (sid : Str) : List Str :=
  (par.filter (fun e => e.kind = .group && (indexOf (resultsPrefix dset tool) e.name).isSome &&
    !(sameFile && e.sourceId.isSome && e.sourceId != some sid))).map (·.name)

/-- Python `name.split('-')` -/
def splitDash : Str → List Str
  | [] => [[]]
  | c :: cs =>
    if c = '-' then [] :: splitDash cs
    else match splitDash cs with
      | [] => [[c]]
      | h :: t => (c :: h) :: t

/-- the name-based recovery: `<dataset>-<tool>_NNN` names its source, which must sit next to the group -/
def getSourceByName (par : Parent) (grpName : Str) : Except PyErr Str :=
  match splitDash grpName with
  | [d, _] =>
    match par.find? (fun e => e.name = d) with
    | some e => if e.kind = .dataset then .ok d else .error .valueErr
    | none => .error .keyErr
  | _ => .error .valueErr

/-- `get_source_dataset`: the source recorded in `source_000` when there is one (the group need not sit next
    to its source), otherwise the dataset named in the group's name -/
def getSource (par : Parent) (grpName : Str) : Except PyErr Str :=
  match (par.find? (fun e => e.name = grpName)).bind (·.source) with
  | some d => .ok d
  | none => getSourceByName par grpName

/-- `del parent[name]` -/
def delete (par : Parent) (name : Str) : Parent := par.filter (fun e => e.name ≠ name)

inductive Op
  | indexed (base : Str)
  | results (dset tool : Str) (sameFile : Bool) (sid : Str)
  | del (name : Str)
deriving Repr

/-- one request; the output is the created name (or the error) -/
def stepOp (par : Parent) : Op → Parent × Except PyErr Str
  | .indexed b => match createIndexed par b with
    | .ok (p, n) => (p, .ok n)
    | .error e => (par, .error e)
  | .results d t s sid => match createResults par d t s sid with
    | .ok (p, n) => (p, .ok n)
    | .error e => (par, .error e)
  | .del n => (delete par n, .ok n)

def runOps (par : Parent) : List Op → Parent × List (Except PyErr Str)
  | [] => (par, [])
  | op :: ops =>
    let (p1, o) := stepOp par op
    let (p2, os) := runOps p1 ops
    (p2, o :: os)

/-! ### several parent groups of one file, served in turn -/

/-- the parent groups of a file, addressed by number -/
abbrev FileG := List Parent

/-- one request addressed to parent number `p` (a request to a parent that does not exist changes nothing) -/
def stepAt (f : FileG) (p : Nat) (op : Op) : FileG × Except PyErr Str :=
  let r := stepOp (f.getD p []) op
  (f.set p r.1, r.2)

/-- a history of addressed requests; every output is tagged with the parent it was addressed to -/
def runFile (f : FileG) : List (Nat × Op) → FileG × List (Nat × Except PyErr Str)
  | [] => (f, [])
  | (p, op) :: h =>
    let r := stepAt f p op
    let rest := runFile r.1 h
    (rest.1, (p, r.2) :: rest.2)

end Usid.Grp
