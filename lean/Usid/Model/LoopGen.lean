import Usid.Generated.JobWindow
import Usid.Generated.RecommendCores
/-! The `while self.data is not None` loop of `Process.compute()` assembled from the GENERATED kernels. -/
namespace Usid.Generated
open Usid

/-- Skeleton of the `while self.data is not None` loop of `compute()` over the GENERATED pieces:
    each iteration reads a window, runs the default `_unit_computation` (which asks the recommender
    with the batch length) and advances `start := end`.  `none` = fuel exhausted (no termination). -/
def computeLoop (logical cores : Int) : Nat → Int → Int → Int → Int → List (Int × Int) →
    Except PyErr (Option (List (Int × Int)))
  | 0, _, _, _, _, _ => pure none
  | fuel + 1, start, stop, batch, e, marks => do
    let (e', has) ← read_window start stop batch e
    if has = 0 then return some marks
    let _ ← recommend_cpu_cores logical (e' - start) (some cores) none false
    computeLoop logical cores fuel e' stop batch e' (marks ++ [(start, e')])

end Usid.Generated
