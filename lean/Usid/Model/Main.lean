import Usid.Model.Anc
import Usid.Model.MainCheck
/-! Model of `write_main_dataset` (pyUSID/io/hdf_utils/model.py) on an abstract HDF5 group: the order of
    validation and creation steps is modelled exactly, because failure-atomicity depends on it. -/
namespace Usid.Main
open Usid Usid.Anc Usid.MainCheck

/-- `pos_dims` / `spec_dims` / `h5_*_inds, h5_*_vals` of one side -/
inductive SideArg
  | dims (l : List Dim)                              -- list of Dimension objects
  | badType                                          -- anything else
  | reuse (base : String) (w : Written) (npts : Nat) (sameFile : Bool)
      -- existing well-formed ancillary pair `<base>Indices/Values` covering `npts` points
  | reuseBad (base : String) (sameFile : Bool)
      -- an existing pair that `validate_anc_h5_dsets` refuses whatever the data: Indices and Values of different
      -- shapes (e.g. another number of dimensions), or not two HDF5 datasets
deriving Repr

inductive DataArg
  | array (rank : Nat)            -- numpy / dask array of that rank
  | shape (len : Nat) (positive hasDtype : Bool)   -- list / tuple given as the shape of an empty dataset
  | badType
deriving Repr, DecidableEq

structure Args where
  groupOk : Bool                   -- h5_parent_group is a writable group
  stringsOk : Bool                 -- quantity, units, main_data_name are strings
  name : String                    -- already stripped, '-' replaced
  n : Nat
  m : Nat
  data : DataArg
  pos : SideArg
  spec : SideArg
  posPrefix : String               -- already normalised: ends with '_', no '-'
  specPrefix : String
  s2f : Bool
  /-- HDF5 accepts the remaining keyword arguments and stores the data (an unknown compression filter, chunks
      larger than the dataset, a lazy array that cannot be cast ... are refused only while the datasets are
      being created) -/
  storageOk : Bool := true
deriving Repr

/-- one ancillary pair stored in the group -/
structure AncPair where
  base : String
  w : Written
  npts : Nat                   -- number of points (rows of a position pair, columns of a spectroscopic pair)
deriving Repr, DecidableEq

structure MainRec where
  name : String
  n : Nat
  m : Nat
  posBase : String
  specBase : String
deriving Repr, DecidableEq

structure Group where
  members : List String := []        -- names of all members of any kind
  ancs : List AncPair := []
  mains : List MainRec := []
deriving Repr, DecidableEq

def npointsOf (l : List Dim) : Nat := (l.map (fun d => d.values.length)).prod

/-- validation of one side (nothing is created) -/
def validateSide (g : Group) (a : SideArg) (pfx : String) (want : Nat) : Except PyErr Unit :=
  match a with
  | .reuse base _ npts same =>
    if npts != want then .error .valueErr
    -- a pair living in another file is copied into the group under its own names: a different object already
    -- sitting at one of them makes the copy fail (an identical dataset would be taken over - not modelled)
    else if !same && (g.members.contains (base ++ "Indices") || g.members.contains (base ++ "Values")) then .error .valueErr
    else .ok ()
  | .reuseBad _ _ => .error .valueErr
  | .badType =>
    if g.members.contains (pfx ++ "Indices") || g.members.contains (pfx ++ "Values") then .error .keyErr
    else .error .typeErr
  | .dims l =>
    if g.members.contains (pfx ++ "Indices") || g.members.contains (pfx ++ "Values") then .error .keyErr
    else if npointsOf l != want then .error .valueErr else .ok ()

def validateData (a : Args) : Except PyErr Unit :=
  match a.data with
  | .badType => .error .typeErr
  | .array r => if r != 2 then .error .valueErr else .ok ()
  | .shape len pos dt => if !pos || len != 2 || !dt then .error .valueErr else .ok ()

/-- creation of one side: returns the base name the main dataset will link to -/
def createSide (g : Group) (a : SideArg) (pfx : String) (s2f : Bool) : Group × String :=
  match a with
  | .reuse base w npts sameFile =>
    if sameFile then (g, base)
    else ({ g with members := g.members ++ [base ++ "Indices", base ++ "Values"], ancs := g.ancs ++ [⟨base, w, npts⟩] }, base)
  | .dims l =>
    ({ g with members := g.members ++ [pfx ++ "Indices", pfx ++ "Values"],
              ancs := g.ancs ++ [⟨pfx, writeIndVal l s2f, npointsOf l⟩] }, pfx)
  | .badType => (g, pfx)
  | .reuseBad _ _ => (g, pfx)

/-- names of the datasets this call is going to create -/
def newNames (a : Args) : List String :=
  [a.name] ++
  (match a.pos with | .reuse _ _ _ _ => [] | .reuseBad _ _ => [] | _ => [a.posPrefix ++ "Indices", a.posPrefix ++ "Values"]) ++
  (match a.spec with | .reuse _ _ _ _ => [] | .reuseBad _ _ => [] | _ => [a.specPrefix ++ "Indices", a.specPrefix ++ "Values"])

/-- every check `write_main_dataset` performs, in order; nothing is created here -/
def validateAll (g : Group) (a : Args) : Except PyErr Unit := do
  if !a.groupOk then throw .valueErr
  if !a.stringsOk then throw .typeErr
  validateData a
  validateSide g a.pos a.posPrefix a.n
  validateSide g a.spec a.specPrefix a.m
  if g.members.contains a.name then throw .valueErr
  if !(decide (newNames a).Nodup) then throw .valueErr

/-- the creation steps, performed only after every check has passed -/
def create (g : Group) (a : Args) : Group :=
  let (g1, pb) := createSide g a.pos a.posPrefix a.s2f
  let (g2, sb) := createSide g1 a.spec a.specPrefix a.s2f
  { g2 with members := g2.members ++ [a.name], mains := g2.mains ++ [⟨a.name, a.n, a.m, pb, sb⟩] }

/-- `write_main_dataset`: the group after the call and the outcome -/
def writeMain (g : Group) (a : Args) : Group × Except PyErr Unit :=
  match validateAll g a with
  | .error e => (g, .error e)
  | .ok _ =>
    -- a failure during creation is rolled back: nothing the call created survives it
    if a.storageOk then (create g a, .ok ()) else (g, .error .valueErr)

/-- the ancillary pair a main record links to -/
def ancOf (g : Group) (base : String) : Option AncPair := g.ancs.find? (fun p => p.base == base)

/-- structural descriptor (C06) of a main record inside a group -/
def descOf (g : Group) (r : MainRec) : Desc :=
  let link (base : String) (isSpec : Bool) : Link :=
    match ancOf g base with
    | none => .dangling
    | some p =>
      let k := p.w.labels.length
      .toDataset (if isSpec then [k, p.npts] else [p.npts, k]) (some p.w.labels) (some p.w.units)
  { isDataset := true, shape := [r.n, r.m], quantity := .str, units := .str,
    pi := link r.posBase false, pv := link r.posBase false, si := link r.specBase true, sv := link r.specBase true }

end Usid.Main
