import Usid.Basic.Py
/-! Model of `check_if_main` (pyUSID/io/hdf_utils/simple.py) on a structural descriptor of an HDF5
    object, and the independent rule set `MainRules` of a USID Main dataset. -/
namespace Usid.MainCheck

/-- mandatory string attribute of the main dataset -/
inductive AttrV | absent | str | nonStr
deriving DecidableEq, Repr

/-- what one of the four ancillary attributes points at -/
inductive Link
  | absent                       -- attribute missing
  | notRef                       -- attribute present but not an object reference
  | dangling                     -- reference to an object that no longer exists
  | toGroup                      -- reference to a group
  | toDataset (shape : List Nat) (labels units : Option (List String))
deriving DecidableEq, Repr

structure Desc where
  isDataset : Bool
  shape : List Nat
  quantity : AttrV
  units : AttrV
  pi : Link
  pv : Link
  si : Link
  sv : Link
deriving DecidableEq, Repr

/-- `shape[i]` (0 when out of range; only used under rank checks) -/
def dim (s : List Nat) (i : Nat) : Nat := s.getD i 0

def Link.isDataset : Link → Bool
  | .toDataset _ _ _ => true
  | _ => false

def Link.resolves : Link → Bool          -- `h5_main.file[h5_main.attrs[name]]` does not raise
  | .toGroup => true
  | .toDataset _ _ _ => true
  | _ => false

def Link.shape : Link → List Nat
  | .toDataset s _ _ => s
  | _ => []

def Link.labels : Link → Option (List String)
  | .toDataset _ l _ => l
  | _ => none

def Link.unitsA : Link → Option (List String)
  | .toDataset _ _ u => u
  | _ => none

/-- `validate_anc_dset_attrs` as a boolean (`ValueError`/`KeyError` ↦ false), for rank-2 datasets -/
def ancAttrsOk (inds vals : Link) (isSpec : Bool) : Bool :=
  match vals.labels, vals.unitsA, inds.labels, inds.unitsA with
  | some vn, some vu, some ins, some iu =>
    vn.length == vu.length && ins.length == iu.length && ins == vn && iu == vu &&
    inds.shape == vals.shape && dim inds.shape (if isSpec then 0 else 1) == vn.length
  | _, _, _, _ => false

/-- `check_if_main`, statement by statement (as repaired: every failure is `False`, none raises) -/
def checkIfMain (d : Desc) : Bool :=
  -- validate_main_dset(h5_main, True)
  if !d.isDataset || d.shape.length != 2 then false
  -- the four attributes must resolve to objects ...
  else if !(d.pi.resolves && d.pv.resolves && d.si.resolves && d.sv.resolves) then false
  -- ... that are datasets
  else if !(d.pi.isDataset && d.pv.isDataset && d.si.isDataset && d.sv.isDataset) then false
  -- quantity and units present and strings
  else if d.quantity != .str || d.units != .str then false
  -- all ancillaries two dimensional
  else if !([d.pi, d.pv, d.si, d.sv].all (fun l => l.shape.length == 2)) then false
  -- shapes against the main dataset
  else if !(d.pv.shape == d.pi.shape && dim d.pv.shape 0 == dim d.shape 0 &&
            dim d.pi.shape 0 == dim d.shape 0) then false
  else if !(d.si.shape == d.sv.shape && dim d.si.shape 1 == dim d.shape 1 &&
            dim d.sv.shape 1 == dim d.shape 1) then false
  else if !(ancAttrsOk d.pi d.pv false) then false
  else ancAttrsOk d.si d.sv true

/-- one ancillary pair obeys the rules for a main dataset with `n` points on that side -/
def PairRules (inds vals : Link) (isSpec : Bool) (n : Nat) : Prop :=
  ∃ si sv li lv ui uv, inds = .toDataset si (some li) (some ui) ∧ vals = .toDataset sv (some lv) (some uv) ∧
    si.length = 2 ∧ si = sv ∧ li = lv ∧ ui = uv ∧ li.length = ui.length ∧
    dim si (if isSpec then 1 else 0) = n ∧ dim si (if isSpec then 0 else 1) = li.length

/-- the structural definition of a USID Main dataset, written independently of the code -/
def MainRules (d : Desc) : Prop :=
  d.isDataset = true ∧ d.shape.length = 2 ∧ d.quantity = .str ∧ d.units = .str ∧
  PairRules d.pi d.pv false (dim d.shape 0) ∧ PairRules d.si d.sv true (dim d.shape 1)

/-- a tree = the descriptors of the datasets under a group; `get_all_main` keeps the valid ones -/
def getAllMain (tree : List (String × Desc)) : List String :=
  (tree.filter (fun nd => checkIfMain nd.2)).map (·.1)

/-- `USIDataset(h5_obj)`: TypeError unless the object is a Main dataset -/
def wrap (d : Desc) : Except PyErr Unit := if checkIfMain d then .ok () else .error .typeErr

end Usid.MainCheck
