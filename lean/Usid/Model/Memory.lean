import Usid.Basic.Py
/-! Hand model of `Process.__set_memory` in exact arithmetic (IEEE rounding is NOT modelled).
    `mem_multiplier` enters as the exact rational `num / den` of the Python float. -/
namespace Usid.Mem

/-- bytes granted: `min(avail, abs(max_mem_mb) * 1024^2)` (or all available when no limit given) -/
def granted (avail : Nat) (maxMemMb : Option Nat) : Nat :=
  match maxMemMb with
  | none => avail
  | some mb => min avail (mb * 1024 ^ 2)

/-- `_max_pos_per_read = ⌊ (granted / workers) / (rowBytes * num/den) ⌋` with exact arithmetic.
    `workers = cores * ranks_on_socket`, `rowBytes = itemsize * columns`. -/
def maxPos (grantedBytes workers rowBytes num den : Nat) : Nat :=
  (grantedBytes * den) / (workers * rowBytes * num)

/-- validation of `mem_multiplier` (`abs` taken first; must be ≥ 1) -/
def checkMultiplier (num den : Nat) : Except PyErr Unit :=
  if num < den then .error .valueErr else .ok ()

end Usid.Mem
