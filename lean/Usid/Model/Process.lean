import Usid.Basic.Py
/-! Hand model of the bookkeeping of `Process.compute()` (pyUSID/processing/process.py):
    pending positions, per-rank ranges, batch windows, the batching loop and its effect on the
    results / completion-status datasets.  Core Lean only. -/
namespace Usid.Proc

/-- `np.where(status == 0)[0]`: ascending positions whose completion mark is 0 -/
def pendingFrom : Nat → List Nat → List Nat
  | _, [] => []
  | i, s :: ss => if s = 0 then i :: pendingFrom (i + 1) ss else pendingFrom (i + 1) ss

def pending (status : List Nat) : List Nat := pendingFrom 0 status

/-- `__assign_job_indices`: start of rank `r`'s range in the list of pending jobs -/
def rankStart (jobs size r : Nat) : Nat := r * (jobs / size)

/-- end of rank `r`'s range: the last rank takes the remainder -/
def rankEnd (jobs size r : Nat) : Nat := if r + 1 = size then jobs else (r + 1) * (jobs / size)

/-- Python slice `l[a:b]` for `0 ≤ a`, `0 ≤ b` -/
def pySlice {α : Type} (l : List α) (a b : Nat) : List α := (l.drop a).take (b - a)

/-- the windows `[start, min(stop, start+batch))` cut by `_read_data_chunk` until `start ≥ stop`.
    Lean accepts the definition only with `0 < batch`: with `batch = 0` the real loop does not advance. -/
def windows (batch : Nat) (hb : 0 < batch) (start stop : Nat) : List (Nat × Nat) :=
  if h : start < stop then
    (start, min stop (start + batch)) :: windows batch hb (min stop (start + batch)) stop
  else []
termination_by stop - start
decreasing_by omega

/-- the same loop with fuel, total for every batch (batch = 0 never finishes: fuel runs out) -/
def windowsFuel (batch : Nat) : Nat → Nat → Nat → Option (List (Nat × Nat))
  | 0, start, stop => if start < stop then none else some []
  | fuel + 1, start, stop =>
    if start < stop then
      (windowsFuel batch fuel (min stop (start + batch)) stop).map ((start, min stop (start + batch)) :: ·)
    else some []

/-- positions handled by rank `r`, batch by batch -/
def rankBatches (pend : List Nat) (size r batch : Nat) (hb : 0 < batch) : List (List Nat) :=
  (windows batch hb (rankStart pend.length size r) (rankEnd pend.length size r)).map
    (fun w => pySlice pend w.1 w.2)

/-- state of the two datasets: one result slot and one completion mark per position -/
structure DS (ρ : Type) where
  results : List ρ
  status : List Nat

/-- `_write_results_chunk` + the status marks for one batch of positions -/
def applyBatch {ρ : Type} (f : Nat → ρ) (s : DS ρ) (batch : List Nat) : DS ρ :=
  batch.foldl (fun s p => { results := s.results.set p (f p), status := s.status.set p 1 }) s

/-- the whole of a single-rank `compute()` on the datasets; returns final state and the call log of `f` -/
def computeRun {ρ : Type} (f : Nat → ρ) (s : DS ρ) (batch : Nat) (hb : 0 < batch) : DS ρ × List Nat :=
  let bs := rankBatches (pending s.status) 1 0 batch hb
  (bs.foldl (applyBatch f) s, bs.flatten)

/-- `status[:k] = 1` on a list (numpy clips `k` to the length) -/
def markPrefix (status : List Nat) (k : Nat) : List Nat :=
  List.replicate (min k status.length) 1 ++ status.drop k

/-- `__create_compute_status_dataset`: the completion marks `compute()` starts from.  An existing status
    dataset is used as it is; otherwise a zero-filled one is created and, when the results group carries the
    legacy attribute `last_pixel = k` with `k > 0`, its first `k` entries are marked (`last_pixel` is the NUMBER
    of finished positions, not the index of the last one) -/
def initialStatus (n : Nat) (existing : Option (List Nat)) (lastPixel : Option Int) : List Nat :=
  match existing with
  | some s => s
  | none =>
    match lastPixel with
    | some k => if k > 0 then markPrefix (List.replicate n 0) k.toNat else List.replicate n 0
    | none => List.replicate n 0

/-- `parallel_compute(data, f, cores)` as a value: order preserving map; `cores` is irrelevant -/
def parallelCompute {α β : Type} (f : α → β) (data : List α) (_cores : Nat) : List β := data.map f

/-- `group_ranks_by_socket`: master of rank `r` = first rank with the same processor name -/
def socketMasters (names : List String) : List Nat :=
  names.map (fun n => names.findIdx (· == n))

end Usid.Proc
