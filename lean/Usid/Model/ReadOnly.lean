import Usid.Basic.Py
/-! Op-level model for C20: API operations as traces of storage primitives over a file opened read-only
    or writable, plus the wrapper's sorting flag.  Which primitives an operation really emits is observed
    at run time (h5py tracing in the harness) and checked against `kindOf`. -/
namespace Usid.ReadOnly

inductive Mode | ro | rw
deriving DecidableEq, Repr

/-- storage primitives: everything that only reads, and everything that modifies the file (attribute
    write, dataset write, create/delete/resize of an object) -/
inductive Prim
  | read
  | guard                          -- the library's own "is this file writable?" check (raises when it is not)
  | write (cell : Nat) (val : Nat)
deriving DecidableEq, Repr

def Prim.isWrite : Prim → Bool
  | .write _ _ => true
  | _ => false

/-- primitives that cannot succeed on a read-only file -/
def Prim.needsWritable : Prim → Bool
  | .read => false
  | _ => true

/-- the file: the log of modifications applied to it (empty log = the file as generated) -/
abbrev Store := List (Nat × Nat)

/-- one primitive: a write on a read-only file raises and changes nothing -/
def applyPrim (m : Mode) (s : Store) : Prim → Except PyErr Store
  | .read => .ok s
  | .guard => match m with
    | .ro => .error .osErr
    | .rw => .ok s
  | .write c v => match m with
    | .ro => .error .osErr
    | .rw => .ok (s ++ [(c, v)])

/-- a trace runs until the first primitive that raises -/
def runTrace (m : Mode) (s : Store) : List Prim → Store × Option PyErr
  | [] => (s, none)
  | p :: rest =>
    match applyPrim m s p with
    | .error e => (s, some e)
    | .ok s' => runTrace m s' rest

inductive Kind | read | toggle | write
deriving DecidableEq, Repr

/-- the API surface of C20 -/
def kindTable : List (String × Kind) := [
  ("check_if_main", .read), ("wrap", .read), ("repr", .read), ("print_tree", .read), ("get_all_main", .read),
  ("find_dataset", .read), ("find_results_groups", .read), ("check_for_old", .read),
  ("check_for_matching_attrs", .read), ("get_source_dataset", .read), ("get_n_dim_form", .read),
  ("reshape_to_n_dims", .read), ("slice", .read), ("slice_2d", .read), ("reduce_mem", .read),
  ("get_unit_values", .read), ("get_pos_values", .read), ("get_spec_values", .read), ("get_sort_order", .read),
  ("get_dimensionality", .read), ("getitem", .read), ("labels_sizes", .read), ("get_current_sorting", .read),
  ("process_construct", .read),
  ("toggle_sorting", .toggle),
  ("create_indexed_group", .write), ("create_results_group", .write), ("write_ind_val_dsets", .write),
  ("write_main_dataset", .write), ("create_empty_dataset", .write), ("slice_to_dataset", .write),
  ("reduce_to_file", .write), ("link_as_main", .write), ("write_reduced_anc_dsets", .write),
  ("process_init", .write), ("copy_main_attributes", .write), ("write_book_keeping_attrs", .write),
  ("write_sidpy_dataset", .write)]

def kindOf (name : String) : Option Kind := kindTable.lookup name

structure Call where
  name : String
  kind : Kind
  trace : List Prim
deriving Repr

/-- the observed trace agrees with the operation's kind -/
def Call.conforms (c : Call) : Bool :=
  match c.kind with
  | .write => c.trace.any Prim.needsWritable
  | _ => c.trace.all (fun p => !p.needsWritable)

structure State where
  mode : Mode
  store : Store
  sorted : Bool                   -- the wrapper's sort flag
deriving Repr

structure Out (ρ : Type) where
  err : Option PyErr
  result : Option ρ               -- what the operation returns (none when it raised)

/-- `observe name store flag`: what an operation returns is a function of the file and the flag only -/
def step {ρ : Type} (observe : String → Store → Bool → ρ) (st : State) (c : Call) : State × Out ρ :=
  let (s', e) := runTrace st.mode st.store c.trace
  match e with
  | some err => ({ st with store := s' }, ⟨some err, none⟩)
  | none =>
    let flag' := if c.kind = .toggle then !st.sorted else st.sorted
    ({ st with store := s', sorted := flag' }, ⟨none, some (observe c.name s' st.sorted)⟩)

def run {ρ : Type} (observe : String → Store → Bool → ρ) (st : State) : List Call → State × List (Out ρ)
  | [] => (st, [])
  | c :: rest =>
    let (st1, o) := step observe st c
    let (st2, os) := run observe st1 rest
    (st2, o :: os)

/-- the outputs a history of read-side calls must produce on an unchanging file -/
def expected {ρ : Type} (observe : String → Store → Bool → ρ) (s : Store) (flag : Bool) : List Call → List (Out ρ)
  | [] => []
  | c :: rest =>
    ⟨none, some (observe c.name s flag)⟩ :: expected observe s (if c.kind = .toggle then !flag else flag) rest

end Usid.ReadOnly
