import Usid.Model.Reshape
import Usid.Model.Slice
/-! Model of `USIDataset.reduce` (pyUSID/io/usi_data.py) and `write_reduced_anc_dsets`
    (pyUSID/io/hdf_utils/simple.py). -/
namespace Usid.Reduce
open Usid Usid.Reshape Usid.Dims Usid.Slice

variable {α : Type} [Inhabited α]

/-- For every multi-index of the remaining axes (in order), the list of source elements sharing those
    coordinates, enumerated in C order of the reduced axes.  A reduction function is then applied to
    each list (the result does not depend on the enumeration order for sum / max / min / mean / std). -/
def reduceGroups (view : NDArr α) (axes : List Nat) : NDArr (List α) :=
  let rank := view.shape.length
  let keep := (List.range rank).filter (fun a => !axes.contains a)
  let red := (List.range rank).filter (fun a => axes.contains a)
  let keepIdx := cartesian (keep.map (fun a => List.range (view.shape.getD a 0)))
  let redIdx := cartesian (red.map (fun a => List.range (view.shape.getD a 0)))
  let full (ki ri : List Nat) : List Nat :=
    (List.range rank).map (fun a =>
      if axes.contains a then ri.getD (red.idxOf a) 0 else ki.getD (keep.idxOf a) 0)
  { shape := keep.map (fun a => view.shape.getD a 0),
    flat := keepIdx.map (fun ki => redIdx.map (fun ri => view.get (full ki ri))) }

/-- `reduce(dims, ufunc)` in memory: axes are looked up by label in the FILE-ORDER N-D form -/
def reduceMem (view : NDArr α) (labels dims : List String) : Except PyErr (NDArr (List α)) :=
  if dims.isEmpty then .error .valueErr
  else if !(dims.all (fun d => labels.contains d)) then .error .keyErr
  else .ok (reduceGroups view (dims.map (fun d => labels.findIdx (· == d))))

structure AncK where
  labels : List String
  units : List String
  inds : List (List Nat)      -- k × n (spectroscopic orientation)
  vals : List (List Int)
deriving Repr

/-- `write_reduced_anc_dsets(..., dim_name)`: drop the named dimensions, keeping the points at which every
    removed dimension sits at its minimum index -/
def writeReducedAnc (a : AncK) (remove : List String) : AncK :=
  if (List.range a.labels.length).all (fun d => remove.contains (a.labels.getD d "")) then
    { labels := ["Single_Step"], units := ["a. u."], inds := [[0]], vals := [[0]] }
  else
    let n := (a.inds.headD []).length
    let removed := (List.range a.labels.length).filter (fun d => remove.contains (a.labels.getD d ""))
    let kept := (List.range a.labels.length).filter (fun d => !remove.contains (a.labels.getD d ""))
    let cols := (List.range n).filter (fun c =>
      removed.all (fun d => (a.inds.getD d []).getD c 0 == ((a.inds.getD d []).min?).getD 0))
    { labels := kept.map (fun d => a.labels.getD d ""), units := kept.map (fun d => a.units.getD d ""),
      inds := kept.map (fun d => cols.map (fun c => (a.inds.getD d []).getD c 0)),
      vals := kept.map (fun d => cols.map (fun c => (a.vals.getD d []).getD c 0)) }

/-- what `reduce(to_hdf5=True)` links the new dataset to on one side: rebuilt when one of the side's
    dimensions is reduced, the source's own ancillaries otherwise -/
def newSide (a : AncK) (dims : List String) : AncK :=
  if dims.any (fun d => a.labels.contains d) then writeReducedAnc a (dims.filter (fun d => a.labels.contains d)) else a

structure FileResult (α : Type) where
  data : NDArr (List α)          -- the N' × M' matrix of cells (a reduction function is applied to each)
  pos : AncK
  spec : AncK
  posReused : Bool
  specReused : Bool

/-- `reduce(dims, ufunc, to_hdf5=True)`: reduce the file-order N-D form, rebuild the ancillaries of the
    sides that lost a dimension, flatten with `reshape_from_n_dims` and link (`link_as_main` refuses a result
    that is not two-dimensional or does not match the ancillaries) -/
def reduceToFile (view : NDArr α) (labels : List String) (posK specK : AncK) (dims : List String) :
    Except PyErr (FileResult α) :=
  match reduceMem view labels dims with
  | .error e => .error e
  | .ok g =>
    let newPos := newSide posK dims
    let newSpec := newSide specK dims
    match reshapeFromNDimsBoth g (transposeM newPos.inds) newSpec.inds with
    | .error e => .error e
    | .ok two =>
      if two.shape.length != 2 || two.shape.getD 0 0 != (transposeM newPos.inds).length ||
          two.shape.getD 1 0 != ncols newSpec.inds then .error .valueErr
      else .ok ⟨two, newPos, newSpec, !dims.any (fun d => posK.labels.contains d),
                !dims.any (fun d => specK.labels.contains d)⟩

end Usid.Reduce
