import Usid.Model.Dims
import Usid.Model.Anc
/-! Models of `reshape_to_n_dims` and `reshape_from_n_dims` (pyUSID/io/hdf_utils/model.py) and of the
    N-D views of the `USIDataset` wrapper (pyUSID/io/usi_data.py).  Arrays are `NDArr` in C order. -/
namespace Usid.Reshape
open Usid Usid.Dims

variable {α : Type} [Inhabited α]

/-- numpy `a.transpose(axes)`: new axis `j` is old axis `axes[j]`; `axes` must be a permutation -/
def transposeND (a : NDArr α) (axes : List Nat) : Except PyErr (NDArr α) :=
  if axes.length != a.shape.length || !((List.range a.shape.length).all (fun ax => axes.contains ax)) then
    .error .valueErr
  else
    let inv := (List.range a.shape.length).map (fun ax => axes.findIdx (· == ax))
    .ok (a.transpose axes inv)

/-- numpy `a.reshape(shape)` -/
def reshapeND (a : NDArr α) (shape : List Nat) : Except PyErr (NDArr α) :=
  if shape.prod != a.flat.length then .error .valueErr else .ok (a.reshape shape)

def pick {β : Type} [Inhabited β] (l : List β) (idx : List Nat) : List β := idx.map (fun i => l.getD i default)

/-- `reshape_to_n_dims(h5_main, h5_pos, h5_spec, get_labels=True, sort_dims)`:
    `main` is the N × M matrix (shape `[n, m]`), `posInds` the stored N × kp matrix, `specInds` ks × M. -/
def reshapeToNDims (main : NDArr α) (posInds specInds : List (List Nat)) (posLabs specLabs : List String)
    (sortDims : Bool) : Except PyErr (NDArr α × List String) := do
  let n := main.shape.getD 0 0
  let m := main.shape.getD 1 0
  let posT := transposeM posInds
  let posSort := getSortOrder posT
  let specSort := getSortOrder specInds
  let posDims ← getDimensionality posT (some posSort)
  let specDims ← getDimensionality specInds (some specSort)
  if posDims.prod != n then throw .valueErr
  if specDims.prod != m then throw .valueErr
  let nd ← reshapeND main (posDims.reverse ++ specDims.reverse)
  -- pos_labs[pos_sort]: fancy indexing raises IndexError when the order is longer than the labels
  if posSort.any (· ≥ posLabs.length) || specSort.any (· ≥ specLabs.length) then throw .indexErr
  let allLabels := (pick posLabs posSort).reverse ++ (pick specLabs specSort).reverse
  if sortDims then return (nd, allLabels)
  let swapAxes := (posLabs ++ specLabs).map (fun lab => allLabels.findIdx (· == lab))
  let nd2 ← transposeND nd swapAxes
  return (nd2, pick allLabels swapAxes)

/-! ### the wrapper's N-D views -/

structure Wrapper (α : Type) where
  sortFlag : Bool
  origLabels : List String
  origSizes : List Nat
  s2fOrder : List Nat                  -- `__n_dim_sort_order_orig_s2f`
  orig : Option (NDArr α)              -- file-order N-D form (None: "no N-dimensional form")
  s2f : Option (NDArr α)

/-- `USIDataset.__init__(h5_ref, sort_dims)` (the cached file-order view is computed with sort_dims=False) -/
def wrapperInit (main : NDArr α) (posInds specInds : List (List Nat)) (posLabs specLabs : List String)
    (sortDims : Bool) : Except PyErr (Wrapper α) := do
  let posT := transposeM posInds
  let posSizes ← getDimensionality posT none
  let specSizes ← getDimensionality specInds none
  let posSort := getSortOrder posT
  let specSort := getSortOrder specInds
  let s2f := posSort.reverse ++ specSort.reverse.map (· + posSort.length)
  let nd := match reshapeToNDims main posInds specInds posLabs specLabs false with
    | .ok (a, _) => some a
    | .error _ => none
  let s2fView := match nd with
    | some a => (transposeND a s2f).toOption
    | none => none
  return { sortFlag := sortDims, origLabels := posLabs ++ specLabs, origSizes := posSizes ++ specSizes,
           s2fOrder := s2f, orig := nd, s2f := s2fView }

def Wrapper.toggle (w : Wrapper α) : Wrapper α := { w with sortFlag := !w.sortFlag }

/-- `n_dim_labels`, `n_dim_sizes`, `get_n_dim_form()` of the current view -/
def Wrapper.labels (w : Wrapper α) : List String := if w.sortFlag then pick w.origLabels w.s2fOrder else w.origLabels
def Wrapper.sizes (w : Wrapper α) : List Nat := if w.sortFlag then pick w.origSizes w.s2fOrder else w.origSizes
def Wrapper.view (w : Wrapper α) : Option (NDArr α) := if w.sortFlag then w.s2f else w.orig

/-! ### flattening -/

/-- `reshape_from_n_dims(data_n_dim, h5_pos, h5_spec)` with BOTH index matrices (stored orientation) -/
def reshapeFromNDimsBoth (nd : NDArr α) (posInds specInds : List (List Nat)) : Except PyErr (NDArr α) := do
  if nd.shape.length < 2 then return nd
  let n := posInds.length
  let kp := ncols posInds
  let ks := specInds.length
  let m := ncols specInds
  if n * m != nd.shape.prod then throw .valueErr
  let posSize1 := n * kp == 1
  let specSize1 := ks * m == 1
  let squeezed := kp + ks != nd.shape.length
  if squeezed && !(posSize1 || specSize1) then throw .valueErr
  -- a single-point side has no axis only when it was squeezed out
  let posSort := if squeezed && posSize1 then [] else getSortOrder (transposeM posInds)
  let specSort := if squeezed && specSize1 then [] else getSortOrder specInds
  let swapAxes := posSort.reverse ++ specSort.reverse.map (· + posSort.length)
  let nd2 ← transposeND nd swapAxes
  reshapeND nd2 [n, m]

/-- one-sided flattening: only the position (`specGiven = false`) or only the spectroscopic matrix given;
    the missing side is taken to be ordered slowest → fastest -/
def reshapeFromNDimsOne (nd : NDArr α) (inds : List (List Nat)) (specGiven : Bool) : Except PyErr (NDArr α) := do
  if nd.shape.length < 2 then return nd
  -- note: the given matrix is passed AS STORED to get_sort_order / get_dimensionality
  let order := getSortOrder inds
  let dims ← getDimensionality inds (some order)
  if !(dims.all (fun x => nd.shape.contains x)) then throw .valueErr
  if specGiven then
    let posDims := nd.shape.take (nd.shape.length - dims.length)
    let posMat ← Usid.Anc.makeIndicesMatrix posDims            -- k' × N rows (transposed to N × k' by the code)
    let n := (posMat.headD []).length
    let m := ncols inds
    let squeezed := posMat.length + inds.length != nd.shape.length
    let posSort := (if squeezed && n * posMat.length == 1 then [] else getSortOrder posMat).reverse
    let specSort := if squeezed && inds.length * m == 1 then [] else getSortOrder inds
    let swapAxes := posSort.reverse ++ specSort.reverse.map (· + posSort.length)
    let nd2 ← transposeND nd swapAxes
    reshapeND nd2 [n, m]
  else
    let specDims := nd.shape.drop dims.length
    let specMat ← Usid.Anc.makeIndicesMatrix specDims
    let n := inds.length
    let m := (specMat.headD []).length
    let squeezed := ncols inds + specMat.length != nd.shape.length
    let posSort := if squeezed && n * ncols inds == 1 then [] else getSortOrder (transposeM inds)
    let specSort := (if squeezed && specMat.length * m == 1 then [] else getSortOrder specMat).reverse
    let swapAxes := posSort.reverse ++ specSort.reverse.map (· + posSort.length)
    let nd2 ← transposeND nd swapAxes
    reshapeND nd2 [n, m]

end Usid.Reshape
