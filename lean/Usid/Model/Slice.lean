import Usid.Model.Reshape
/-! Model of `USIDataset.slice`, `__slice_n_dim_form`, `_get_pos_spec_slices`, `__validate_slice_dict`
    (pyUSID/io/usi_data.py). -/
namespace Usid.Slice
open Usid Usid.Reshape

/-- a value of the slicing dictionary -/
inductive Sel
  | int (i : Int)
  | slice (start stop step : Option Int)
  | list (l : List Int)            -- list / 1-D ndarray of integers
  | tuple (l : List Int)           -- tuple of integers (accepted by the 2-D path only)
  | other                          -- float, str, range, np.int8 ... (rejected by validation)
deriving Repr, DecidableEq

/-- CPython `slice.indices(n)` followed by `range(*)`: the indices a slice selects on an axis of size `n` -/
def sliceIndices (n : Nat) (start stop step : Option Int) : Except PyErr (List Nat) :=
  let st := step.getD 1
  if st = 0 then .error .valueErr else
  let len : Int := n
  let clampPos (v : Int) : Int := if v < 0 then (if v + len < 0 then 0 else v + len) else (if v > len then len else v)
  let clampNeg (v : Int) : Int := if v < 0 then (if v + len < -1 then -1 else v + len) else (if v ≥ len then len - 1 else v)
  if st > 0 then
    let a := match start with | none => 0 | some v => clampPos v
    let b := match stop with | none => len | some v => clampPos v
    let cnt := if a < b then ((b - a - 1) / st + 1).toNat else 0
    .ok ((List.range cnt).map (fun (k : Nat) => (a + (k : Int) * st).toNat))
  else
    let a := match start with | none => len - 1 | some v => clampNeg v
    let b := match stop with | none => -1 | some v => clampNeg v
    let cnt := if b < a then ((a - b - 1) / (-st) + 1).toNat else 0
    .ok ((List.range cnt).map (fun (k : Nat) => (a + (k : Int) * st).toNat))

abbrev SliceDict := List (String × Sel)

/-- `__validate_slice_dict`: unknown label → KeyError, unsupported value type → TypeError -/
def validate (labels : List String) : SliceDict → Except PyErr Unit
  | [] => .ok ()
  | kv :: rest =>
    if !labels.contains kv.1 then .error .keyErr
    else match kv.2 with
      | .other => .error .typeErr
      | _ => validate labels rest

/-! ### N-D path: orthogonal indexing of the current N-D view (dask semantics) -/

/-- what one selector keeps of an axis of size `n`: `none` = axis dropped (integer), else the kept indices -/
def axisSelect (n : Nat) : Sel → Except PyErr (Option Nat × List Nat)
  | .int i =>
    let j := if i < 0 then i + n else i
    if j < 0 ∨ j ≥ n then .error .indexErr else .ok (some j.toNat, [j.toNat])
  | .slice a b s => do let l ← sliceIndices n a b s; return (none, l)
  | .list l => do
    let idx ← mapME (fun i =>
      let j := if i < 0 then i + (n : Int) else i
      if j < 0 ∨ j ≥ n then Except.error PyErr.indexErr else Except.ok j.toNat) l
    return (none, idx)
  | .tuple _ => .error .typeErr          -- dask rejects a tuple inside the index tuple
  | .other => .error .typeErr

variable {α : Type} [Inhabited α]

/-- all multi-indices of a list of per-axis index lists, in C order -/
def cartesian : List (List Nat) → List (List Nat)
  | [] => [[]]
  | l :: ls => l.flatMap (fun i => (cartesian ls).map (fun rest => i :: rest))

/-- `self.__curr_ndim_form[nd_slice]` then `.compute()` -/
def sliceND (view : NDArr α) (labels : List String) (sd : SliceDict) : Except PyErr (NDArr α) := do
  validate labels sd
  let sels := labels.map (fun lab => (sd.lookup lab).getD (Sel.slice none none none))
  -- dask: more than one list selector is "nd fancy indexing" → NotImplementedError
  if (sels.filter (fun s => match s with | .list _ => true | _ => false)).length > 1 then throw .notImpl
  let per ← mapME (fun ax => axisSelect (view.shape.getD ax 0) (sels.getD ax .other)) (List.range sels.length)
  let kept := per.map (·.2)
  let shape := (per.filter (fun p => p.1.isNone)).map (fun p => p.2.length)
  return { shape := shape, flat := (cartesian kept).map (fun idx => view.get idx) }

/-! ### 2-D path -/

/-- one dimension of `_get_pos_spec_slices`: the selector expanded to a list of indices and checked -/
def expandSel (size : Nat) : Sel → Except PyErr (List Nat)
  | .int i => if i < 0 then .error .valueErr else if i ≥ size then .error .indexErr else .ok [i.toNat]
  | .slice a b s => do
    let l ← sliceIndices size a b s
    if l.isEmpty then .error .valueErr else .ok l          -- contains_integers([]) is False
  | .list l =>
    if l.isEmpty || l.any (· < 0) then .error .valueErr
    else if l.any (· ≥ size) then .error .indexErr else .ok (l.map Int.toNat)
  | .tuple l =>
    if l.isEmpty || l.any (· < 0) then .error .valueErr
    else if l.any (· ≥ size) then .error .indexErr else .ok (l.map Int.toNat)
  | .other => .error .typeErr

/-- rows (or columns) whose indices fall in the selection of every dimension of that side, ascending -/
def selectedRows (inds : List (List Nat)) (sels : List (List Nat)) : List Nat :=
  (List.range inds.length).filter (fun r =>
    (List.range sels.length).all (fun d => (sels.getD d []).contains ((inds.getD r []).getD d 0)))

/-- `_get_pos_spec_slices`: `posInds` is N × kp, `specIndsT` is M × ks (transposed spectroscopic matrix) -/
def posSpecSlices (posInds specIndsT : List (List Nat)) (posLabs specLabs : List String) (posSizes specSizes : List Nat)
    (sd : SliceDict) : Except PyErr (List Nat × List Nat) := do
  validate (posLabs ++ specLabs) sd
  -- errors are raised in the order of the dictionary
  let _ ← mapME (fun (kv : String × Sel) =>
    expandSel ((posSizes ++ specSizes).getD ((posLabs ++ specLabs).findIdx (· == kv.1)) 0) kv.2) sd
  let selOf (labs : List String) (sizes : List Nat) : Except PyErr (List (List Nat)) :=
    mapME (fun d =>
      match sd.lookup (labs.getD d "") with
      | none => .ok (List.range (sizes.getD d 0))
      | some s => expandSel (sizes.getD d 0) s) (List.range labs.length)
  let ps ← selOf posLabs posSizes
  let ss ← selOf specLabs specSizes
  return (selectedRows posInds ps, selectedRows specIndsT ss)

/-- `np.atleast_2d(np.squeeze(a))` followed by the transposition fix-up, for a 2-D `a` of shape (r, c):
    the fix-up restores the orientation that `squeeze` loses for a single column. -/
def eagerFixup (a : NDArr α) : NDArr α :=
  let r := a.shape.getD 0 0
  let c := a.shape.getD 1 0
  let squeezed := a.shape.filter (· != 1)
  let s2 : List Nat := match squeezed with
    | [] => [1, 1]
    | [k] => [1, k]
    | l => l
  -- transpose only if squeezing changed the shape into its mirror image
  if s2 != [r, c] && s2 == [c, r] then { shape := [r, c], flat := a.flat } else { shape := s2, flat := a.flat }

/-- `slice(slice_dict, ndim_form=False)`: `main` has shape [N, M] -/
def slice2D (main : NDArr α) (posInds specIndsT : List (List Nat)) (posLabs specLabs : List String)
    (posSizes specSizes : List Nat) (sd : SliceDict) (lazy : Bool) : Except PyErr (NDArr α) := do
  let (rows, cols) ← posSpecSlices posInds specIndsT posLabs specLabs posSizes specSizes sd
  let m := main.shape.getD 1 0
  let out : NDArr α := { shape := [rows.length, cols.length],
                         flat := rows.flatMap (fun r => cols.map (fun c => main.flat.getD (r * m + c) default)) }
  return if lazy then out else eagerFixup out

end Usid.Slice
