import Usid.Model.Slice
import Usid.Model.UnitValues
import Usid.Model.Anc
/-! Model of `USIDataset.slice_to_dataset` / `_get_dims_for_slice` (pyUSID/io/usi_data.py) as the
    composition of the 2-D slice (C07), `get_unit_values` on the sliced ancillaries (C09), the removal of
    single-valued dimensions, and the ancillary writer (C08). -/
namespace Usid.SliceTo
open Usid Usid.Slice Usid.UV Usid.Anc Usid.Dims

structure Side where
  labels : List String
  units : List String
  inds : List (List Nat)      -- n × k (rows = points)
  vals : List (List Int)      -- n × k
deriving Repr

/-- the new side after slicing: either the source's ancillaries are reused, or new ones are written -/
inductive NewSide
  | reused
  | written (w : Written)
deriving Repr

def pickRows {β : Type} (m : List (List β)) (rows : List Nat) : List (List β) := rows.map (fun r => m.getD r [])

/-- remaining dimensions of a sliced side, ordered fastest → slowest as the writer expects
    (`slow_to_fast=False`): dimensions left with a single value disappear; a placeholder remains if none is left -/
def dimsForSlice (s : Side) (rows : List Nat) : Except PyErr (List Dim) := do
  let indsSel := pickRows s.inds rows
  let valsSel := pickRows s.vals rows
  let uv ← getUnitValues indsSel valsSel s.labels none (some false)
  let kept := (List.range s.labels.length).filter (fun d => ((uv.lookup (s.labels.getD d "")).getD []).length ≥ 2)
  if kept.isEmpty then return [{ name := "arb.", units := "a. u.", values := [4] }]
  -- `order_fast_to_slow`: number of changes between consecutive selected rows, stable argsort, reversed
  let changes := kept.map (fun d =>
    let col := indsSel.map (fun row => row.getD d 0)
    ((List.range (col.length - 1)).filter (fun i => col.getD (i + 1) 0 != col.getD i 0)).length)
  let ranked := (argsortRev changes).map (fun i => kept.getD i 0)
  return ranked.map (fun d => { name := s.labels.getD d "", units := s.units.getD d "",
                                values := (uv.lookup (s.labels.getD d "")).getD [] })

variable {α : Type} [Inhabited α]

structure Result (α : Type) where
  data : NDArr α
  pos : NewSide
  spec : NewSide

/-- `slice_to_dataset(slice_dict)`; `specT` holds the spectroscopic matrices transposed to M × ks -/
def sliceToDataset (main : NDArr α) (pos specT : Side) (posSizes specSizes : List Nat) (sd : SliceDict) :
    Except PyErr (Result α) := do
  let (rows, cols) ← posSpecSlices pos.inds specT.inds pos.labels specT.labels posSizes specSizes sd
  let posSliced := sd.any (fun kv => pos.labels.contains kv.1)
  let specSliced := sd.any (fun kv => specT.labels.contains kv.1)
  let pdims ← dimsForSlice pos rows
  let sdims ← dimsForSlice specT cols
  let data ← slice2D main pos.inds specT.inds pos.labels specT.labels posSizes specSizes sd false
  -- write_main_dataset re-validates the sizes of freshly built dimension lists against the data
  if posSliced && npts pdims != rows.length then throw .valueErr
  if specSliced && npts sdims != cols.length then throw .valueErr
  return { data := data,
           pos := if posSliced then .written (writeIndVal pdims false) else .reused,
           spec := if specSliced then .written (writeIndVal sdims false) else .reused }
where
  npts (l : List Dim) : Nat := (l.map (fun d => d.values.length)).prod

end Usid.SliceTo
