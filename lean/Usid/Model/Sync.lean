/-! Synchronisation skeleton of `Process.compute()` under MPI: every rank executes the same straight-line program
    of `assign` (derive the own range from the completion-status dataset), `barrier`, `mark` (write completion
    marks) and other instructions; the loop is unrolled any number of times.  A barrier lets a rank pass only when
    every rank has arrived at (or passed) that same barrier.  The schedule - which rank moves next - is arbitrary. -/
namespace Usid.Sync

inductive Instr | assign | barrier | mark | other
deriving DecidableEq, Repr

abbrev Prog := List Instr

/-- number of barrier instructions among the first `pc` instructions -/
def barriersBefore (p : Prog) (pc : Nat) : Nat := ((p.take pc).filter (· == Instr.barrier)).length

/-- a rank whose counter is `pc` has arrived at (or passed) the `k`-th barrier -/
def arrived (p : Prog) (pc k : Nat) : Bool :=
  decide (k < barriersBefore p pc) || (barriersBefore p pc == k && p[pc]? == some Instr.barrier)

structure State where
  pc : Nat → Nat                 -- program counter of every rank
  marks : Nat                    -- completion marks written so far, by any rank
  seen : Nat → Option Nat        -- per rank: how many marks had been written when it derived its range

def init : State := { pc := fun _ => 0, marks := 0, seen := fun _ => none }

def upd {β : Type} (f : Nat → β) (r : Nat) (v : β) : Nat → β := fun x => if x = r then v else f x

/-- may rank `r` (of `n`) execute its next instruction? -/
def canStep (p : Prog) (n : Nat) (s : State) (r : Nat) : Bool :=
  decide (r < n) &&
  match p[s.pc r]? with
  | none => false
  | some .barrier => (List.range n).all (fun r' => arrived p (s.pc r') (barriersBefore p (s.pc r)))
  | some _ => true

/-- rank `r` executes its next instruction (nothing happens when it may not) -/
def step (p : Prog) (n : Nat) (s : State) (r : Nat) : State :=
  if canStep p n s r then
    match p[s.pc r]? with
    | some .assign => { s with pc := upd s.pc r (s.pc r + 1), seen := upd s.seen r (some s.marks) }
    | some .mark => { s with pc := upd s.pc r (s.pc r + 1), marks := s.marks + 1 }
    | _ => { s with pc := upd s.pc r (s.pc r + 1) }
  else s

/-- a schedule is the list of ranks that are given the next move -/
def run (p : Prog) (n : Nat) : State → List Nat → State
  | s, [] => s
  | s, r :: rest => run p n (step p n s r) rest

/-- index of the first occurrence -/
def firstIdx (p : Prog) (x : Instr) : Option Nat :=
  if p.findIdx (· == x) < p.length then some (p.findIdx (· == x)) else none

/-- the skeleton is safe: exactly one `assign`, a barrier after it, and no `mark` before that barrier -/
def Safe (p : Prog) : Bool :=
  match firstIdx p .assign with
  | none => false
  | some i =>
    (p.drop (i + 1)).all (· != Instr.assign) &&
    match firstIdx (p.drop (i + 1)) .barrier with
    | none => false
    | some d => (p.take (i + 1 + d)).all (· != Instr.mark)

end Usid.Sync
