import Usid.Basic.NDArray
import Usid.Model.Anc
/-! Models of the three translators of C19:
    `write_sidpy_dataset` (pyUSID/io/hdf_utils/model.py), `ImageTranslator.translate` (pyUSID/io/image.py)
    and `ArrayTranslator.translate` (pyUSID/io/array_translator.py). -/
namespace Usid.Translate
open Usid Usid.Anc

variable {α : Type} [Inhabited α]

/-- one axis of a labelled (sidpy) dataset -/
structure Axis where
  name : String
  units : String
  values : List Int
  spatial : Bool              -- DimensionType.SPATIAL; every other type is treated as spectroscopic
deriving Repr, DecidableEq

def Axis.toDim (a : Axis) : Dim := ⟨a.name, a.units, a.values⟩

def isSpatial (axes : List Axis) (i : Nat) : Bool := (axes[i]?.map (·.spatial)).getD false

/-- axis numbers of the spatial / the other axes, in axis order -/
def spatialIdx (axes : List Axis) : List Nat := (List.range axes.length).filter (isSpatial axes)
def spectralIdx (axes : List Axis) : List Nat := (List.range axes.length).filter (fun i => !isSpatial axes i)

/-- inverse of a permutation of `range k` -/
def inversePerm (k : Nat) (perm : List Nat) : List Nat := (List.range k).map (fun i => perm.idxOf i)

/-- the placeholder dimension of a side without axes -/
def arbDim : Dim := ⟨"arb", "a. u.", [0]⟩

def dimsOf (axes : List Axis) (sel : List Nat) : List Dim :=
  let d := sel.map (fun i => ((axes[i]?).map Axis.toDim).getD arbDim)
  if d = [] then [arbDim] else d

structure Out (α : Type) where
  main : NDArr α               -- shape [N, M]
  pos : Written
  spec : Written

/-- `write_sidpy_dataset`: spatial axes are brought to the front (keeping their order), the array is
    flattened to [∏ spatial, ∏ spectral] and the ancillaries are written slowest dimension first. -/
def writeSidpy (a : NDArr α) (axes : List Axis) : Out α :=
  let P := spatialIdx axes
  let Q := spectralIdx axes
  let perm := P ++ Q
  let t := a.transpose perm (inversePerm axes.length perm)
  let n := (P.map (fun ax => a.shape.getD ax 1)).prod
  let m := (Q.map (fun ax => a.shape.getD ax 1)).prod
  { main := t.reshape [n, m], pos := writeIndVal (dimsOf axes P) true, spec := writeIndVal (dimsOf axes Q) true }

/-- what the code did before the repair of D12: flatten the array as it is -/
def writeSidpyUnfixed (a : NDArr α) (axes : List Axis) : Out α :=
  let P := spatialIdx axes
  let Q := spectralIdx axes
  let n := (P.map (fun ax => a.shape.getD ax 1)).prod
  let m := (Q.map (fun ax => a.shape.getD ax 1)).prod
  { main := a.reshape [n, m], pos := writeIndVal (dimsOf axes P) true, spec := writeIndVal (dimsOf axes Q) true }

/-- `ImageTranslator.translate` on an H x W image (rows x columns): transpose, flatten to (W*H, 1);
    position dimensions [Y (rows), X (columns)] with the first one varying fastest. -/
def imageTranslate (img : NDArr α) : Out α :=
  let h := img.shape.getD 0 1
  let w := img.shape.getD 1 1
  let t := img.transpose [1, 0] [1, 0]
  let ramp (n : Nat) : List Int := (List.range n).map (fun (i : Nat) => 4 * (i : Int))     -- quarter units
  { main := t.reshape [w * h, 1],
    pos := writeIndVal [⟨"Y", "a.u.", ramp h⟩, ⟨"X", "a.u.", ramp w⟩] false,
    spec := writeIndVal [⟨"arb", "a.u.", [0]⟩] false }

/-! ### ArrayTranslator -/

inductive DataArg
  | array (rank : Nat)
  | badType
deriving Repr, DecidableEq

inductive DimsArg
  | dims (l : List Dim)
  | badType
deriving Repr, DecidableEq

inductive ExtraVal | arrayLike | badType
deriving Repr, DecidableEq

structure Extra where
  keyIsStr : Bool
  key : String                 -- stripped
  val : ExtraVal
  content : List Int
deriving Repr, DecidableEq

structure ArrIn where
  stringsOk : Bool             -- h5_path, data_name, translator_name, quantity, units are non-empty strings
  dataName : String
  translator : String
  data : DataArg
  n : Nat
  m : Nat
  raw : List Int               -- the elements, row-major
  pos : DimsArg
  spec : DimsArg
  parms : List (String × String)
  extrasIsDict : Bool
  extras : List Extra
deriving Repr

def reserved : List String :=
  ["Spectroscopic_Indices", "Spectroscopic_Values", "Position_Indices", "Position_Values", "Raw_Data"]

/-- Python's `key in x` for strings -/
def isSub (k x : List Char) : Bool := (List.range (x.length + 1)).any (fun i => (x.drop i).take k.length == k)

def npointsOf (l : List Dim) : Nat := (l.map (fun d => d.values.length)).prod

def validateSide (d : DimsArg) (want : Nat) : Except PyErr Unit :=
  match d with
  | .badType => .error .typeErr
  | .dims l => if npointsOf l != want then .error .valueErr else .ok ()

def validateExtras : List Extra → Except PyErr Unit
  | [] => .ok ()
  | e :: rest =>
    if !e.keyIsStr then .error .typeErr
    else if reserved.any (fun x => isSub e.key.toList x.toList) then .error .keyErr
    else if e.val != .arrayLike then .error .typeErr
    else validateExtras rest

/-- every check made before the output path is touched -/
def validate (a : ArrIn) : Except PyErr Unit := do
  if !a.stringsOk then throw .typeErr
  match a.data with
  | .badType => throw .typeErr
  | .array r => if r != 2 then throw .valueErr
  validateSide a.pos a.n
  validateSide a.spec a.m
  if !a.extrasIsDict then throw .typeErr
  validateExtras a.extras

structure UsidFile where
  rootAttrs : List (String × String)
  measName : String
  measAttrs : List (String × String)
  chanName : String
  members : List String                 -- members of the channel group, in creation order
  mainShape : List Nat
  main : List Int
  quantityUnitsSet : Bool
  pos : Written
  spec : Written
  extras : List (String × List Int)
deriving Repr, DecidableEq

/-- what sits at the output path -/
inductive PathState
  | absent
  | other (id : Nat)                    -- some earlier file
  | usid (f : UsidFile)
deriving Repr, DecidableEq

def dimsList : DimsArg → List Dim
  | .dims l => l
  | .badType => []

def build (a : ArrIn) : UsidFile :=
  { rootAttrs := [("data_type", a.dataName), ("translator", a.translator)],
    measName := "Measurement_000", measAttrs := a.parms, chanName := "Channel_000",
    members := ["Position_Indices", "Position_Values", "Spectroscopic_Indices", "Spectroscopic_Values", "Raw_Data"]
                ++ a.extras.map (·.key),
    mainShape := [a.n, a.m], main := a.raw, quantityUnitsSet := true,
    pos := writeIndVal (dimsList a.pos) false, spec := writeIndVal (dimsList a.spec) false,
    extras := a.extras.map (fun e => (e.key, e.content)) }

/-- `ArrayTranslator.translate`: the state of the output path afterwards, and the outcome -/
def arrayTranslate (p : PathState) (a : ArrIn) : PathState × Except PyErr Unit :=
  match validate a with
  | .error e => (p, .error e)
  | .ok _ => (.usid (build a), .ok ())

end Usid.Translate
