import Usid.Model.Dims
/-! Model of `get_unit_values` (pyUSID/io/hdf_utils/model.py), statement by statement, and of
    `create_spec_inds_from_vals` (pyUSID/io/anc_build_utils.py).  Values are integers (quarters). -/
namespace Usid.UV
open Usid Usid.Dims

/-- `np.where(l == v)[0]` -/
def whereEq (l : List Nat) (v : Nat) : List Nat := (List.range l.length).filter (fun i => l.getD i 0 == v)

/-- `np.diff` on an increasing list of positions -/
def diffNat (l : List Nat) : List Nat := (l.zip l.tail).map (fun p => p.2 - p.1)

/-- positions `j ≥ 1` where `l[j] ≠ l[j-1]` (`np.where(np.hstack(([0], np.diff(l))))[0]`) -/
def changePositions (l : List Nat) : List Nat :=
  (List.range l.length).filter (fun j => j != 0 && l.getD j 0 != l.getD (j - 1) 0)

def transposeI (m : List (List Int)) : List (List Int) :=
  match m with
  | [] => []
  | r :: _ => (List.range r.length).map (fun c => m.map (fun row => row.getD c 0))

/-- positions (in `step_sizes`) of the jumps that start a new tile: `np.where(step_sizes > 1)[0]` -/
def tileIdxOf (stepSizes : List Nat) : List Nat :=
  (List.range stepSizes.length).filter (fun i => stepSizes.getD i 0 > 1)

/-- `tile_starts`: 0, the start of every further tile, and the length of the row -/
def tileStartsFn (n : Nat) (starts tileIdx : List Nat) : List Nat :=
  if tileIdx.isEmpty then [0, n] else (0 :: tileIdx.map (fun i => starts.getD i 0)) ++ [n]

/-- the sub-sections of the row between consecutive tile starts -/
def subsOf (inds tileStarts : List Nat) : List (List Nat) :=
  (List.range (tileStarts.length - 1)).map (fun i =>
    (inds.drop (tileStarts.getD i 0)).take (tileStarts.getD (i + 1) 0 - tileStarts.getD i 0))

/-- the per-dimension body of the loop in `get_unit_values` -/
def unitValuesRow (inds : List Nat) (vals : List Int) : Except PyErr (List Int) :=
  match inds.min? with
  | none => .error .valueErr                       -- np.min of an empty row
  | some mn =>
    let starts := whereEq inds mn
    if starts.headD 1 != 0 then .error .valueErr   -- "not starting with 0"
    else
    let stepSizes := 1 :: diffNat starts
    -- np.where(np.unique(step_sizes) - 1)[0].size > 1  → "Non constant step sizes"
    if ((stepSizes.eraseDups).filter (· != 1)).length > 1 then .error .valueErr
    else
    let tileIdx := tileIdxOf stepSizes
    let tileStarts := tileStartsFn inds.length starts tileIdx
    -- ragged sub-sections cannot be stacked (ValueError); equal length but different → ValueError
    if !tileIdx.isEmpty && !((subsOf inds tileStarts).all (fun s => s == (subsOf inds tileStarts).headD [])) then
      .error .valueErr
    else
    let subsection := (inds.drop (tileStarts.getD 0 0)).take (tileStarts.getD 1 0 - tileStarts.getD 0 0)
    let stepInds := 0 :: changePositions subsection
    .ok (stepInds.map (fun i => vals.getD i 0))

/-- `get_unit_values(ds_inds, ds_vals, dim_names, all_dim_names, is_spec)` on matrices AS STORED -/
def getUnitValues (inds : List (List Nat)) (vals : List (List Int)) (allNames : List String)
    (dimNames : Option (List String)) (isSpec : Option Bool) : Except PyErr (List (String × List Int)) := do
  if inds.length != vals.length || ncols inds != (vals.headD []).length then throw .valueErr
  let spec := match isSpec with
    | some b => b
    | none => decide (inds.length < ncols inds)
  let indsM := if spec then inds else transposeM inds
  let valsM := if spec then vals else transposeI vals
  if allNames.length != indsM.length then throw .valueErr
  let wanted := dimNames.getD allNames
  if !(wanted.all (fun nm => allNames.contains nm)) then throw .keyErr
  -- the loop runs over ALL dimensions (an irregular unwanted dimension still raises), in order
  let rows ← mapME (fun nm =>
    let row := allNames.findIdx (· == nm)          -- np.where(all_dim_names == dim_name)[0][0]
    unitValuesRow (indsM.getD row []) (valsM.getD row [])) allNames
  return (allNames.zip rows).filter (fun p => wanted.contains p.1)

/-- the wrap-around change count of one values row: `len(np.where([row[i] != row[i - 1] ...])[0])` -/
def changeCountInt (row : List Int) : Nat :=
  ((List.range row.length).filter (fun i =>
    row.getD i 0 != row.getD (if i = 0 then row.length - 1 else i - 1) 0)).length

/-- `changed = np.where(this_col != last_col)[0]` at column `jcol`, rows taken in `order` -/
def changedAt (vals : List (List Int)) (order : List Nat) (jcol : Nat) : List Nat :=
  (List.range vals.length).filter (fun i =>
    (vals.getD (order.getD i 0) []).getD jcol 0 != (vals.getD (order.getD i 0) []).getD (jcol - 1) 0)

/-- the body of the column loop: one changed row is incremented; of several the last is incremented and
    the others are reset; none leaves the running indices as they are -/
def rebuildStep (changed : List Nat) (prev : List Nat) : List Nat :=
  if changed.length == 1 then prev.modify (changed.headD 0) (· + 1)
  else if changed.length > 1 then
    (changed.dropLast.foldl (fun p c => p.set c 0) prev).modify (changed.getLastD 0) (· + 1)
  else prev

/-- the running indices (per sorted row) stored for every column -/
def rebuildCols (vals : List (List Int)) (order : List Nat) (n : Nat) : List (List Nat) :=
  (List.range (n - 1)).foldl (fun (acc : List (List Nat)) j =>
    acc ++ [rebuildStep (changedAt vals order (j + 1)) (acc.getLastD (List.replicate vals.length 0))])
    [List.replicate vals.length 0]

/-- `create_spec_inds_from_vals` on a k × n values matrix -/
def createSpecIndsFromVals (vals : List (List Int)) : List (List Nat) :=
  let n := (vals.headD []).length
  let order := argsortRev (vals.map changeCountInt)
  let cols := rebuildCols vals order n
  -- cols[j][i] is the index of sorted row i in column j; scatter back: out[order[i]][j]
  (List.range vals.length).map (fun d =>
    (List.range n).map (fun j => (cols.getD j []).getD (order.findIdx (· == d)) 0))

end Usid.UV
