import Usid.Model.Anc
/-! Lemmas about the ancillary builders (C08). -/
namespace Usid.Anc
open Usid

theorem tile_repeat_get {α : Type} (vec : List α) (rs ts c : Nat) (hrs : 0 < rs)
    (hc : c < vec.length * rs * ts) :
    (tile (repeatEach vec rs) ts)[c]? = vec[c / rs % vec.length]? := by
  have hlen : (repeatEach vec rs).length = vec.length * rs := length_repeatEach vec rs
  rw [getElem?_tile _ _ _ (by rw [hlen]; exact hc), hlen, getElem?_repeatEach _ _ _ hrs]
  congr 1
  rw [Nat.mul_comm]; exact Nat.mod_mul_right_div_self c rs vec.length

theorem prod_pos_of_pos : ∀ (l : List Nat), (∀ x ∈ l, 0 < x) → 0 < l.prod
  | [], _ => by simp
  | x :: xs, h => by
    rw [List.prod_cons]
    exact Nat.mul_pos (h x List.mem_cons_self) (prod_pos_of_pos xs (fun y hy => h y (List.mem_cons_of_mem _ hy)))

theorem prod_split (l : List Nat) (d : Nat) (hd : d < l.length) :
    l.prod = (l.take d).prod * l[d] * (l.drop (d + 1)).prod := by
  have h1 : l = l.take d ++ l[d] :: l.drop (d + 1) := by
    rw [← List.drop_eq_getElem_cons hd, List.take_append_drop]
  conv => lhs; rw [h1]
  rw [List.prod_append, List.prod_cons, Nat.mul_assoc]

/-- entry `(d, c)` of the built rows: the vector of dimension `d` read at the mixed-radix digit of `c` -/
theorem buildRows_get {α : Type} (vecs : List (List α)) (d c : Nat) (hd : d < vecs.length)
    (hpos : ∀ v ∈ vecs, 0 < v.length) (hc : c < (vecs.map List.length).prod) :
    ∃ row, (buildRows vecs)[d]? = some row ∧
      row[c]? = (vecs[d])[c / repSize (vecs.map List.length) d % (vecs[d]).length]? := by
  unfold buildRows
  refine ⟨_, by rw [List.getElem?_map, List.getElem?_range hd]; rfl, ?_⟩
  have hgd : vecs.getD d [] = vecs[d] := by simp [List.getD_eq_getElem?_getD, List.getElem?_eq_getElem hd]
  show (tile (repeatEach (vecs.getD d []) (repSize (List.map List.length vecs) d))
      (tileSize (List.map List.length vecs) d))[c]? = _
  rw [hgd]
  have hlpos : ∀ x ∈ vecs.map List.length, 0 < x := by
    intro x hx; obtain ⟨v, hv, rfl⟩ := List.mem_map.mp hx; exact hpos v hv
  have hrs : 0 < repSize (vecs.map List.length) d :=
    prod_pos_of_pos _ (fun x hx => hlpos x ((List.take_sublist _ _).subset hx))
  apply tile_repeat_get _ _ _ _ hrs
  have hd' : d < (vecs.map List.length).length := by simpa using hd
  have := prod_split (vecs.map List.length) d hd'
  simp only [List.getElem_map] at this
  unfold repSize tileSize
  rw [Nat.mul_comm (vecs[d]).length]
  rw [← this]; exact hc

/-! ### mixed radix, fastest digit first -/

/-- digits of `c` for sizes listed fastest first -/
def digitsOf : List Nat → Nat → List Nat
  | [], _ => []
  | l :: ls, c => c % l :: digitsOf ls (c / l)

theorem digitsOf_get : ∀ (ls : List Nat) (c d : Nat), d < ls.length →
    (digitsOf ls c)[d]? = some (c / (ls.take d).prod % ls[d]!)
  | [], _, _, h => by simp at h
  | l :: ls, c, 0, _ => by simp [digitsOf]
  | l :: ls, c, d + 1, h => by
    simp only [digitsOf, List.getElem?_cons_succ, List.take_succ_cons, List.prod_cons]
    rw [digitsOf_get ls (c / l) d (by simpa using h)]
    simp [Nat.div_div_eq_div_mul]

theorem digitsOf_inj : ∀ (ls : List Nat) (c c' : Nat), c < ls.prod → c' < ls.prod →
    digitsOf ls c = digitsOf ls c' → c = c'
  | [], c, c', h, h', _ => by simp at h h'; omega
  | l :: ls, c, c', h, h', he => by
    simp only [digitsOf, List.cons.injEq] at he
    rw [List.prod_cons] at h h'
    have hl : 0 < l := by
      rcases Nat.eq_zero_or_pos l with h0 | h0
      · rw [h0] at h; simp at h
      · exact h0
    have hq : c / l = c' / l := by
      apply digitsOf_inj ls _ _ _ _ he.2
      · exact Nat.div_lt_of_lt_mul h
      · exact Nat.div_lt_of_lt_mul h'
    have e1 := Nat.div_add_mod c l
    have e2 := Nat.div_add_mod c' l
    rw [hq, he.1] at e1
    omega

theorem digitsOf_surj : ∀ (ls ds : List Nat), ds.length = ls.length → (∀ d (h : d < ds.length), ds[d] < ls[d]!) →
    ∃ c, c < ls.prod ∧ digitsOf ls c = ds
  | [], [], _, _ => ⟨0, by simp, rfl⟩
  | [], _ :: _, h, _ => by simp at h
  | _ :: _, [], h, _ => by simp at h
  | l :: ls, x :: ds, hlen, hb => by
    have hx : x < l := by have := hb 0 (by simp); simpa using this
    obtain ⟨c, hc, he⟩ := digitsOf_surj ls ds (by simpa using hlen) (by
      intro d hd
      have := hb (d + 1) (by simpa using hd)
      simpa using this)
    refine ⟨x + l * c, ?_, ?_⟩
    · rw [List.prod_cons]
      calc x + l * c < l + l * c := by omega
        _ = l * (c + 1) := by rw [Nat.mul_add, Nat.mul_one, Nat.add_comm]
        _ ≤ l * ls.prod := Nat.mul_le_mul_left _ hc
    · have hl : 0 < l := by omega
      simp only [digitsOf]
      have h1 : (x + l * c) % l = x := by rw [Nat.add_mul_mod_self_left]; exact Nat.mod_eq_of_lt hx
      have h2 : (x + l * c) / l = c := by
        rw [Nat.add_mul_div_left _ _ hl, Nat.div_eq_of_lt hx]; simp
      rw [h1, h2, he]

end Usid.Anc
