import Usid.Model.Slice
import Usid.Basic.Radix
/-! Indexing lemmas for `flatMap` over equally long blocks and for `cartesian` (C-order product of index
    lists): used by the element-level theorems of C07, C11 and C12. -/
namespace Usid.Slice
open Usid

/-- blocks of equal length `P`: element `i * P + t` of the concatenation is element `t` of block `i` -/
theorem flatMap_uniform_get {β γ : Type} (g : β → List γ) (P : Nat) : ∀ (l : List β), (∀ x ∈ l, (g x).length = P) →
    ∀ (i t : Nat) (hi : i < l.length), t < P → (l.flatMap g)[i * P + t]? = (g l[i])[t]?
  | [], _, i, _, hi, _ => by simp at hi
  | x :: xs, hP, 0, t, _, ht => by
    simp only [List.flatMap_cons, Nat.zero_mul, Nat.zero_add, List.getElem_cons_zero]
    rw [List.getElem?_append_left (by rw [hP x (by simp)]; exact ht)]
  | x :: xs, hP, i + 1, t, hi, ht => by
    have hx := hP x (by simp)
    simp only [List.flatMap_cons, List.getElem_cons_succ]
    rw [List.getElem?_append_right (by rw [hx, Nat.add_mul, Nat.one_mul]; omega)]
    have e : (i + 1) * P + t - (g x).length = i * P + t := by rw [hx, Nat.add_mul, Nat.one_mul]; omega
    rw [e]
    exact flatMap_uniform_get g P xs (fun y hy => hP y (List.mem_cons_of_mem _ hy)) i t (by simpa using hi) ht

theorem cartesian_length' : ∀ (ls : List (List Nat)), (cartesian ls).length = (ls.map List.length).prod
  | [] => rfl
  | l :: ls => by
    simp only [cartesian, List.map_cons, List.prod_cons]
    rw [← cartesian_length' ls]
    induction l with
    | nil => simp
    | cons x xs ih =>
      simp only [List.flatMap_cons, List.length_append, List.length_map, List.length_cons]
      rw [ih]; rw [Nat.add_mul, Nat.one_mul, Nat.add_comm]

/-- the multi-index picked by positions `js` out of per-axis index lists `ls` -/
def pickIdx : List (List Nat) → List Nat → List Nat
  | l :: ls, j :: js => l.getD j 0 :: pickIdx ls js
  | _, _ => []

/-- `cartesian` enumerates in C order: at the ravelled position of `js` sits the multi-index picked by `js` -/
theorem cartesian_get : ∀ (ls : List (List Nat)) (js : List Nat), InBounds (ls.map List.length) js →
    (cartesian ls)[ravelC (ls.map List.length) js]? = some (pickIdx ls js)
  | [], [], _ => by simp [cartesian, ravelC, pickIdx]
  | l :: ls, j :: js, h => by
    obtain ⟨hj, hrest⟩ := h
    have ih := cartesian_get ls js hrest
    have hlt := ravelC_lt _ _ hrest
    simp only [List.map_cons, ravelC, cartesian, pickIdx]
    rw [← cartesian_length' ls] at hlt ⊢
    rw [flatMap_uniform_get (fun i => (cartesian ls).map (fun rest => i :: rest)) (cartesian ls).length l
      (fun x _ => by simp) j _ hj hlt]
    rw [List.getElem?_map, ih]
    simp [List.getD_eq_getElem?_getD, List.getElem?_eq_getElem hj]
  | [], _ :: _, h => by simp [InBounds] at h
  | _ :: _, [], h => by simp [InBounds] at h

/-- component-wise membership -/
def AllMem : List Nat → List (List Nat) → Prop
  | [], [] => True
  | i :: is, l :: ls => i ∈ l ∧ AllMem is ls
  | _, _ => False

/-- membership in `cartesian`: component-wise membership -/
theorem mem_cartesian : ∀ (ls : List (List Nat)) (idx : List Nat), idx ∈ cartesian ls ↔ AllMem idx ls
  | [], [] => by simp [cartesian, AllMem]
  | [], _ :: _ => by simp [cartesian, AllMem]
  | l :: ls, [] => by
    simp only [cartesian, List.mem_flatMap, List.mem_map, AllMem, iff_false]
    rintro ⟨i, _, rest, _, h⟩; cases h
  | l :: ls, i :: is => by
    simp only [cartesian, List.mem_flatMap, List.mem_map, AllMem]
    constructor
    · rintro ⟨i', hi, rest, hrest, h⟩
      injection h with h1 h2
      subst h1; subst h2
      exact ⟨hi, (mem_cartesian ls rest).mp hrest⟩
    · rintro ⟨hi, hrest⟩
      exact ⟨i, hi, is, (mem_cartesian ls is).mpr hrest, rfl⟩

end Usid.Slice

namespace Usid.Slice
open Usid

/-- a successful `mapME` applied `f` successfully to every element, in order -/
theorem mapME_ok {β γ : Type} (f : β → Except PyErr γ) : ∀ (l : List β) (ys : List γ), mapME f l = .ok ys →
    ys.length = l.length ∧ ∀ (i : Nat) (h1 : i < l.length) (h2 : i < ys.length), f l[i] = .ok ys[i]
  | [], ys, h => by
    simp only [mapME, Except.ok.injEq] at h
    subst h; simp
  | x :: xs, ys, h => by
    unfold mapME at h
    split at h
    · cases h
    · rename_i y hy
      split at h
      · cases h
      · rename_i ys' hys
        injection h with h; subst h
        obtain ⟨hl, hi⟩ := mapME_ok f xs ys' hys
        refine ⟨by simp [hl], ?_⟩
        intro i h1 h2
        cases i with
        | zero => simpa using hy
        | succ k => simpa using hi k (by simpa using h1) (by simpa using h2)

end Usid.Slice
