import Usid.Model.Crash
import Usid.Proofs.Process
import Usid.Proofs.Resume
/-! Lemmas for the crash model (C04). -/
namespace Usid.Crash
open Usid.Proc

/-! ### lookups -/

theorem lookup_cons (s : St) (k k' : Key) (v : Int) :
    ({ s with stored := (k, v) :: s.stored } : St).lookup k' = if k = k' then some v else s.lookup k' := by
  unfold St.lookup
  by_cases h : k = k' <;> simp [List.find?, h]

theorem find_filter_file (l : List (Key × Int)) (f : Nat) (k : Key) (hk : k.file = f) :
    (l.filter (fun e => e.1.file = f)).find? (fun e => e.1 = k) = l.find? (fun e => e.1 = k) := by
  rw [List.find?_filter]
  congr 1; funext e
  by_cases hek : e.1 = k
  · simp [hek, hk]
  · simp [hek]

theorem find_filter_other (l : List (Key × Int)) (f : Nat) (k : Key) (hk : k.file = f) :
    (l.filter (fun e => e.1.file ≠ f)).find? (fun e => e.1 = k) = none := by
  rw [List.find?_filter, List.find?_eq_none]
  intro e _
  by_cases hek : e.1 = k
  · simp [hek, hk]
  · simp [hek]

theorem find_filter_ne (l : List (Key × Int)) (f : Nat) (k : Key) (hk : k.file ≠ f) :
    (l.filter (fun e => e.1.file ≠ f)).find? (fun e => e.1 = k) = l.find? (fun e => e.1 = k) := by
  rw [List.find?_filter]
  congr 1; funext e
  by_cases hek : e.1 = k
  · simp [hek, hk]
  · simp [hek]

theorem find_filter_file_none (l : List (Key × Int)) (f : Nat) (k : Key) (hk : k.file ≠ f) :
    (l.filter (fun e => e.1.file = f)).find? (fun e => e.1 = k) = none := by
  rw [List.find?_filter, List.find?_eq_none]
  intro e _
  by_cases hek : e.1 = k
  · simp [hek, hk]
  · simp [hek]

theorem lookup_flush (f : Nat) (w : World) (k : Key) :
    (flushFile f w).lookup k = if k.file = f then w.vol.lookup k else w.dur.lookup k := by
  unfold St.lookup flushFile
  simp only [List.find?_append]
  by_cases hk : k.file = f
  · rw [find_filter_file _ f k hk, find_filter_other _ f k hk]; simp [hk]
  · rw [find_filter_file_none _ f k hk, find_filter_ne _ f k hk]; simp [hk]

theorem mem_flush_marked (f : Nat) (w : World) (k : Key) :
    k ∈ (flushFile f w).marked ↔ if k.file = f then k ∈ w.vol.marked else k ∈ w.dur.marked := by
  unfold flushFile
  by_cases hk : k.file = f <;> simp [hk]

/-! ### invariant: both copies consistent -/

def Inv (final : Nat → Int) (w : World) : Prop := Consistent final w.vol ∧ Consistent final w.dur

theorem inv_step (final : Nat → Int) (w : World) (e : Ev) (h : Inv final w)
    (hm : ∀ k, e = .mark k → w.vol.lookup k = some (final k.pos))
    (hw : ∀ k v, e = .writeRes k v → k ∈ w.vol.marked → v = final k.pos) : Inv final (step w e) := by
  obtain ⟨h1, h2⟩ := h
  cases e with
  | writeRes k v =>
    refine ⟨?_, h2⟩
    intro k' hk'
    simp only [step] at hk' ⊢
    rw [lookup_cons]
    by_cases hkk : k = k'
    · subst hkk; simp [hw k v rfl hk']
    · simp [hkk]; exact h1 k' hk'
  | mark k =>
    refine ⟨?_, h2⟩
    intro k' hk'
    simp only [step, List.mem_cons] at hk'
    have hl : ({ w.vol with marked := k :: w.vol.marked } : St).lookup k' = w.vol.lookup k' := rfl
    simp only [step]; rw [hl]
    rcases hk' with rfl | hk'
    · exact hm _ rfl
    · exact h1 k' hk'
  | flush f =>
    refine ⟨h1, ?_⟩
    intro k hk
    simp only [step] at hk ⊢
    rw [lookup_flush]
    have := (mem_flush_marked f w k).mp hk
    by_cases hf : k.file = f
    · simp only [hf, if_true] at this ⊢; exact h1 k this
    · simp only [hf, if_false] at this ⊢; exact h2 k this
  | other => exact ⟨h1, h2⟩

theorem wf_prefix_inv (final : Nat → Int) : ∀ (t : List Ev) (w : World), Inv final w →
    wfFrom final w t = true → ∀ i, Inv final (run w (t.take i)) := by
  intro t
  induction t with
  | nil => intro w h _ i; simpa [run] using h
  | cons e t ih =>
    intro w h hwf i
    cases i with
    | zero => simpa [run] using h
    | succ i =>
      simp only [List.take_succ_cons, run, List.foldl_cons]
      apply ih
      · apply inv_step final w e h
        · intro k hk; subst hk
          simp only [wfFrom, Bool.and_eq_true, beq_iff_eq] at hwf; exact hwf.1
        · intro k v hk hmem; subst hk
          simp only [wfFrom, Bool.and_eq_true, Bool.or_eq_true, Bool.not_eq_eq_eq_not, Bool.not_true,
            beq_iff_eq] at hwf
          rcases hwf.1 with hc | hv
          · have : w.vol.marked.contains k = true := by simpa using hmem
            rw [this] at hc; exact absurd hc (by simp)
          · exact hv
      · cases e <;> simp_all [wfFrom]

theorem inv_empty (final : Nat → Int) : Inv final {} := by
  constructor <;> intro k hk <;> simp at hk

theorem wfStrong_imp_wf (final : Nat → Int) : ∀ (t : List Ev) (w : World),
    wfStrongFrom final w t = true → wfFrom final w t = true := by
  intro t
  induction t with
  | nil => intro w _; rfl
  | cons e t ih =>
    intro w h
    cases e with
    | writeRes k v =>
      simp only [wfStrongFrom, Bool.and_eq_true] at h
      simp only [wfFrom, Bool.and_eq_true]
      exact ⟨h.1, ih _ h.2⟩
    | mark k =>
      simp only [wfStrongFrom, Bool.and_eq_true] at h
      simp only [wfFrom, Bool.and_eq_true]
      exact ⟨h.1.2, ih _ h.2⟩
    | flush f => simp only [wfStrongFrom] at h; simp only [wfFrom]; exact ih _ h
    | other => simp only [wfStrongFrom] at h; simp only [wfFrom]; exact ih _ h

/-! ### runs over appended traces -/

theorem run_append (w : World) (t1 t2 : List Ev) : run w (t1 ++ t2) = run (run w t1) t2 := by
  simp [run, List.foldl_append]

theorem wf_append (final : Nat → Int) : ∀ (t1 t2 : List Ev) (w : World),
    wfFrom final w (t1 ++ t2) = (wfFrom final w t1 && wfFrom final (run w t1) t2) := by
  intro t1
  induction t1 with
  | nil => intro t2 w; simp [wfFrom, run]
  | cons e t ih =>
    intro t2 w
    cases e <;> simp [wfFrom, run, List.foldl_cons, ih, Bool.and_assoc] <;> rfl

/-! ### durability of marks -/

theorem vol_marked_mono (w : World) (e : Ev) (k : Key) (h : k ∈ w.vol.marked) : k ∈ (step w e).vol.marked := by
  cases e <;> simp [step, h]

theorem vol_marked_mono_run (t : List Ev) (w : World) (k : Key) (h : k ∈ w.vol.marked) :
    k ∈ (run w t).vol.marked := by
  induction t generalizing w with
  | nil => simpa [run] using h
  | cons e t ih => simp only [run, List.foldl_cons]; exact ih _ (vol_marked_mono w e k h)

/-- a mark that is both volatile and durable stays durable whatever happens next -/
theorem dur_marked_keep (w : World) (e : Ev) (k : Key) (hv : k ∈ w.vol.marked) (hd : k ∈ w.dur.marked) :
    k ∈ (step w e).dur.marked := by
  cases e with
  | flush f =>
    simp only [step]
    rw [mem_flush_marked]
    by_cases hf : k.file = f <;> simp [hf, hv, hd]
  | writeRes k' v => simpa [step] using hd
  | mark k' => simpa [step] using hd
  | other => simpa [step] using hd

theorem dur_marked_keep_run (t : List Ev) (w : World) (k : Key) (hv : k ∈ w.vol.marked)
    (hd : k ∈ w.dur.marked) : k ∈ (run w t).dur.marked := by
  induction t generalizing w with
  | nil => simpa [run] using hd
  | cons e t ih =>
    simp only [run, List.foldl_cons]
    exact ih _ (vol_marked_mono w e k hv) (dur_marked_keep w e k hv hd)

/-! ### the model trace -/

theorem run_writes_vol (final : Nat → Int) (rf g : Nat) (b : List Nat) (w : World) :
    (run w (b.map (fun p => Ev.writeRes ⟨rf, g, p⟩ (final p)))).vol.marked = w.vol.marked ∧
    (run w (b.map (fun p => Ev.writeRes ⟨rf, g, p⟩ (final p)))).dur = w.dur ∧
    (∀ p ∈ b, (run w (b.map (fun p => Ev.writeRes ⟨rf, g, p⟩ (final p)))).vol.lookup ⟨rf, g, p⟩ = some (final p)) ∧
    (∀ k, (∀ p ∈ b, k ≠ (⟨rf, g, p⟩ : Key)) →
      (run w (b.map (fun p => Ev.writeRes ⟨rf, g, p⟩ (final p)))).vol.lookup k = w.vol.lookup k) := by
  induction b generalizing w with
  | nil => simp [run]
  | cons q b ih =>
    simp only [List.map_cons, run, List.foldl_cons]
    have h := ih (step w (Ev.writeRes ⟨rf, g, q⟩ (final q)))
    simp only [run] at h
    obtain ⟨h1, h2, h3, h4⟩ := h
    refine ⟨by rw [h1]; rfl, by rw [h2]; rfl, ?_, ?_⟩
    · intro p hp
      by_cases hpb : p ∈ b
      · exact h3 p hpb
      · have hpq : p = q := by
          rcases List.mem_cons.mp hp with h | h
          · exact h
          · exact absurd h hpb
        subst hpq
        rw [h4 _ (by intro p' hp' heq; injection heq with _ _ h; subst h; exact hpb hp')]
        simp only [step]; rw [lookup_cons]; simp
    · intro k hk
      rw [h4 k (fun p hp => hk p (List.mem_cons_of_mem _ hp))]
      simp only [step]; rw [lookup_cons]
      have := hk q (List.mem_cons_self)
      simp [Ne.symm this]

theorem wf_writes (final : Nat → Int) (rf g : Nat) (b : List Nat) (w : World) :
    wfFrom final w (b.map (fun p => Ev.writeRes ⟨rf, g, p⟩ (final p))) = true := by
  induction b generalizing w with
  | nil => rfl
  | cons q b ih => simp [wfFrom, ih]

theorem run_marks (rf g : Nat) (b : List Nat) (w : World) :
    (run w (b.map (fun p => Ev.mark ⟨rf, g, p⟩))).vol.stored = w.vol.stored ∧
    (run w (b.map (fun p => Ev.mark ⟨rf, g, p⟩))).dur = w.dur := by
  induction b generalizing w with
  | nil => simp [run]
  | cons q b ih =>
    simp only [List.map_cons, run, List.foldl_cons]
    have h := ih (step w (Ev.mark ⟨rf, g, q⟩))
    simp only [run] at h
    exact ⟨by rw [h.1]; rfl, by rw [h.2]; rfl⟩

theorem wf_marks (final : Nat → Int) (rf g : Nat) (b : List Nat) (w : World)
    (h : ∀ p ∈ b, w.vol.lookup ⟨rf, g, p⟩ = some (final p)) :
    wfFrom final w (b.map (fun p => Ev.mark ⟨rf, g, p⟩)) = true := by
  induction b generalizing w with
  | nil => rfl
  | cons q b ih =>
    simp only [List.map_cons, wfFrom, Bool.and_eq_true, beq_iff_eq]
    refine ⟨h q List.mem_cons_self, ih _ ?_⟩
    intro p hp
    have : (step w (Ev.mark ⟨rf, g, q⟩)).vol.lookup ⟨rf, g, p⟩ = w.vol.lookup ⟨rf, g, p⟩ := rfl
    rw [this]; exact h p (List.mem_cons_of_mem _ hp)

theorem run_flushes_vol (fls : List Nat) (w : World) : (run w (fls.map Ev.flush)).vol = w.vol := by
  induction fls generalizing w with
  | nil => rfl
  | cons f fls ih => simp only [List.map_cons, run, List.foldl_cons]; exact ih _

theorem wf_flushes (final : Nat → Int) (fls : List Nat) (w : World) :
    wfFrom final w (fls.map Ev.flush) = true := by
  induction fls generalizing w with
  | nil => rfl
  | cons f fls ih => simp only [List.map_cons, wfFrom]; exact ih _

theorem wf_batchTrace (final : Nat → Int) (rf g : Nat) (fl : List Nat) (b : List Nat) (w : World) :
    wfFrom final w (batchTrace final rf g fl b) = true := by
  unfold batchTrace
  rw [wf_append, wf_append, wf_writes]
  simp only [Bool.true_and, Bool.and_eq_true]
  refine ⟨by simp only [wfFrom]; exact wf_flushes _ _ _, ?_⟩
  apply wf_marks
  intro p hp
  rw [run_append]
  have hw := run_writes_vol final rf g b w
  have : (run (run w (b.map (fun p => Ev.writeRes ⟨rf, g, p⟩ (final p)))) (Ev.other :: fl.map Ev.flush)).vol
      = (run w (b.map (fun p => Ev.writeRes ⟨rf, g, p⟩ (final p)))).vol := by
    simp only [run, List.foldl_cons, step]
    exact run_flushes_vol fl _
  rw [this]
  exact hw.2.2.1 p hp

theorem wf_computeTrace (final : Nat → Int) (rf g : Nat) (fl : List Nat) (bs : List (List Nat)) (w : World) :
    wfFrom final w (computeTrace final rf g fl bs) = true := by
  induction bs generalizing w with
  | nil => rfl
  | cons b bs ih =>
    simp only [computeTrace, List.flatMap_cons] at ih ⊢
    rw [wf_append, wf_batchTrace, ih]; rfl

/-! ### the stronger acceptance: a mark only after its result is durable -/

theorem strong_append (final : Nat → Int) : ∀ (t1 t2 : List Ev) (w : World),
    wfStrongFrom final w (t1 ++ t2) = (wfStrongFrom final w t1 && wfStrongFrom final (run w t1) t2) := by
  intro t1
  induction t1 with
  | nil => intro t2 w; simp [wfStrongFrom, run]
  | cons e t ih =>
    intro t2 w
    cases e with
    | mark k => simp only [List.cons_append, wfStrongFrom, run, List.foldl_cons, ih, Bool.and_assoc]
    | writeRes k v => simp only [List.cons_append, wfStrongFrom, run, List.foldl_cons, ih, Bool.and_assoc]
    | flush f => simp only [List.cons_append, wfStrongFrom, run, List.foldl_cons, ih]
    | other => simp only [List.cons_append, wfStrongFrom, run, List.foldl_cons, ih]

theorem strong_writes (final : Nat → Int) (rf g : Nat) (b : List Nat) (w : World) :
    wfStrongFrom final w (b.map (fun p => Ev.writeRes ⟨rf, g, p⟩ (final p))) = true := by
  induction b generalizing w with
  | nil => rfl
  | cons q b ih => simp [wfStrongFrom, ih]

theorem strong_flushes (final : Nat → Int) (fls : List Nat) (w : World) :
    wfStrongFrom final w (fls.map Ev.flush) = true := by
  induction fls generalizing w with
  | nil => rfl
  | cons f fls ih => simp only [List.map_cons, wfStrongFrom]; exact ih _

/-- once the file of `k` has been flushed, the durable copy of `k` equals the volatile one, and further
    flushes (of any file) keep it so -/
theorem flushes_dur_lookup (k : Key) : ∀ (fls : List Nat) (w : World),
    (k.file ∈ fls ∨ w.dur.lookup k = w.vol.lookup k) →
    (run w (fls.map Ev.flush)).dur.lookup k = w.vol.lookup k
  | [], w, h => by
    rcases h with h | h
    · cases h
    · simpa [run] using h
  | f :: fls, w, h => by
    simp only [List.map_cons, run, List.foldl_cons]
    have hvol : (step w (Ev.flush f)).vol = w.vol := rfl
    have := flushes_dur_lookup k fls (step w (Ev.flush f)) (by
      by_cases hf : k.file = f
      · right
        show (flushFile f w).lookup k = w.vol.lookup k
        rw [lookup_flush]; simp [hf]
      · rcases h with h | h
        · left
          rcases List.mem_cons.mp h with h | h
          · exact absurd h hf
          · exact h
        · right
          show (flushFile f w).lookup k = w.vol.lookup k
          rw [lookup_flush]; simp [hf, h])
    simp only [run] at this
    rw [this, hvol]

theorem strong_marks (final : Nat → Int) (rf g : Nat) (b : List Nat) (w : World)
    (hv : ∀ p ∈ b, w.vol.lookup ⟨rf, g, p⟩ = some (final p))
    (hd : ∀ p ∈ b, w.dur.lookup ⟨rf, g, p⟩ = some (final p)) :
    wfStrongFrom final w (b.map (fun p => Ev.mark ⟨rf, g, p⟩)) = true := by
  induction b generalizing w with
  | nil => rfl
  | cons q b ih =>
    simp only [List.map_cons, wfStrongFrom, Bool.and_eq_true, beq_iff_eq]
    refine ⟨⟨hd q List.mem_cons_self, hv q List.mem_cons_self⟩, ih _ ?_ ?_⟩
    · intro p hp
      have : (step w (Ev.mark ⟨rf, g, q⟩)).vol.lookup ⟨rf, g, p⟩ = w.vol.lookup ⟨rf, g, p⟩ := rfl
      rw [this]; exact hv p (List.mem_cons_of_mem _ hp)
    · intro p hp
      have : (step w (Ev.mark ⟨rf, g, q⟩)).dur.lookup ⟨rf, g, p⟩ = w.dur.lookup ⟨rf, g, p⟩ := rfl
      rw [this]; exact hd p (List.mem_cons_of_mem _ hp)

theorem strong_batchTrace (final : Nat → Int) (rf g : Nat) (fl : List Nat) (hrf : rf ∈ fl) (b : List Nat) (w : World) :
    wfStrongFrom final w (batchTrace final rf g fl b) = true := by
  unfold batchTrace
  rw [strong_append, strong_append, strong_writes]
  simp only [Bool.true_and, Bool.and_eq_true]
  refine ⟨by simp only [wfStrongFrom]; exact strong_flushes _ _ _, ?_⟩
  have hw := run_writes_vol final rf g b w
  have hvol : (run (run w (b.map (fun p => Ev.writeRes ⟨rf, g, p⟩ (final p)))) (Ev.other :: fl.map Ev.flush)).vol
      = (run w (b.map (fun p => Ev.writeRes ⟨rf, g, p⟩ (final p)))).vol := by
    simp only [run, List.foldl_cons, step]
    exact run_flushes_vol fl _
  apply strong_marks
  · intro p hp
    rw [run_append, hvol]
    exact hw.2.2.1 p hp
  · intro p hp
    rw [run_append]
    have : run (run w (b.map (fun p => Ev.writeRes ⟨rf, g, p⟩ (final p)))) (Ev.other :: fl.map Ev.flush) =
        run (run w (b.map (fun p => Ev.writeRes ⟨rf, g, p⟩ (final p)))) (fl.map Ev.flush) := by
      simp only [run, List.foldl_cons, step]
    rw [this, flushes_dur_lookup ⟨rf, g, p⟩ fl _ (Or.inl hrf)]
    exact hw.2.2.1 p hp

theorem strong_computeTrace (final : Nat → Int) (rf g : Nat) (fl : List Nat) (hrf : rf ∈ fl) (bs : List (List Nat))
    (w : World) : wfStrongFrom final w (computeTrace final rf g fl bs) = true := by
  induction bs generalizing w with
  | nil => rfl
  | cons b bs ih =>
    simp only [computeTrace, List.flatMap_cons] at ih ⊢
    rw [strong_append, strong_batchTrace final rf g fl hrf, ih]; rfl

/-- with a separate results file that is never flushed, nothing of it ever becomes durable -/
theorem dur_untouched (final : Nat → Int) (rf g : Nat) (fl : List Nat) (hne : rf ∉ fl) (bs : List (List Nat)) (w : World)
    (h0 : ∀ k ∈ w.dur.marked, k.file ≠ rf) (hv : ∀ k ∈ w.vol.marked, k.file = rf) :
    ∀ k ∈ (run w (computeTrace final rf g fl bs)).dur.marked, k.file ≠ rf := by
  -- general statement over any trace whose flushes are all of `fl` and whose marks are all in `rf`
  have key : ∀ (t : List Ev) (w : World), (∀ e ∈ t, (∀ f, e = Ev.flush f → f ∈ fl) ∧ (∀ k, e = Ev.mark k → k.file = rf)) →
      (∀ k ∈ w.dur.marked, k.file ≠ rf) → (∀ k ∈ w.vol.marked, k.file = rf) →
      ∀ k ∈ (run w t).dur.marked, k.file ≠ rf := by
    intro t
    induction t with
    | nil => intro w _ h0 _; simpa [run] using h0
    | cons e t ih =>
      intro w he h0 hv
      simp only [run, List.foldl_cons]
      apply ih _ (fun e' he' => he e' (List.mem_cons_of_mem _ he'))
      · have hee := he e List.mem_cons_self
        cases e with
        | flush f =>
          have hfl : f ∈ fl := hee.1 f rfl
          intro k hk
          simp only [step] at hk
          have := (mem_flush_marked f w k).mp hk
          by_cases hf : k.file = f
          · intro hrf; exact hne (by rw [← hrf, hf]; exact hfl)
          · simp only [hf, if_false] at this; exact h0 k this
        | writeRes k v => simpa [step] using h0
        | mark k => simpa [step] using h0
        | other => simpa [step] using h0
      · have hee := he e List.mem_cons_self
        cases e with
        | mark k =>
          intro k' hk'
          simp only [step, List.mem_cons] at hk'
          rcases hk' with rfl | hk'
          · exact hee.2 _ rfl
          · exact hv k' hk'
        | flush f => simpa [step] using hv
        | writeRes k v => simpa [step] using hv
        | other => simpa [step] using hv
  apply key _ w _ h0 hv
  intro e he
  simp only [computeTrace, List.mem_flatMap] at he
  obtain ⟨b, _, heb⟩ := he
  simp only [batchTrace, List.mem_append, List.mem_map, List.mem_cons] at heb
  constructor
  · intro f hf
    rcases heb with (⟨p, _, hp⟩ | (h | ⟨f', hf', h⟩)) | ⟨p, _, hp⟩
    · rw [hf] at hp; cases hp
    · rw [hf] at h; cases h
    · rw [hf] at h; injection h with h; rw [← h]; exact hf'
    · rw [hf] at hp; cases hp
  · intro k hk
    rcases heb with (⟨p, _, hp⟩ | (h | ⟨f', hf', h⟩)) | ⟨p, _, hp⟩
    · rw [hk] at hp; cases hp
    · rw [hk] at h; cases h
    · rw [hk] at h; cases h
    · rw [hk] at hp; injection hp with hp; rw [← hp]

theorem marks_in_vol (final : Nat → Int) (rf g : Nat) (fl : List Nat) (bs : List (List Nat)) (w : World)
    (p : Nat) (hp : p ∈ bs.flatten) : (⟨rf, g, p⟩ : Key) ∈ (run w (computeTrace final rf g fl bs)).vol.marked := by
  induction bs generalizing w with
  | nil => simp at hp
  | cons b bs ih =>
    simp only [computeTrace, List.flatMap_cons] at ih ⊢
    rw [run_append]
    simp only [List.flatten_cons, List.mem_append] at hp
    rcases hp with hp | hp
    · apply vol_marked_mono_run
      unfold batchTrace
      rw [run_append]
      -- the marks of this batch
      generalize (run w (b.map (fun p => Ev.writeRes ⟨rf, g, p⟩ (final p)) ++ (Ev.other :: fl.map Ev.flush))) = w'
      clear ih
      induction b generalizing w' with
      | nil => simp at hp
      | cons q b ihb =>
        simp only [List.map_cons, run, List.foldl_cons]
        rcases List.mem_cons.mp hp with rfl | hp
        · have := vol_marked_mono_run (b.map (fun p => Ev.mark ⟨rf, g, p⟩)) (step w' (Ev.mark ⟨rf, g, p⟩)) ⟨rf, g, p⟩
            (by simp [step])
          simpa [run] using this
        · have := ihb hp (step w' (Ev.mark ⟨rf, g, q⟩))
          simpa [run] using this
    · exact ih _ hp

/-! ### keys touched by a trace -/

def AllKeys (P : Key → Prop) (s : St) : Prop := (∀ k ∈ s.marked, P k) ∧ (∀ e ∈ s.stored, P e.1)

def evKeys (P : Key → Prop) : Ev → Prop
  | .writeRes k _ => P k
  | .mark k => P k
  | _ => True

theorem allKeys_step (P : Key → Prop) (w : World) (e : Ev) (hv : AllKeys P w.vol) (hd : AllKeys P w.dur)
    (he : evKeys P e) : AllKeys P (step w e).vol ∧ AllKeys P (step w e).dur := by
  cases e with
  | writeRes k v =>
    refine ⟨⟨hv.1, ?_⟩, hd⟩
    intro e he'
    simp only [step, List.mem_cons] at he'
    rcases he' with rfl | he'
    · exact he
    · exact hv.2 e he'
  | mark k =>
    refine ⟨⟨?_, hv.2⟩, hd⟩
    intro k' hk'
    simp only [step, List.mem_cons] at hk'
    rcases hk' with rfl | hk'
    · exact he
    · exact hv.1 k' hk'
  | flush f =>
    refine ⟨hv, ?_, ?_⟩
    · intro k hk
      simp only [step, flushFile, List.mem_append, List.mem_filter] at hk
      rcases hk with ⟨h, _⟩ | ⟨h, _⟩
      · exact hv.1 k h
      · exact hd.1 k h
    · intro e he'
      simp only [step, flushFile, List.mem_append, List.mem_filter] at he'
      rcases he' with ⟨h, _⟩ | ⟨h, _⟩
      · exact hv.2 e h
      · exact hd.2 e h
  | other => exact ⟨hv, hd⟩

theorem allKeys_run (P : Key → Prop) (t : List Ev) (w : World) (hv : AllKeys P w.vol) (hd : AllKeys P w.dur)
    (ht : ∀ e ∈ t, evKeys P e) : AllKeys P (run w t).vol ∧ AllKeys P (run w t).dur := by
  induction t generalizing w with
  | nil => exact ⟨hv, hd⟩
  | cons e t ih =>
    simp only [run, List.foldl_cons]
    have := allKeys_step P w e hv hd (ht e List.mem_cons_self)
    exact ih _ this.1 this.2 (fun e' he' => ht e' (List.mem_cons_of_mem _ he'))

theorem computeTrace_keys (final : Nat → Int) (rf g : Nat) (fl : List Nat) (bs : List (List Nat)) (P : Key → Prop)
    (h : ∀ b ∈ bs, ∀ p ∈ b, P ⟨rf, g, p⟩) : ∀ e ∈ computeTrace final rf g fl bs, evKeys P e := by
  intro e he
  simp only [computeTrace, List.mem_flatMap] at he
  obtain ⟨b, hb, heb⟩ := he
  simp only [batchTrace, List.mem_append, List.mem_map, List.mem_cons] at heb
  rcases heb with (⟨p, hp, rfl⟩ | (rfl | ⟨f, _, rfl⟩)) | ⟨p, hp, rfl⟩
  · exact h b hb p hp
  · trivial
  · trivial
  · exact h b hb p hp

/-- a consistent file state that only touched pending positions of `(file, grp)` projects to a `Good` state -/
theorem survivor_good (final : Nat → Int) (s0 : DS Int) (st : St) (file grp : Nat)
    (hlen : s0.results.length = s0.status.length)
    (hc : Consistent final st)
    (hk : AllKeys (fun k => k.file = file → k.grp = grp → s0.status[k.pos]? = some 0) st) :
    Good final s0 (project s0 st file grp) := by
  refine ⟨by simp [project], by simp [project], ?_⟩
  intro p hp
  have hpr : p < s0.results.length := by omega
  by_cases hm : (⟨file, grp, p⟩ : Key) ∈ st.marked
  · right
    have h0 := hk.1 _ hm rfl rfl
    have hl := hc _ hm
    refine ⟨h0, ?_, ?_⟩
    · simp [project, hp, hm]
    · simp only [project]
      rw [List.getElem?_map, List.getElem?_range hpr]
      simp [hl]
  · left
    constructor
    · simp only [project]
      rw [List.getElem?_map, List.getElem?_range hp]
      simp [hm, List.getElem?_eq_getElem hp]
    · intro hne
      have hnone : st.lookup ⟨file, grp, p⟩ = none := by
        unfold St.lookup
        rw [Option.map_eq_none_iff, List.find?_eq_none]
        intro e he heq
        simp only [decide_eq_true_eq] at heq
        have := hk.2 e he (by rw [heq]) (by rw [heq])
        rw [heq] at this
        exact hne this
      simp only [project]
      rw [List.getElem?_map, List.getElem?_range hpr]
      simp [hnone, List.getElem?_eq_getElem hpr]

end Usid.Crash
