import Usid.Model.UnitValues
import Usid.Basic.Grid
/-! Lemmas tying `get_sort_order` / `get_dimensionality` to regular grids (C09, C01). -/
namespace Usid.Dims
open Usid Usid.Grid

/-! ### distinct counts -/

theorem nodup_eraseDups : ∀ (n : Nat) (l : List Nat), l.length ≤ n → l.eraseDups.Nodup
  | 0, l, h => by
    have : l = [] := List.length_eq_zero_iff.mp (by omega)
    subst this; simp
  | n + 1, [], _ => by simp
  | n + 1, a :: as, h => by
    rw [List.eraseDups_cons, List.nodup_cons]
    constructor
    · intro hm
      rw [List.mem_eraseDups] at hm
      have := (List.mem_filter.mp hm).2
      simp at this
    · apply nodup_eraseDups n
      have := List.length_filter_le (fun b => !b == a) as
      simp at h; omega

theorem distinctCount_eq (l : List Nat) (s : Nat) (h1 : ∀ x ∈ l, x < s) (h2 : ∀ i, i < s → i ∈ l) :
    distinctCount l = s := by
  unfold distinctCount
  have hnd := nodup_eraseDups l.length l (Nat.le_refl _)
  have hperm : l.eraseDups.Perm (List.range s) := by
    rw [List.perm_ext_iff_of_nodup hnd List.nodup_range]
    intro a
    rw [List.mem_eraseDups, List.mem_range]
    exact ⟨h1 a, h2 a⟩
  rw [hperm.length_eq, List.length_range]

/-- number of distinct indices in the row of dimension `d` of a regular grid = its size -/
theorem distinct_gridRow (sz : Nat → Nat) (pre post : List Nat) (d : Nat) (hd : d ∉ pre)
    (hpos : ∀ e ∈ pre ++ d :: post, 1 ≤ sz e) :
    distinctCount (gridRow sz (pre ++ d :: post) d) = sz d := by
  have ht : 0 < (pre.map sz).prod := prod_pos sz pre (fun e he => hpos e (List.mem_append_left _ he))
  have hu : 0 < (post.map sz).prod :=
    prod_pos sz post (fun e he => hpos e (List.mem_append_right _ (List.mem_cons_of_mem _ he)))
  have hs : 0 < sz d := hpos d (List.mem_append_right _ List.mem_cons_self)
  apply distinctCount_eq
  · intro x hx
    unfold gridRow at hx
    obtain ⟨r, _, rfl⟩ := List.mem_map.mp hx
    unfold gridIdx
    exact Nat.mod_lt _ hs
  · intro i hi
    unfold gridRow
    refine List.mem_map.mpr ⟨i * (pre.map sz).prod, ?_, ?_⟩
    · rw [List.mem_range, npoints_split]
      calc i * (pre.map sz).prod < sz d * (pre.map sz).prod := Nat.mul_lt_mul_of_pos_right hi ht
        _ = (pre.map sz).prod * sz d * 1 := by rw [Nat.mul_comm, Nat.mul_one]
        _ ≤ (pre.map sz).prod * sz d * (post.map sz).prod := Nat.mul_le_mul_left _ hu
    · unfold gridIdx
      rw [stride_split sz pre post d hd, Nat.mul_div_cancel _ ht, Nat.mod_eq_of_lt hi]

/-! ### the sort order -/

theorem argsortRev_perm (counts : List Nat) : (argsortRev counts).Perm (List.range counts.length) := by
  unfold argsortRev
  have h1 := List.mergeSort_perm ((List.range counts.length).map (fun i => (counts.getD i 0, i)))
    (fun a b => decide (a.1 ≤ b.1))
  have h2 := (List.reverse_perm _).trans h1
  have h3 := h2.map (fun p : Nat × Nat => p.2)
  simp only [List.map_map, Function.comp_def, List.map_id'] at h3
  exact h3

/-- along the computed order the change counts never increase -/
theorem argsortRev_sorted (counts : List Nat) :
    (argsortRev counts).Pairwise (fun a b => counts.getD b 0 ≤ counts.getD a 0) := by
  unfold argsortRev
  have hsorted := List.pairwise_mergeSort (le := fun (a b : Nat × Nat) => decide (a.1 ≤ b.1))
    (fun a b c h1 h2 => by simp at h1 h2 ⊢; omega)
    (fun a b => by simp; omega)
    ((List.range counts.length).map (fun i => (counts.getD i 0, i)))
  have hmem : ∀ p ∈ ((List.range counts.length).map (fun i => (counts.getD i 0, i))).mergeSort
      (fun a b => decide (a.1 ≤ b.1)), p.1 = counts.getD p.2 0 := by
    intro p hp
    rw [List.mem_mergeSort] at hp
    obtain ⟨i, _, rfl⟩ := List.mem_map.mp hp
    rfl
  rw [List.pairwise_map, List.pairwise_reverse]
  apply List.Pairwise.imp_of_mem _ hsorted
  intro a b ha hb hab
  simp only [decide_eq_true_eq] at hab
  rw [← hmem a ha, ← hmem b hb]; exact hab

end Usid.Dims
