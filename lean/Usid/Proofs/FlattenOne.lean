import Usid.Proofs.Reshape
import Usid.Properties.C08
/-! One-sided flattening (C10): the index matrix the code builds for the missing side is a regular grid whose
    first dimension varies fastest, and its sort order is the identity. -/
namespace Usid.Reshape
open Usid Usid.Grid Usid.Dims Usid.C09 Usid.Anc

theorem length_tile {α : Type} (l : List α) : ∀ (n : Nat), (tile l n).length = l.length * n
  | 0 => by simp [tile]
  | n + 1 => by
    have ht : tile l (n + 1) = l ++ tile l n := by simp [tile, List.replicate_succ]
    rw [ht, List.length_append, length_tile l n, Nat.mul_succ, Nat.add_comm]

theorem takeWhile_range (k d : Nat) (hd : d < k) : (List.range k).takeWhile (fun e => e != d) = List.range d := by
  obtain ⟨m, rfl⟩ := Nat.exists_eq_add_of_lt hd
  have e : List.range (d + m + 1) = List.range d ++ d :: (List.range m).map (fun x => d + (x + 1)) := by
    rw [show d + m + 1 = d + (m + 1) by omega, List.range_add, List.range_succ_eq_map]
    simp [List.map_map, Function.comp_def]
  rw [e]
  exact takeWhile_split _ _ d (by simp)

theorem stride_range (sS : List Nat) (d : Nat) (hd : d < sS.length) :
    strideBefore (sizeFn sS) (List.range sS.length) d = (sS.take d).prod := by
  unfold strideBefore
  rw [takeWhile_range _ d hd]
  congr 1
  apply List.ext_getElem
  · simp; omega
  · intro i h1 h2
    have hi : i < d := by simpa using h1
    simp [sizeFn, List.getD_eq_getElem?_getD, List.getElem?_eq_getElem (by omega : i < sS.length)]

/-- `make_indices_matrix(steps)` with every step >= 2 is the regular grid whose FIRST dimension varies fastest -/
theorem makeIndices_eq_grid (sS : List Nat) (hne : sS ≠ []) (hall : ∀ s ∈ sS, 2 ≤ s) :
    makeIndicesMatrix sS = .ok (gridMatrix sS (List.range sS.length)) := by
  have h1 : sS ≠ [1] := by intro h; rw [h] at hall; have := hall 1 (by simp); omega
  have h2 : sS.any (· < 2) = false := by
    rw [List.any_eq_false]; intro s hs; have := hall s hs; simp; omega
  unfold makeIndicesMatrix gridMatrix
  simp only [hne, h1, h2, if_false, Bool.false_eq_true]
  congr 1
  apply List.map_congr_left
  intro i hi
  have hik : i < sS.length := List.mem_range.mp hi
  have hpos : ∀ x ∈ sS, 0 < x := fun x hx => by have := hall x hx; omega
  have hp2 : 0 < (sS.take i).prod := Usid.Anc.prod_pos_of_pos _ (fun x hx => hpos x ((List.take_sublist _ _).subset hx))
  have hsplit := Usid.Anc.prod_split sS i hik
  have e1 : (sS.take (i + 1)).prod = (sS.take i).prod * sS[i] := by
    rw [List.take_succ_eq_append_getElem hik, List.prod_append]; simp
  have hN : npoints (sizeFn sS) (List.range sS.length) = sS.prod := by
    unfold npoints; conv => rhs; rw [sizes_eq_map sS]
  unfold gridRow
  rw [hN]
  apply List.ext_getElem?
  intro c
  by_cases hc : c < sS.prod
  · have hlen : ((List.range (sS.take (i + 1)).prod).map (· / (sS.take i).prod)).length = (sS.take i).prod * sS[i] := by
      simp [e1]
    rw [getElem?_tile _ _ _ (by rw [hlen, ← hsplit]; exact hc), hlen, List.getElem?_map,
      List.getElem?_range (by rw [e1]; exact Nat.mod_lt _ (Nat.mul_pos hp2 (hpos _ (List.getElem_mem hik)))),
      List.getElem?_map, List.getElem?_range hc]
    simp only [Option.map_some, gridIdx]
    congr 1
    rw [stride_range sS i hik, Nat.mod_mul_right_div_self]
    simp [sizeFn, List.getD_eq_getElem?_getD, List.getElem?_eq_getElem hik]
  · have hl1 : (tile ((List.range (sS.take (i + 1)).prod).map (· / (sS.take i).prod)) (sS.drop (i + 1)).prod).length = sS.prod := by
      rw [length_tile, List.length_map, List.length_range, e1, ← hsplit]
    rw [List.getElem?_eq_none (by rw [hl1]; omega), List.getElem?_eq_none (by simp; omega)]

end Usid.Reshape

namespace Usid.Reshape
open Usid Usid.Grid Usid.Dims Usid.C09 Usid.Translate

variable {α : Type} [Inhabited α]

theorem len_le_prod : ∀ (l : List Nat), (∀ x ∈ l, 2 ≤ x) → l.length ≤ l.prod ∧ 1 ≤ l.prod
  | [], _ => by simp
  | x :: xs, h => by
    obtain ⟨h1, h2⟩ := len_le_prod xs (fun y hy => h y (List.mem_cons_of_mem _ hy))
    have hx := h x (by simp)
    simp only [List.length_cons, List.prod_cons]
    have : 2 * xs.prod ≤ x * xs.prod := Nat.mul_le_mul_right _ hx
    omega

/-- the sort order of the index matrix built for a missing side is the identity: its first dimension is the
    fastest, and there are no ties because every size is >= 2 -/
theorem sortOrder_identity (sS : List Nat) (hall : ∀ s ∈ sS, 2 ≤ s) :
    getSortOrder (gridMatrix sS (List.range sS.length)) = List.range sS.length := by
  have hv : ValidGrid sS (List.range sS.length) := ⟨List.Perm.refl _, fun s hs => by have := hall s hs; omega⟩
  have hk : sS.length ≤ npoints (sizeFn sS) (List.range sS.length) := by
    have : npoints (sizeFn sS) (List.range sS.length) = sS.prod := by
      unfold npoints; conv => rhs; rw [sizes_eq_map sS]
    rw [this]; exact (len_le_prod sS hall).1
  obtain ⟨hperm, _, hfilt⟩ := order_is_rate sS (List.range sS.length) hv hk
  have hbig : ∀ d, d < sS.length → decide (1 < sizeFn sS d) = true := by
    intro d hd
    have : sizeFn sS d = sS[d] := by simp [sizeFn, List.getD_eq_getElem?_getD, List.getElem?_eq_getElem hd]
    rw [this]; have := hall _ (List.getElem_mem hd); simp; omega
  rw [List.filter_eq_self.mpr (fun d hd => hbig d (List.mem_range.mp (hperm.subset hd))),
      List.filter_eq_self.mpr (fun d hd => hbig d (List.mem_range.mp hd))] at hfilt
  exact hfilt

/-- **Core of every flattening.**  Transposing an N-D array of the file-order shape `pS ++ sS` by the
    slowest-first arrangement built from the position sort order and ANY arrangement `ordS` of the
    spectroscopic axes, and reshaping to N x M, puts the element at (position indices of row r ++ idxS) at
    row r and at the column obtained by ravelling `idxS` along `ordS`. -/
theorem transpose_reshape_core (nd : NDArr α) (pS pR sS ordS : List Nat)
    (hP : ValidGrid pS pR) (hkP : pS.length ≤ npoints (sizeFn pS) pR)
    (hordS : ordS.Perm (List.range sS.length)) (hshape : nd.shape = pS ++ sS) :
    let ordP := getSortOrder (gridMatrix pS pR)
    let sigma := sigmaOf pS.length ordP ordS
    let T := nd.transpose sigma (inversePerm (pS.length + sS.length) sigma)
    transposeND nd sigma = .ok T ∧
    T.shape = ordP.reverse.map (sizeFn pS) ++ ordS.reverse.map (fun d => sS.getD d 1) ∧
    T.flat.length = npoints (sizeFn pS) pR * sS.prod ∧
    ∀ r idxS, r < npoints (sizeFn pS) pR → InBounds sS idxS →
      (T.reshape [npoints (sizeFn pS) pR, sS.prod]).get
          [r, ravelC (ordS.reverse.map (fun d => sS.getD d 1)) (ordS.reverse.map (fun d => idxS.getD d 0))] =
        nd.get (coords pS pR r (List.range pS.length) ++ idxS) := by
  intro ordP sigma T
  have hpermP0 := (order_is_rate pS pR hP hkP).1
  have hpermP := hpermP0.trans hP.1
  have hsig : sigma.Perm (List.range (pS.length + sS.length)) := sigma_perm pS.length sS.length _ _ hpermP hordS
  obtain ⟨_, hslen, hslt, hsmem⟩ := perm_facts _ sigma hsig
  have hklen : nd.shape.length = pS.length + sS.length := by rw [hshape]; simp
  have hltP : ∀ d ∈ ordP, d < pS.length := fun d hd => List.mem_range.mp (hpermP.subset hd)
  have hprodP : (ordP.map (sizeFn pS)).prod = npoints (sizeFn pS) pR := (hpermP0.map _).prod_nat
  have hprodS : (ordS.map (fun d => sS.getD d 1)).prod = sS.prod := by
    have := (hordS.map (fun d => sS.getD d 1)).prod_nat
    rw [this]
    conv => rhs; rw [sizes_eq_map sS]
    rfl
  have htr : transposeND nd sigma = .ok T := by
    unfold transposeND
    rw [hklen]
    have c1 : (sigma.length != pS.length + sS.length) = false := by rw [hslen]; simp
    have c2 : (List.range (pS.length + sS.length)).all (fun ax => sigma.contains ax) = true := by
      rw [List.all_eq_true]; intro ax hax
      simpa using hsmem ax (List.mem_range.mp hax)
    simp only [c1, c2, Bool.not_true, Bool.or_self, Bool.false_eq_true, if_false]
    rfl
  have hshT : T.shape = ordP.reverse.map (sizeFn pS) ++ ordS.reverse.map (fun d => sS.getD d 1) := by
    show sigma.map (fun ax => nd.shape.getD ax 1) = _
    rw [hshape, sigma_map pS.length _ _ pS sS 1 rfl hltP]; rfl
  have hflatT : T.flat.length = npoints (sizeFn pS) pR * sS.prod := by
    have : T.flat.length = T.shape.prod := by simp [T, NDArr.transpose]
    rw [this, hshT, List.prod_append, List.map_reverse, List.map_reverse, (List.reverse_perm _).prod_nat,
      (List.reverse_perm _).prod_nat, hprodP, hprodS]
  refine ⟨htr, hshT, hflatT, ?_⟩
  intro r idxS hr hbS
  have hlenS : sS.length = idxS.length := inBounds_length sS idxS hbS
  have hb : InBounds nd.shape (coords pS pR r (List.range pS.length) ++ idxS) := by
    rw [hshape]
    exact inBounds_append _ _ _ _ (coords_inBounds pS pR hP r) hbS
  have hb2 := inBounds_map nd.shape _ hb sigma (fun i hi => by rw [hklen]; exact hslt i hi)
  have hfl : (coords pS pR r (List.range pS.length) ++ idxS).length = pS.length + sS.length := by
    simp [coords, hlenS]
  have hg := gather_inverse (coords pS pR r (List.range pS.length) ++ idxS) sigma
    (fun i hi => hsmem i (by rw [← hfl]; exact hi))
  rw [hfl] at hg
  have ht := transpose_get nd sigma (inversePerm (pS.length + sS.length) sigma) _ hb2
  rw [hg] at ht
  rw [← ht, reshape_get]
  unfold NDArr.get
  congr 1
  rw [hshT]
  have hsc := sigma_map pS.length ordP ordS (coords pS pR r (List.range pS.length)) idxS 0 (by simp [coords]) hltP
  rw [hsc, ravelC_append _ _ _ _ (by simp)]
  have e1 := ravel_sorted_coords pS pR hP hkP r hr
  have c1 : ordP.reverse.map (fun d => (coords pS pR r (List.range pS.length)).getD d 0) =
      ordP.reverse.map (fun d => gridIdx (sizeFn pS) pR r d) := by
    apply List.map_congr_left
    intro d hd
    have hdk := hltP d (List.mem_reverse.mp hd)
    simp [coords, List.getD_eq_getElem?_getD, List.getElem?_map, List.getElem?_range hdk]
  rw [c1, e1, List.map_reverse (l := ordS), (List.reverse_perm _).prod_nat, hprodS]
  simp [ravelC, List.map_reverse]

end Usid.Reshape

namespace Usid.Reshape
open Usid Usid.Grid Usid.Dims Usid.C09 Usid.Translate

variable {α : Type} [Inhabited α]

/-- the mirror image of `transpose_reshape_core`: ANY arrangement of the position axes, the spectroscopic
    side arranged by its sort order -/
theorem transpose_reshape_core_spec (nd : NDArr α) (pS ordP sS sR : List Nat)
    (hS : ValidGrid sS sR) (hkS : sS.length ≤ npoints (sizeFn sS) sR)
    (hordP : ordP.Perm (List.range pS.length)) (hshape : nd.shape = pS ++ sS) :
    let ordS := getSortOrder (gridMatrix sS sR)
    let sigma := sigmaOf pS.length ordP ordS
    let T := nd.transpose sigma (inversePerm (pS.length + sS.length) sigma)
    transposeND nd sigma = .ok T ∧
    T.flat.length = pS.prod * npoints (sizeFn sS) sR ∧
    ∀ c idxP, c < npoints (sizeFn sS) sR → InBounds pS idxP →
      (T.reshape [pS.prod, npoints (sizeFn sS) sR]).get
          [ravelC (ordP.reverse.map (fun d => pS.getD d 1)) (ordP.reverse.map (fun d => idxP.getD d 0)), c] =
        nd.get (idxP ++ coords sS sR c (List.range sS.length)) := by
  intro ordS sigma T
  have hpermS0 := (order_is_rate sS sR hS hkS).1
  have hpermS := hpermS0.trans hS.1
  have hsig : sigma.Perm (List.range (pS.length + sS.length)) := sigma_perm pS.length sS.length _ _ hordP hpermS
  obtain ⟨_, hslen, hslt, hsmem⟩ := perm_facts _ sigma hsig
  have hklen : nd.shape.length = pS.length + sS.length := by rw [hshape]; simp
  have hltP : ∀ d ∈ ordP, d < pS.length := fun d hd => List.mem_range.mp (hordP.subset hd)
  have hprodS : (ordS.map (sizeFn sS)).prod = npoints (sizeFn sS) sR := (hpermS0.map _).prod_nat
  have hprodP : (ordP.map (fun d => pS.getD d 1)).prod = pS.prod := by
    have := (hordP.map (fun d => pS.getD d 1)).prod_nat
    rw [this]
    conv => rhs; rw [sizes_eq_map pS]
    rfl
  have htr : transposeND nd sigma = .ok T := by
    unfold transposeND
    rw [hklen]
    have c1 : (sigma.length != pS.length + sS.length) = false := by rw [hslen]; simp
    have c2 : (List.range (pS.length + sS.length)).all (fun ax => sigma.contains ax) = true := by
      rw [List.all_eq_true]; intro ax hax
      simpa using hsmem ax (List.mem_range.mp hax)
    simp only [c1, c2, Bool.not_true, Bool.or_self, Bool.false_eq_true, if_false]
    rfl
  have hshT : T.shape = ordP.reverse.map (fun d => pS.getD d 1) ++ ordS.reverse.map (sizeFn sS) := by
    show sigma.map (fun ax => nd.shape.getD ax 1) = _
    rw [hshape, sigma_map pS.length _ _ pS sS 1 rfl hltP]; rfl
  have hflatT : T.flat.length = pS.prod * npoints (sizeFn sS) sR := by
    have : T.flat.length = T.shape.prod := by simp [T, NDArr.transpose]
    rw [this, hshT, List.prod_append, List.map_reverse, List.map_reverse, (List.reverse_perm _).prod_nat,
      (List.reverse_perm _).prod_nat, hprodP, hprodS]
  refine ⟨htr, hflatT, ?_⟩
  intro c idxP hc hbP
  have hlenP : pS.length = idxP.length := inBounds_length pS idxP hbP
  have hb : InBounds nd.shape (idxP ++ coords sS sR c (List.range sS.length)) := by
    rw [hshape]
    exact inBounds_append _ _ _ _ hbP (coords_inBounds sS sR hS c)
  have hb2 := inBounds_map nd.shape _ hb sigma (fun i hi => by rw [hklen]; exact hslt i hi)
  have hfl : (idxP ++ coords sS sR c (List.range sS.length)).length = pS.length + sS.length := by
    simp [coords, hlenP]
  have hg := gather_inverse (idxP ++ coords sS sR c (List.range sS.length)) sigma
    (fun i hi => hsmem i (by rw [← hfl]; exact hi))
  rw [hfl] at hg
  have ht := transpose_get nd sigma (inversePerm (pS.length + sS.length) sigma) _ hb2
  rw [hg] at ht
  rw [← ht, reshape_get]
  unfold NDArr.get
  congr 1
  rw [hshT]
  have hsc := sigma_map pS.length ordP ordS idxP (coords sS sR c (List.range sS.length)) 0 hlenP.symm hltP
  rw [hsc, ravelC_append _ _ _ _ (by simp)]
  have e2 := ravel_sorted_coords sS sR hS hkS c hc
  have c2 : ordS.reverse.map (fun d => (coords sS sR c (List.range sS.length)).getD d 0) =
      ordS.reverse.map (fun d => gridIdx (sizeFn sS) sR c d) := by
    apply List.map_congr_left
    intro d hd
    have hdk : d < sS.length := List.mem_range.mp (hpermS.subset (List.mem_reverse.mp hd))
    simp [coords, List.getD_eq_getElem?_getD, List.getElem?_map, List.getElem?_range hdk]
  rw [c2, e2, List.map_reverse (l := ordS), (List.reverse_perm _).prod_nat, hprodS]
  simp [ravelC]

end Usid.Reshape
