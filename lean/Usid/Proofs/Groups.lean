import Usid.Model.Groups
/-! Lemmas about group naming (C13). -/
namespace Usid.Grp
open Usid

/-! ### digits -/

theorem parseNat_foldl (s : Str) (a : Nat) :
    s.foldl (fun a c => 10 * a + (c.toNat - 48)) a = a * 10 ^ s.length + parseNat s := by
  induction s generalizing a with
  | nil => simp [parseNat]
  | cons c s ih =>
    simp only [List.foldl_cons, List.length_cons, parseNat]
    rw [ih, ih (10 * 0 + (c.toNat - 48))]
    rw [Nat.pow_succ]
    simp only [Nat.mul_zero, Nat.zero_add]
    rw [Nat.add_mul, Nat.add_assoc]
    congr 1
    rw [Nat.mul_comm 10 a, Nat.mul_assoc, Nat.mul_comm 10]

theorem parseNat_append (a b : Str) : parseNat (a ++ b) = parseNat a * 10 ^ b.length + parseNat b := by
  unfold parseNat
  rw [List.foldl_append, parseNat_foldl]
  rfl

theorem digitChar (d : Nat) (hd : d < 10) :
    (Char.ofNat (48 + d)).isDigit = true ∧ (Char.ofNat (48 + d)).toNat - 48 = d := by
  have : d = 0 ∨ d = 1 ∨ d = 2 ∨ d = 3 ∨ d = 4 ∨ d = 5 ∨ d = 6 ∨ d = 7 ∨ d = 8 ∨ d = 9 := by omega
  rcases this with h | h | h | h | h | h | h | h | h | h <;> subst h <;> decide

theorem digitsAux_spec (fuel n : Nat) (acc : Str) (h : n < 10 ^ fuel) :
    ∃ ds, digitsAux fuel n acc = ds ++ acc ∧ allDigits ds = true ∧ (0 < fuel → ds ≠ []) ∧ parseNat ds = n := by
  induction fuel generalizing n acc with
  | zero =>
    refine ⟨[], rfl, rfl, fun h => absurd h (by omega), ?_⟩
    simp at h; simp [parseNat, h]
  | succ fuel ih =>
    have hd := digitChar (n % 10) (Nat.mod_lt _ (by omega))
    unfold digitsAux
    by_cases h0 : n / 10 = 0
    · simp only [h0, if_true]
      refine ⟨[Char.ofNat (48 + n % 10)], rfl, by simp [allDigits, hd.1], fun _ => by simp, ?_⟩
      simp only [parseNat, List.foldl_cons, List.foldl_nil, Nat.mul_zero, Nat.zero_add, hd.2]
      omega
    · simp only [h0, if_false]
      have hlt : n / 10 < 10 ^ fuel := by
        rw [Nat.pow_succ] at h
        exact Nat.div_lt_of_lt_mul (by rw [Nat.mul_comm]; exact h)
      obtain ⟨ds, e, hdig, _, hp⟩ := ih (n / 10) (Char.ofNat (48 + n % 10) :: acc) hlt
      refine ⟨ds ++ [Char.ofNat (48 + n % 10)], by rw [e]; simp, ?_, fun _ => by simp, ?_⟩
      · simp only [allDigits, List.all_append, List.all_cons, List.all_nil, Bool.and_true, Bool.and_eq_true]
        exact ⟨hdig, hd.1⟩
      · rw [parseNat_append, hp]
        simp only [parseNat, List.foldl_cons, List.foldl_nil, Nat.mul_zero, Nat.zero_add, hd.2,
          List.length_cons, List.length_nil, Nat.pow_one]
        omega

theorem natDigits_spec (n : Nat) :
    allDigits (natDigits n) = true ∧ natDigits n ≠ [] ∧ parseNat (natDigits n) = n := by
  have hlt : n < 10 ^ (n + 1) := by
    have h1 : n < 10 ^ n := Nat.lt_pow_self (by omega)
    have h2 : 10 ^ n ≤ 10 ^ (n + 1) := Nat.pow_le_pow_right (by omega) (by omega)
    omega
  obtain ⟨ds, e, h1, h2, h3⟩ := digitsAux_spec (n + 1) n [] hlt
  have : natDigits n = ds := by simp [natDigits, e]
  rw [this]
  exact ⟨h1, h2 (by omega), h3⟩

theorem parseNat_zeros (k : Nat) (s : Str) : parseNat (List.replicate k '0' ++ s) = parseNat s := by
  induction k with
  | zero => simp
  | succ k ih =>
    rw [List.replicate_succ, List.cons_append]
    have : parseNat ('0' :: (List.replicate k '0' ++ s)) = parseNat (List.replicate k '0' ++ s) := by
      show parseNat (['0'] ++ (List.replicate k '0' ++ s)) = _
      rw [parseNat_append]
      simp [parseNat]
    rw [this, ih]

theorem fmt03_spec (n : Nat) : allDigits (fmt03 n) = true ∧ fmt03 n ≠ [] ∧ parseNat (fmt03 n) = n := by
  obtain ⟨h1, h2, h3⟩ := natDigits_spec n
  refine ⟨?_, ?_, ?_⟩
  · simp only [fmt03, allDigits, List.all_append, Bool.and_eq_true]
    refine ⟨?_, h1⟩
    simp [List.all_replicate]
  · simp only [fmt03]; intro h; exact h2 (List.append_eq_nil_iff.mp h).2
  · simp only [fmt03]; rw [parseNat_zeros, h3]

/-! ### the index carried by a name -/

theorem indexOf_eq_some (p name : Str) (k : Nat) :
    indexOf p name = some k ↔
      ∃ ds, ds ≠ [] ∧ allDigits ds = true ∧ name = p ++ ds ∧ parseNat ds = k := by
  unfold indexOf isDigitStr
  constructor
  · intro h
    split at h
    · rename_i hc
      simp only [Bool.and_eq_true, Bool.not_eq_eq_eq_not, Bool.not_true, List.isEmpty_eq_false_iff] at hc
      obtain ⟨hp, hne, hd⟩ := hc
      obtain ⟨t, rfl⟩ := List.isPrefixOf_iff_prefix.mp hp
      simp only [List.drop_left] at hne hd h
      exact ⟨t, hne, hd, rfl, by injection h⟩
    · cases h
  · rintro ⟨ds, hne, hd, rfl, hk⟩
    have hp : p.isPrefixOf (p ++ ds) = true := List.isPrefixOf_iff_prefix.mpr (List.prefix_append _ _)
    simp [hp, List.drop_left, hne, hd, hk]

theorem indexOf_fmt (p : Str) (n : Nat) : indexOf p (p ++ fmt03 n) = some n := by
  obtain ⟨h1, h2, h3⟩ := fmt03_spec n
  exact (indexOf_eq_some p _ n).mpr ⟨fmt03 n, h2, h1, rfl, h3⟩

theorem hasPrefixIndex_of_indexOf (p name : Str) (k : Nat) (h : indexOf p name = some k) :
    HasPrefixIndex p name := by
  obtain ⟨ds, h1, h2, h3, _⟩ := (indexOf_eq_some p name k).mp h
  exact ⟨ds, h1, h2, h3⟩

theorem le_maxList (l : List Nat) (x : Nat) (h : x ∈ l) : x ≤ maxList l := by
  induction l with
  | nil => simp at h
  | cons y ys ih =>
    simp only [maxList]
    rcases List.mem_cons.mp h with rfl | h
    · exact Nat.le_max_left _ _
    · exact Nat.le_trans (ih h) (Nat.le_max_right _ _)

theorem used_lt_next (p : Str) (par : Parent) (k : Nat) (h : k ∈ usedIndices p par) : k < nextIndex p par := by
  unfold nextIndex
  have hne : usedIndices p par ≠ [] := by intro h0; rw [h0] at h; simp at h
  simp only [hne, if_false]
  have := le_maxList _ k h
  omega

/-- the name handed out is not taken by any object of any kind -/
theorem fresh (p : Str) (par : Parent) : p ++ fmt03 (nextIndex p par) ∉ names par := by
  intro hmem
  obtain ⟨e, he, hname⟩ := List.mem_map.mp hmem
  have hidx : indexOf p e.name = some (nextIndex p par) := by rw [hname]; exact indexOf_fmt p _
  have : nextIndex p par ∈ usedIndices p par := by
    unfold usedIndices
    exact List.mem_filterMap.mpr ⟨e, he, hidx⟩
  have := used_lt_next p par _ this
  omega

/-- the number handed out is one more than the highest used for exactly this prefix, 0 if none -/
theorem nextIndex_spec (p : Str) (par : Parent) :
    (∀ e ∈ par, ∀ k, indexOf p e.name = some k → k < nextIndex p par) ∧
    (nextIndex p par = 0 ∨ ∃ e ∈ par, indexOf p e.name = some (nextIndex p par - 1)) := by
  constructor
  · intro e he k hk
    exact used_lt_next p par k (List.mem_filterMap.mpr ⟨e, he, hk⟩)
  · unfold nextIndex
    by_cases h : usedIndices p par = []
    · simp [h]
    · right
      simp only [h, if_false, Nat.add_sub_cancel]
      have hmax : maxList (usedIndices p par) ∈ usedIndices p par := by
        generalize usedIndices p par = l at h
        induction l with
        | nil => exact absurd rfl h
        | cons x xs ih =>
          simp only [maxList]
          by_cases hx : xs = []
          · subst hx; simp [maxList]
          · have := ih hx
            rcases Nat.le_total x (maxList xs) with hle | hle
            · rw [Nat.max_eq_right hle]; exact List.mem_cons_of_mem _ this
            · rw [Nat.max_eq_left hle]; exact List.mem_cons_self
      obtain ⟨e, he, hk⟩ := List.mem_filterMap.mp hmax
      exact ⟨e, he, hk⟩

theorem withUnderscore_ne_nil (b : Str) : withUnderscore b ≠ [] := by
  intro h
  have := withUnderscore_getLast b
  rw [h] at this; simp at this

/-! ### one request -/

/-- the entry `create_indexed_group` adds -/
def idxEntry (par : Parent) (base : Str) : Entry :=
  { name := withUnderscore base ++ fmt03 (nextIndex (withUnderscore base) par), kind := .group }

/-- the entry `create_results_group` adds -/
def resEntry (par : Parent) (d t : Str) (same : Bool) (sid : Str) : Entry :=
  { name := resultsPrefix d t ++ fmt03 (nextIndex (resultsPrefix d t) par), kind := .group,
    tool := some (normTool t), source := if same then some d else none,
    sourceId := if same then some sid else none }

theorem createIndexed_ok (par : Parent) (base : Str) (hb : base ≠ []) :
    createIndexed par base = .ok (par ++ [idxEntry par base], (idxEntry par base).name) := by
  unfold createIndexed assignIndex createGroup idxEntry
  have hf := fresh (withUnderscore base) par
  simp only [hb, if_false, bind, Except.bind, pure, Except.pure]
  simp [hf]

theorem resultsPrefix_ne_nil (d t : Str) : resultsPrefix d t ≠ [] := by simp [resultsPrefix]

theorem resultsPrefix_underscore (d t : Str) : withUnderscore (resultsPrefix d t) = resultsPrefix d t := by
  unfold withUnderscore
  have : (resultsPrefix d t).getLast? = some '_' := by
    unfold resultsPrefix
    rw [List.getLast?_append]; simp
  simp [this]

theorem createResults_ok (par : Parent) (d t : Str) (same : Bool) (sid : Str) :
    createResults par d t same sid = .ok (par ++ [resEntry par d t same sid], (resEntry par d t same sid).name) := by
  unfold createResults assignIndex createGroup resEntry
  have hf := fresh (resultsPrefix d t) par
  simp only [resultsPrefix_ne_nil, if_false, bind, Except.bind, pure, Except.pure, resultsPrefix_underscore]
  simp [hf]

end Usid.Grp
