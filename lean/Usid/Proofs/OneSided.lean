import Usid.Proofs.FlattenOne
/-! One-sided flattening: whatever is returned has as many elements as the array, so a request whose
    supplied side cannot be held by the axes it must occupy is refused. -/
namespace Usid.Reshape
open Usid Usid.Dims

variable {α : Type} [Inhabited α]

theorem perm_range_of_contains : ∀ (k : Nat) (axes : List Nat), axes.length = k →
    (∀ ax, ax < k → ax ∈ axes) → (List.range k).Perm axes
  | 0, axes, hlen, _ => by
    have : axes = [] := List.eq_nil_of_length_eq_zero hlen
    subst this; simp
  | k + 1, axes, hlen, hall => by
    have hk : k ∈ axes := hall k (by omega)
    have h1 : axes.Perm (k :: axes.erase k) := List.perm_cons_erase hk
    have hlen' : (axes.erase k).length = k := by rw [List.length_erase_of_mem hk, hlen]; rfl
    have ih := perm_range_of_contains k (axes.erase k) hlen' (by
      intro ax hax
      exact (List.mem_erase_of_ne (by omega)).mpr (hall ax (by omega)))
    rw [List.range_succ]
    exact (List.perm_append_comm.trans (by simpa using List.Perm.cons k ih)).trans h1.symm

theorem prod_map_perm {l₁ l₂ : List Nat} (f : Nat → Nat) (h : l₁.Perm l₂) :
    (l₁.map f).prod = (l₂.map f).prod := by
  induction h with
  | nil => rfl
  | cons x _ ih => simp [ih]
  | swap x y l => simp [Nat.mul_left_comm]
  | trans _ _ ih1 ih2 => rw [ih1, ih2]

theorem map_getD_range (shape : List Nat) : (List.range shape.length).map (fun ax => shape.getD ax 1) = shape := by
  apply List.ext_getElem
  · simp
  · intro i h1 h2
    simp only [List.getElem_map, List.getElem_range]
    rw [List.getD_eq_getElem?_getD, List.getElem?_eq_getElem h2]; rfl

/-- numpy's `transpose` keeps the number of elements -/
theorem transposeND_size (a b : NDArr α) (axes : List Nat) (h : transposeND a axes = .ok b) :
    b.flat.length = a.shape.prod ∧ b.shape.prod = a.shape.prod := by
  unfold transposeND at h
  split at h
  · cases h
  · rename_i hc
    injection h with h
    simp only [Bool.or_eq_true, bne_iff_ne, ne_eq, Bool.not_eq_true', not_or, Decidable.not_not,
      Bool.not_eq_false] at hc
    obtain ⟨hlen, hall⟩ := hc
    have hperm := perm_range_of_contains a.shape.length axes hlen (by
      intro ax hax
      have := (List.all_eq_true.mp hall) ax (List.mem_range.mpr hax)
      simpa using this)
    have hp : (axes.map (fun ax => a.shape.getD ax 1)).prod = a.shape.prod := by
      rw [← prod_map_perm _ hperm, map_getD_range]
    rw [← h]
    simp only [NDArr.transpose, List.length_map, List.length_range]
    exact ⟨hp, hp⟩

theorem makeIndicesMatrix_cols (dims : List Nat) (mat : List (List Nat))
    (h : Usid.Anc.makeIndicesMatrix dims = .ok mat) : (mat.headD []).length = dims.prod := by
  unfold Usid.Anc.makeIndicesMatrix at h
  split at h
  · cases h
  · split at h
    · rename_i h1; injection h with h; subst h; simp [h1]
    · split at h
      · cases h
      · rename_i hne _ _
        injection h with h; subst h
        cases dims with
        | nil => exact absurd rfl hne
        | cons d ds =>
          simp only [List.length_cons, List.range_succ_eq_map, List.map_cons, List.headD_cons]
          rw [length_tile]
          simp

theorem length_getSortOrder (m : List (List Nat)) : (getSortOrder m).length = (orient m).length := by
  simp [getSortOrder, argsortRev, List.length_mergeSort]

theorem length_getDimensionality (m : List (List Nat)) (o dims : List Nat)
    (h : getDimensionality m (some o) = .ok dims) : dims.length = o.length := by
  unfold getDimensionality at h
  simp only at h
  split at h
  · cases h
  · split at h
    · cases h
    · injection h with h; rw [← h]; simp

end Usid.Reshape
