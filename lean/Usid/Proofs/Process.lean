import Usid.Model.Process
/-! Helper lemmas about the compute-loop model. -/
namespace Usid.Proc

/-! ### pending -/

theorem mem_pendingFrom (st : List Nat) (i p : Nat) :
    p ∈ pendingFrom i st ↔ i ≤ p ∧ st[p - i]? = some 0 := by
  induction st generalizing i with
  | nil => simp [pendingFrom]
  | cons s ss ih =>
    unfold pendingFrom
    by_cases hs : s = 0
    · simp only [hs, if_true, List.mem_cons, ih]
      constructor
      · rintro (rfl | ⟨h1, h2⟩)
        · simp
        · refine ⟨by omega, ?_⟩
          have : p - i = (p - (i + 1)) + 1 := by omega
          rw [this]; simpa using h2
      · rintro ⟨h1, h2⟩
        by_cases hp : p = i
        · exact Or.inl hp
        · right
          refine ⟨by omega, ?_⟩
          have : p - i = (p - (i + 1)) + 1 := by omega
          rw [this] at h2; simpa using h2
    · simp only [hs, if_false, ih]
      constructor
      · rintro ⟨h1, h2⟩
        refine ⟨by omega, ?_⟩
        have : p - i = (p - (i + 1)) + 1 := by omega
        rw [this]; simpa using h2
      · rintro ⟨h1, h2⟩
        have hne : p ≠ i := by
          intro h; subst h; simp at h2; exact hs h2
        refine ⟨by omega, ?_⟩
        have : p - i = (p - (i + 1)) + 1 := by omega
        rw [this] at h2; simpa using h2

theorem mem_pending (st : List Nat) (p : Nat) : p ∈ pending st ↔ st[p]? = some 0 := by
  simp [pending, mem_pendingFrom]

theorem pendingFrom_sorted (st : List Nat) (i : Nat) : (pendingFrom i st).Pairwise (· < ·) := by
  induction st generalizing i with
  | nil => simp [pendingFrom]
  | cons s ss ih =>
    unfold pendingFrom
    split
    · rw [List.pairwise_cons]
      refine ⟨?_, ih (i + 1)⟩
      intro q hq
      have := (mem_pendingFrom ss (i + 1) q).mp hq
      omega
    · exact ih (i + 1)

theorem pending_sorted (st : List Nat) : (pending st).Pairwise (· < ·) := pendingFrom_sorted st 0

theorem pending_nodup (st : List Nat) : (pending st).Nodup :=
  (pending_sorted st).imp (fun h => Nat.ne_of_lt h)

theorem pending_lt (st : List Nat) (p : Nat) (h : p ∈ pending st) : p < st.length := by
  have := (mem_pending st p).mp h
  exact (List.getElem?_eq_some_iff.mp this).1

/-! ### slices and windows -/

theorem pySlice_append {α : Type} (l : List α) (a m b : Nat) (h1 : a ≤ m) (h2 : m ≤ b) :
    pySlice l a m ++ pySlice l m b = pySlice l a b := by
  unfold pySlice
  have e : b - a = (m - a) + (b - m) := by omega
  rw [e, List.take_add, List.drop_drop]
  congr 3
  omega

theorem pySlice_nil {α : Type} (l : List α) (a b : Nat) (h : b ≤ a) : pySlice l a b = [] := by
  unfold pySlice
  have : b - a = 0 := by omega
  simp [this]

theorem pySlice_full {α : Type} (l : List α) : pySlice l 0 l.length = l := by
  simp [pySlice]

theorem length_pySlice_le {α : Type} (l : List α) (a b : Nat) : (pySlice l a b).length ≤ b - a := by
  unfold pySlice; simp [List.length_take]; omega

theorem length_pySlice {α : Type} (l : List α) (a b : Nat) (hb : b ≤ l.length) :
    (pySlice l a b).length = b - a := by
  unfold pySlice; simp [List.length_take, List.length_drop]; omega

/-- the windows tile `[start, stop)`: consecutive, each non-empty and at most `batch` long -/
theorem windows_spec (batch : Nat) (hb : 0 < batch) (start stop : Nat) :
    ∀ w ∈ windows batch hb start stop, start ≤ w.1 ∧ w.1 < w.2 ∧ w.2 ≤ stop ∧ w.2 - w.1 ≤ batch := by
  fun_induction windows batch hb start stop with
  | case1 start h ih =>
    intro w hw
    rcases List.mem_cons.mp hw with rfl | hw
    · simp only; omega
    · have := ih w hw; omega
  | case2 start h => intro w hw; simp at hw

theorem windows_flatten {α : Type} (l : List α) (batch : Nat) (hb : 0 < batch) (start stop : Nat) :
    ((windows batch hb start stop).map (fun w => pySlice l w.1 w.2)).flatten = pySlice l start stop := by
  fun_induction windows batch hb start stop with
  | case1 start h ih =>
    simp only [List.map_cons, List.flatten_cons, ih]
    exact pySlice_append l _ _ _ (by omega) (by omega)
  | case2 start h => simp [pySlice_nil l start stop (by omega)]

/-- number of batches: ⌈(stop - start) / batch⌉ -/
theorem windows_length (batch : Nat) (hb : 0 < batch) (start stop : Nat) :
    (windows batch hb start stop).length = (stop - start + batch - 1) / batch := by
  fun_induction windows batch hb start stop with
  | case1 start h ih =>
    simp only [List.length_cons, ih]
    by_cases hle : start + batch ≤ stop
    · rw [Nat.min_eq_right hle]
      have e : stop - start + batch - 1 = (stop - (start + batch) + batch - 1) + batch := by omega
      rw [e, Nat.add_div_right _ hb]
    · have hm : min stop (start + batch) = stop := Nat.min_eq_left (by omega)
      rw [hm]
      have h0 : (stop - stop + batch - 1) / batch = 0 := Nat.div_eq_of_lt (by omega)
      have h1 : (stop - start + batch - 1) / batch = 1 := by
        have e : stop - start + batch - 1 = (stop - start - 1) + batch := by omega
        rw [e, Nat.add_div_right _ hb, Nat.div_eq_of_lt (by omega)]
      omega
  | case2 start h =>
    have : (stop - start + batch - 1) / batch = 0 := Nat.div_eq_of_lt (by omega)
    simp [this]

theorem windowsFuel_eq (batch : Nat) (hb : 0 < batch) (fuel start stop : Nat) (hf : stop - start ≤ fuel) :
    windowsFuel batch fuel start stop = some (windows batch hb start stop) := by
  induction fuel generalizing start with
  | zero =>
    unfold windowsFuel windows
    have : ¬ start < stop := by omega
    simp [this]
  | succ n ih =>
    unfold windowsFuel windows
    by_cases h : start < stop
    · simp only [h, if_true, dite_true]
      rw [ih _ (by omega)]; rfl
    · simp [h]

/-- with a zero batch limit the loop never finishes, whatever the fuel -/
theorem windowsFuel_zero (fuel start stop : Nat) (h : start < stop) :
    windowsFuel 0 fuel start stop = none := by
  induction fuel with
  | zero => simp [windowsFuel, h]
  | succ n ih =>
    unfold windowsFuel
    simp only [h, if_true, Nat.add_zero]
    have : min stop start = start := Nat.min_eq_right (by omega)
    rw [this, ih]; rfl

/-! ### ranks -/

theorem rank_consecutive (jobs size r : Nat) (h : r + 1 < size) :
    rankEnd jobs size r = rankStart jobs size (r + 1) := by
  unfold rankEnd rankStart; split <;> omega

theorem rank_first (jobs size : Nat) : rankStart jobs size 0 = 0 := by simp [rankStart]

theorem rank_last (jobs size : Nat) (h : 0 < size) : rankEnd jobs size (size - 1) = jobs := by
  unfold rankEnd; split <;> omega

theorem rank_le (jobs size r : Nat) (h : r < size) : rankStart jobs size r ≤ rankEnd jobs size r := by
  unfold rankStart rankEnd
  split
  · have h1 : r * (jobs / size) ≤ size * (jobs / size) := Nat.mul_le_mul_right _ (by omega)
    have h2 : size * (jobs / size) ≤ jobs := Nat.mul_div_le jobs size
    omega
  · exact Nat.mul_le_mul_right _ (by omega)

theorem rankEnd_le (jobs size r : Nat) (h : r < size) : rankEnd jobs size r ≤ jobs := by
  unfold rankEnd
  split
  · exact Nat.le_refl _
  · have h1 : (r + 1) * (jobs / size) ≤ size * (jobs / size) := Nat.mul_le_mul_right _ (by omega)
    have h2 : size * (jobs / size) ≤ jobs := Nat.mul_div_le jobs size
    omega

theorem rank_cover (jobs size j : Nat) (hs : 0 < size) (hj : j < jobs) :
    ∃ r, r < size ∧ rankStart jobs size r ≤ j ∧ j < rankEnd jobs size r := by
  let q := jobs / size
  by_cases hlast : (size - 1) * q ≤ j
  · exact ⟨size - 1, by omega, by simpa [rankStart] using hlast, by rw [rank_last _ _ hs]; exact hj⟩
  · have hq : 0 < q := by
      rcases Nat.eq_zero_or_pos q with h0 | h0
      · simp [h0] at hlast
      · exact h0
    refine ⟨j / q, ?_, ?_, ?_⟩
    · have : j / q < size - 1 := by
        apply (Nat.div_lt_iff_lt_mul hq).mpr; omega
      omega
    · show j / q * q ≤ j
      exact Nat.div_mul_le_self j q
    · have hlt : j / q < size - 1 := (Nat.div_lt_iff_lt_mul hq).mpr (by omega)
      unfold rankEnd
      split
      · omega
      · show j < (j / q + 1) * q
        have := Nat.lt_div_mul_add (a := j) hq
        rw [Nat.add_mul, Nat.one_mul]; exact this

theorem rank_end_le_start (jobs size a b : Nat) (hab : a < b) (hb : b < size) :
    rankEnd jobs size a ≤ rankStart jobs size b := by
  unfold rankEnd rankStart
  split
  · omega
  · exact Nat.mul_le_mul_right _ (by omega)

theorem rank_disjoint (jobs size r r' j : Nat) (hr : r < size) (hr' : r' < size)
    (h1 : rankStart jobs size r ≤ j ∧ j < rankEnd jobs size r)
    (h2 : rankStart jobs size r' ≤ j ∧ j < rankEnd jobs size r') : r = r' := by
  rcases Nat.lt_trichotomy r r' with h | h | h
  · have := rank_end_le_start jobs size r r' h hr'; omega
  · exact h
  · have := rank_end_le_start jobs size r' r h hr; omega

/-- concatenating the ranges of ranks `0 .. k-1` gives the prefix up to the start of rank `k` -/
theorem ranks_prefix {α : Type} (l : List α) (size k : Nat) (hk : k ≤ size) (hs : 0 < size) :
    ((List.range k).map (fun r => pySlice l (rankStart l.length size r) (rankEnd l.length size r))).flatten
      = pySlice l 0 (if k = size then l.length else rankStart l.length size k) := by
  induction k with
  | zero =>
    have : ¬ (0 = size) := by omega
    simp [this, rank_first, pySlice]
  | succ n ih =>
    rw [List.range_succ, List.map_append, List.flatten_append, ih (by omega)]
    have hn : ¬ n = size := by omega
    simp only [hn, if_false, List.map_cons, List.map_nil, List.flatten_cons, List.flatten_nil,
      List.append_nil]
    rw [pySlice_append l 0 _ _ (Nat.zero_le _) (rank_le _ _ _ (by omega))]
    by_cases hlast : n + 1 = size
    · simp only [hlast, if_true]
      have : n = size - 1 := by omega
      rw [this, rank_last _ _ hs]
    · simp only [hlast, if_false]
      rw [rank_consecutive _ _ _ (by omega)]

/-! ### effect of the batches on the datasets -/

theorem applyBatch_results_length {ρ : Type} (f : Nat → ρ) (s : DS ρ) (l : List Nat) :
    (applyBatch f s l).results.length = s.results.length ∧
    (applyBatch f s l).status.length = s.status.length := by
  induction l generalizing s with
  | nil => simp [applyBatch]
  | cons q l ih =>
    have := ih { results := s.results.set q (f q), status := s.status.set q 1 }
    simpa [applyBatch] using this

theorem applyBatch_results {ρ : Type} (f : Nat → ρ) (s : DS ρ) (l : List Nat) (p : Nat) :
    (applyBatch f s l).results[p]? =
      if p ∈ l ∧ p < s.results.length then some (f p) else s.results[p]? := by
  induction l generalizing s with
  | nil => simp [applyBatch]
  | cons q l ih =>
    have h := ih { results := s.results.set q (f q), status := s.status.set q 1 }
    simp only [applyBatch, List.foldl_cons] at h ⊢
    rw [h]
    simp only [List.length_set, List.mem_cons]
    by_cases hpl : p ∈ l
    · by_cases hlt : p < s.results.length <;> simp [hpl, hlt]
    · by_cases hpq : p = q
      · subst hpq
        by_cases hlt : p < s.results.length
        · simp [hpl, hlt]
        · simp [hpl, hlt]
      · have hne : q ≠ p := fun h => hpq h.symm
        simp [hpl, hpq, List.getElem?_set_ne hne]

theorem applyBatch_status {ρ : Type} (f : Nat → ρ) (s : DS ρ) (l : List Nat) (p : Nat) :
    (applyBatch f s l).status[p]? =
      if p ∈ l ∧ p < s.status.length then some 1 else s.status[p]? := by
  induction l generalizing s with
  | nil => simp [applyBatch]
  | cons q l ih =>
    have h := ih { results := s.results.set q (f q), status := s.status.set q 1 }
    simp only [applyBatch, List.foldl_cons] at h ⊢
    rw [h]
    simp only [List.length_set, List.mem_cons]
    by_cases hpl : p ∈ l
    · by_cases hlt : p < s.status.length <;> simp [hpl, hlt]
    · by_cases hpq : p = q
      · subst hpq
        by_cases hlt : p < s.status.length
        · simp [hpl, hlt]
        · simp [hpl, hlt]
      · have hne : q ≠ p := fun h => hpq h.symm
        simp [hpl, hpq, List.getElem?_set_ne hne]

theorem foldl_applyBatch {ρ : Type} (f : Nat → ρ) (s : DS ρ) (bs : List (List Nat)) :
    bs.foldl (applyBatch f) s = applyBatch f s bs.flatten := by
  unfold applyBatch
  rw [List.foldl_flatten]

/-- batches of a single rank covering everything: their concatenation is the pending list -/
theorem rankBatches_single_flatten (pend : List Nat) (batch : Nat) (hb : 0 < batch) :
    (rankBatches pend 1 0 batch hb).flatten = pend := by
  unfold rankBatches
  rw [windows_flatten]
  simp [rankStart, rankEnd, pySlice]

theorem rankBatches_flatten (pend : List Nat) (size r batch : Nat) (hb : 0 < batch) :
    (rankBatches pend size r batch hb).flatten =
      pySlice pend (rankStart pend.length size r) (rankEnd pend.length size r) := by
  unfold rankBatches
  rw [windows_flatten]

/-- effect of a whole single-rank run on every position -/
theorem computeRun_spec {ρ : Type} (f : Nat → ρ) (s : DS ρ) (batch : Nat) (hb : 0 < batch)
    (hlen : s.results.length = s.status.length) (p : Nat) (hp : p < s.status.length) :
    ((computeRun f s batch hb).1.results[p]? =
        if s.status[p]? = some 0 then some (f p) else s.results[p]?) ∧
    ((computeRun f s batch hb).1.status[p]? =
        if s.status[p]? = some 0 then some 1 else s.status[p]?) := by
  simp only [computeRun, foldl_applyBatch, rankBatches_single_flatten, applyBatch_results,
    applyBatch_status, mem_pending]
  constructor
  · by_cases h : s.status[p]? = some 0 <;> simp [h, hlen, hp]
  · by_cases h : s.status[p]? = some 0 <;> simp [h, hp]

/-! the marks `compute()` starts from -/

theorem pendingFrom_ones (i a : Nat) (rest : List Nat) :
    pendingFrom i (List.replicate a 1 ++ rest) = pendingFrom (i + a) rest := by
  induction a generalizing i with
  | zero => simp
  | succ a ih =>
    rw [List.replicate_succ, List.cons_append]
    simp only [pendingFrom]
    rw [if_neg (by decide), ih]
    congr 1; omega

theorem pendingFrom_zeros (i b : Nat) : pendingFrom i (List.replicate b 0) = List.range' i b := by
  induction b generalizing i with
  | zero => simp [pendingFrom]
  | succ b ih =>
    rw [List.replicate_succ]
    simp only [pendingFrom, if_true]
    rw [ih, List.range'_succ]

theorem pending_markPrefix_zeros (n k : Nat) :
    pending (markPrefix (List.replicate n 0) k) = List.range' (min k n) (n - k) := by
  unfold pending markPrefix
  rw [pendingFrom_ones, List.drop_replicate, pendingFrom_zeros]
  simp

end Usid.Proc
