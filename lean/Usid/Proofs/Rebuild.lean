import Usid.Model.UnitValues
import Usid.Basic.Grid
/-! Lemmas for `create_spec_inds_from_vals`: the column loop is a mixed-radix odometer. -/
namespace Usid.Rebuild
open Usid Usid.UV

/-- positional stride: product of the sizes of the faster positions -/
def T (ss : List Nat) (i : Nat) : Nat := (ss.take i).prod

/-- digit of `j` at position `i` -/
def D (ss : List Nat) (j i : Nat) : Nat := j / T ss i % ss.getD i 1

theorem T_pos (ss : List Nat) (h : ∀ s ∈ ss, 1 ≤ s) (i : Nat) : 0 < T ss i := by
  unfold T
  induction ss generalizing i with
  | nil => simp
  | cons a l ih =>
    cases i with
    | zero => simp
    | succ i =>
      simp only [List.take_succ_cons, List.prod_cons]
      exact Nat.mul_pos (h a List.mem_cons_self) (ih (fun s hs => h s (List.mem_cons_of_mem _ hs)) i)

theorem T_succ (ss : List Nat) (i : Nat) (hi : i < ss.length) : T ss (i + 1) = T ss i * ss.getD i 1 := by
  unfold T
  rw [List.getD_eq_getElem?_getD, List.getElem?_eq_getElem hi, List.take_add_one, List.getElem?_eq_getElem hi]
  simp only [Option.toList_some, List.prod_append, Option.getD_some, List.prod_cons, List.prod_nil, Nat.mul_one]

theorem T_dvd (ss : List Nat) : ∀ (i i' : Nat), i ≤ i' → i' ≤ ss.length → T ss i ∣ T ss i' := by
  intro i i' h
  induction i' with
  | zero => intro _; have : i = 0 := by omega
            subst this; exact Nat.dvd_refl _
  | succ n ih =>
    intro hn
    rcases Nat.lt_or_ge i (n + 1) with h1 | h1
    · have := ih (by omega) (by omega)
      rw [T_succ ss n (by omega)]
      exact Nat.dvd_trans this (Nat.dvd_mul_right _ _)
    · have : i = n + 1 := by omega
      subst this; exact Nat.dvd_refl _

theorem T_full (ss : List Nat) : T ss ss.length = ss.prod := by unfold T; rw [List.take_length]

/-- the successor of a digit -/
theorem digit_succ (t s j : Nat) (ht : 0 < t) (hs : 1 ≤ s) :
    (j + 1) / t % s =
      if t ∣ j + 1 then (if t * s ∣ j + 1 then 0 else j / t % s + 1) else j / t % s := by
  rw [Nat.succ_div]
  by_cases hd : t ∣ j + 1
  · simp only [hd, if_true]
    obtain ⟨q, hq⟩ := hd
    have hq0 : 0 < q := by
      rcases Nat.eq_zero_or_pos q with h | h
      · subst h; simp at hq
      · exact h
    have hjq : j / t = q - 1 := by
      have e : j = t * (q - 1) + (t - 1) := by
        have : t * q = t * (q - 1) + t := by
          conv => lhs; rw [show q = (q - 1) + 1 by omega]
          rw [Nat.mul_add, Nat.mul_one]
        omega
      rw [e, Nat.mul_add_div ht, Nat.div_eq_of_lt (by omega)]; simp
    have hdiv : (t * s ∣ j + 1) ↔ s ∣ q := by
      rw [hq]; exact Nat.mul_dvd_mul_iff_left ht
    rw [hjq, show q - 1 + 1 = q by omega]
    by_cases hsq : s ∣ q
    · simp only [hdiv.mpr hsq, if_true]
      exact Nat.mod_eq_zero_of_dvd hsq
    · have hn : ¬ (t * s ∣ j + 1) := fun h => hsq (hdiv.mp h)
      simp only [hn, if_false]
      have hm := Nat.mod_lt (q - 1) (by omega : 0 < s)
      have hlt : (q - 1) % s + 1 < s := by
        rcases Nat.lt_or_ge ((q - 1) % s + 1) s with h | h
        · exact h
        · exfalso; apply hsq
          have hE : (q - 1) % s + 1 = s := by omega
          have : q = s * ((q - 1) / s) + s := by
            have := Nat.div_add_mod (q - 1) s; omega
          rw [this]
          exact Nat.dvd_add (Nat.dvd_mul_right _ _) (Nat.dvd_refl _)
      have : q = s * ((q - 1) / s) + ((q - 1) % s + 1) := by
        have := Nat.div_add_mod (q - 1) s; omega
      conv => lhs; rw [this]
      rw [Nat.mul_add_mod, Nat.mod_eq_of_lt hlt]
  · simp [hd]

/-- a digit changes exactly when its stride divides the new counter and its size is > 1 -/
theorem digit_changes (t s j : Nat) (ht : 0 < t) (hs : 1 ≤ s) :
    ((j + 1) / t % s ≠ j / t % s) ↔ (t ∣ j + 1 ∧ 1 < s) := by
  rw [digit_succ t s j ht hs]
  by_cases hd : t ∣ j + 1
  · simp only [hd, if_true, true_and]
    by_cases h1 : 1 < s
    · simp only [h1, iff_true]
      by_cases h2 : t * s ∣ j + 1
      · simp only [h2, if_true]
        -- old digit is s - 1 ≠ 0
        obtain ⟨q, hq⟩ := hd
        have hdiv : s ∣ q := by
          rw [hq] at h2; exact (Nat.mul_dvd_mul_iff_left ht).mp h2
        have hq0 : 0 < q := by
          rcases Nat.eq_zero_or_pos q with h | h
          · subst h; simp at hq
          · exact h
        have hjq : j / t = q - 1 := by
          have e : j = t * (q - 1) + (t - 1) := by
            have : t * q = t * (q - 1) + t := by
              conv => lhs; rw [show q = (q - 1) + 1 by omega]
              rw [Nat.mul_add, Nat.mul_one]
            omega
          rw [e, Nat.mul_add_div ht, Nat.div_eq_of_lt (by omega)]; simp
        rw [hjq]
        obtain ⟨m, hm⟩ := hdiv
        have hm0 : 0 < m := by
          rcases Nat.eq_zero_or_pos m with h | h
          · subst h; simp at hm; omega
          · exact h
        have : q - 1 = s * (m - 1) + (s - 1) := by
          have : s * m = s * (m - 1) + s := by
            conv => lhs; rw [show m = (m - 1) + 1 by omega]
            rw [Nat.mul_add, Nat.mul_one]
          omega
        rw [this, Nat.mul_add_mod, Nat.mod_eq_of_lt (by omega)]
        omega
      · simp only [h2, if_false]; omega
    · have : s = 1 := by omega
      subst this
      simp [Nat.mod_one, hd]
  · simp [hd]

/-! ### the list side of one step -/

theorem foldl_set_length (l : List Nat) : ∀ (p : List Nat), (l.foldl (fun p c => p.set c 0) p).length = p.length := by
  induction l with
  | nil => intro p; rfl
  | cons c l ih => intro p; rw [List.foldl_cons, ih]; simp

theorem foldl_set_getD (l : List Nat) : ∀ (p : List Nat) (i : Nat), i < p.length →
    (l.foldl (fun p c => p.set c 0) p).getD i 0 = if i ∈ l then 0 else p.getD i 0 := by
  induction l with
  | nil => intro p i _; simp
  | cons c l ih =>
    intro p i hi
    rw [List.foldl_cons, ih (p.set c 0) i (by simpa using hi)]
    by_cases hil : i ∈ l
    · simp [hil]
    · simp only [hil, if_false, List.mem_cons, or_false]
      by_cases hc : i = c
      · subst hc
        simp [List.getD_eq_getElem?_getD, List.getElem?_set, hi]
      · have : ¬ c = i := fun e => hc e.symm
        simp [List.getD_eq_getElem?_getD, List.getElem?_set, this, hc]

theorem rebuildStep_nil (prev : List Nat) : rebuildStep [] prev = prev := by simp [rebuildStep]

theorem rebuildStep_concat (init : List Nat) (c : Nat) (prev : List Nat) :
    rebuildStep (init ++ [c]) prev = (init.foldl (fun p c => p.set c 0) prev).modify c (· + 1) := by
  unfold rebuildStep
  cases init with
  | nil => simp
  | cons a l =>
    have h1 : ¬ ((a :: l ++ [c]).length == 1) = true := by simp
    have h2 : (a :: l ++ [c]).length > 1 := by simp
    simp only [h1, h2, if_true, if_false]
    rw [List.dropLast_concat, List.getLastD_concat]
    simp

theorem rebuildStep_length (chg prev : List Nat) : (rebuildStep chg prev).length = prev.length := by
  rcases List.eq_nil_or_concat chg with h | ⟨init, c, h⟩
  · subst h; rw [rebuildStep_nil]
  · subst h
    rw [List.concat_eq_append, rebuildStep_concat, List.length_modify, foldl_set_length]

/-- **One odometer step.**  `ss` are the sizes per sorted position (fastest first).  If the running indices
    are the digits of `j`, and `chg` lists (increasing) exactly the positions whose digit differs between
    `j` and `j + 1`, the loop body produces the digits of `j + 1` - provided `j + 1` is still on the grid. -/
theorem odometer_step (ss : List Nat) (hss : ∀ s ∈ ss, 1 ≤ s) (j : Nat) (hj : j + 1 < ss.prod)
    (chg : List Nat) (hchg : chg = (List.range ss.length).filter (fun i => D ss (j + 1) i != D ss j i)) :
    rebuildStep chg ((List.range ss.length).map (D ss j)) = (List.range ss.length).map (D ss (j + 1)) := by
  have hmem : ∀ i, i ∈ chg ↔ (i < ss.length ∧ T ss i ∣ j + 1 ∧ 1 < ss.getD i 1) := by
    intro i
    rw [hchg, List.mem_filter, List.mem_range]
    have hs1 : i < ss.length → 1 ≤ ss.getD i 1 := by
      intro hi
      rw [List.getD_eq_getElem?_getD, List.getElem?_eq_getElem hi]
      exact hss _ (List.getElem_mem hi)
    constructor
    · rintro ⟨hi, hne⟩
      have : D ss (j + 1) i ≠ D ss j i := by simpa using hne
      exact ⟨hi, (digit_changes _ _ j (T_pos ss hss i) (hs1 hi)).mp this⟩
    · rintro ⟨hi, h2⟩
      refine ⟨hi, ?_⟩
      have := (digit_changes _ _ j (T_pos ss hss i) (hs1 hi)).mpr h2
      simpa [D] using this
  have hsorted : chg.Pairwise (· < ·) := by
    rw [hchg]; exact List.Pairwise.filter _ List.pairwise_lt_range
  have hval : ∀ i, i < ss.length → D ss (j + 1) i =
      if T ss i ∣ j + 1 then (if T ss (i + 1) ∣ j + 1 then 0 else D ss j i + 1) else D ss j i := by
    intro i hi
    have hs1 : 1 ≤ ss.getD i 1 := by
      rw [List.getD_eq_getElem?_getD, List.getElem?_eq_getElem hi]
      exact hss _ (List.getElem_mem hi)
    unfold D
    rw [digit_succ _ _ j (T_pos ss hss i) hs1, T_succ ss i hi]
  apply List.ext_getElem
  · rw [rebuildStep_length]; simp
  intro i h1 h2
  have hi : i < ss.length := by simpa using h2
  have hprev : ∀ x, x < ss.length → ((List.range ss.length).map (D ss j)).getD x 0 = D ss j x := by
    intro x hx
    simp [List.getD_eq_getElem?_getD, List.getElem?_map, List.getElem?_range hx]
  have hgoal : (rebuildStep chg ((List.range ss.length).map (D ss j))).getD i 0 = D ss (j + 1) i := by
    rcases List.eq_nil_or_concat chg with hnil | ⟨init, c, hcc⟩
    · rw [hnil, rebuildStep_nil, hprev i hi]
      have : i ∉ chg := by rw [hnil]; simp
      rw [hmem] at this
      rw [hval i hi]
      by_cases hd : T ss i ∣ j + 1
      · have h1s : ¬ 1 < ss.getD i 1 := fun h => this ⟨hi, hd, h⟩
        have hs1 : 1 ≤ ss.getD i 1 := by
          rw [List.getD_eq_getElem?_getD, List.getElem?_eq_getElem hi]
          exact hss _ (List.getElem_mem hi)
        have e1 : ss.getD i 1 = 1 := by omega
        have : T ss (i + 1) ∣ j + 1 := by rw [T_succ ss i hi, e1, Nat.mul_one]; exact hd
        simp only [hd, this, if_true]
        unfold D; rw [e1, Nat.mod_one]
      · simp [hd]
    · rw [List.concat_eq_append] at hcc
      rw [hcc, rebuildStep_concat]
      rw [hcc] at hsorted
      have hinit_lt : ∀ x ∈ init, x < c := by
        intro x hx
        exact (List.pairwise_append.mp hsorted).2.2 x hx c (by simp)
      have hc_mem : c ∈ chg := by rw [hcc]; simp
      have hc := (hmem c).mp hc_mem
      have hlenp : ((List.range ss.length).map (D ss j)).length = ss.length := by simp
      have hfl : i < (init.foldl (fun p c => p.set c 0) ((List.range ss.length).map (D ss j))).length := by
        rw [foldl_set_length, hlenp]; exact hi
      rw [List.getD_eq_getElem?_getD, List.getElem?_modify, List.getElem?_eq_getElem hfl]
      simp only [Option.map_eq_map, Option.map_some, Option.getD_some]
      have hget : (init.foldl (fun p c => p.set c 0) ((List.range ss.length).map (D ss j)))[i] =
          if i ∈ init then 0 else D ss j i := by
        have := foldl_set_getD init ((List.range ss.length).map (D ss j)) i (by rw [hlenp]; exact hi)
        rw [List.getD_eq_getElem?_getD, List.getElem?_eq_getElem hfl, hprev i hi] at this
        simpa using this
      rw [hget]
      -- the last changed position is not followed by another change: T (c+1) does not divide j+1
      have hlast : ¬ T ss (c + 1) ∣ j + 1 := by
        intro hdv
        have hall : ∀ n, c + 1 + n ≤ ss.length → T ss (c + 1 + n) ∣ j + 1 := by
          intro n
          induction n with
          | zero => intro _; exact hdv
          | succ n ih =>
            intro hn
            have hprevd := ih (by omega)
            have hx : c + 1 + n < ss.length := by omega
            rw [show c + 1 + (n + 1) = (c + 1 + n) + 1 by omega, T_succ ss _ hx]
            have hnot : c + 1 + n ∉ chg := by
              rw [hcc]; intro hm
              rcases List.mem_append.mp hm with hm | hm
              · have := hinit_lt _ hm; omega
              · simp at hm; omega
            rw [hmem] at hnot
            have hs1 : 1 ≤ ss.getD (c + 1 + n) 1 := by
              rw [List.getD_eq_getElem?_getD, List.getElem?_eq_getElem hx]
              exact hss _ (List.getElem_mem hx)
            have : ss.getD (c + 1 + n) 1 = 1 := by
              rcases Nat.lt_or_ge 1 (ss.getD (c + 1 + n) 1) with h | h
              · exact absurd ⟨hx, hprevd, h⟩ hnot
              · omega
            rw [this, Nat.mul_one]; exact hprevd
        have hN := hall (ss.length - (c + 1)) (by omega)
        rw [show c + 1 + (ss.length - (c + 1)) = ss.length by omega, T_full] at hN
        have := Nat.le_of_dvd (by omega) hN
        omega
      by_cases hic : c = i
      · subst hic
        have hni : c ∉ init := fun h => by have := hinit_lt c h; omega
        simp only [hni, if_false, if_true]
        rw [hval c hi]
        simp [hc.2.1, hlast]
      · simp only [hic, if_false]
        by_cases hii : i ∈ init
        · simp only [hii, if_true]
          have hlt := hinit_lt i hii
          have him : i ∈ chg := by rw [hcc]; exact List.mem_append_left _ hii
          have hi' := (hmem i).mp him
          have hdv : T ss (i + 1) ∣ j + 1 := Nat.dvd_trans (T_dvd ss (i + 1) c (by omega) (by omega)) hc.2.1
          rw [hval i hi]; simp [hi'.2.1, hdv]
        · simp only [hii, if_false]
          have hnot : i ∉ chg := by
            rw [hcc]; intro hm
            rcases List.mem_append.mp hm with hm | hm
            · exact hii hm
            · simp at hm; exact hic hm.symm
          rw [hmem] at hnot
          rw [hval i hi]
          by_cases hd : T ss i ∣ j + 1
          · have hs1 : 1 ≤ ss.getD i 1 := by
              rw [List.getD_eq_getElem?_getD, List.getElem?_eq_getElem hi]
              exact hss _ (List.getElem_mem hi)
            have e1 : ss.getD i 1 = 1 := by
              rcases Nat.lt_or_ge 1 (ss.getD i 1) with h | h
              · exact absurd ⟨hi, hd, h⟩ hnot
              · omega
            have : T ss (i + 1) ∣ j + 1 := by rw [T_succ ss i hi, e1, Nat.mul_one]; exact hd
            simp only [hd, this, if_true]
            unfold D; rw [e1, Nat.mod_one]
          · simp [hd]
  have e1 : (rebuildStep chg ((List.range ss.length).map (D ss j)))[i] =
      (rebuildStep chg ((List.range ss.length).map (D ss j))).getD i 0 := by
    rw [List.getD_eq_getElem?_getD, List.getElem?_eq_getElem h1]; rfl
  rw [e1, hgoal]
  simp

/-! ### the column loop as an iteration -/

/-- iterating a loop body that maps the previous state and the loop counter to the next state -/
def iterCols (f : List Nat → Nat → List Nat) (a0 : List Nat) : Nat → List Nat
  | 0 => a0
  | j + 1 => f (iterCols f a0 j) j

theorem foldl_cols (f : List Nat → Nat → List Nat) (a0 d : List Nat) (m : Nat) :
    (List.range m).foldl (fun (acc : List (List Nat)) j => acc ++ [f (acc.getLastD d) j]) [a0] =
      (List.range (m + 1)).map (iterCols f a0) := by
  induction m with
  | zero => simp [iterCols]
  | succ m ih =>
    rw [List.range_succ, List.foldl_append, ih]
    simp only [List.foldl_cons, List.foldl_nil]
    have : ((List.range (m + 1)).map (iterCols f a0)).getLastD d = iterCols f a0 m := by
      rw [List.range_succ, List.map_append]; simp
    rw [this]
    conv => rhs; rw [List.range_succ, List.map_append]
    simp [iterCols]

theorem rebuildCols_eq (vals : List (List Int)) (order : List Nat) (n : Nat) (hn : 0 < n) :
    rebuildCols vals order n = (List.range n).map
      (iterCols (fun prev j => rebuildStep (changedAt vals order (j + 1)) prev) (List.replicate vals.length 0)) := by
  unfold rebuildCols
  rw [foldl_cols (fun prev j => rebuildStep (changedAt vals order (j + 1)) prev)]
  rw [show n - 1 + 1 = n by omega]

/-- relabelling a row by a function that is injective on its entries keeps the wrap-around change count -/
theorem changeCountInt_map (row : List Nat) (f : Nat → Int)
    (hinj : ∀ a ∈ row, ∀ b ∈ row, f a = f b → a = b) :
    changeCountInt (row.map f) = Usid.Dims.changeCountRow row := by
  unfold changeCountInt Usid.Dims.changeCountRow
  rw [List.length_map]
  congr 1
  apply List.filter_congr
  intro i hi
  have hi' : i < row.length := List.mem_range.mp hi
  have hp : (if i = 0 then row.length - 1 else i - 1) < row.length := by split <;> omega
  have e : ∀ x, x < row.length → (row.map f).getD x 0 = f (row.getD x 0) := by
    intro x hx
    simp [List.getD_eq_getElem?_getD, List.getElem?_map, List.getElem?_eq_getElem hx]
  have m : ∀ x, x < row.length → row.getD x 0 ∈ row := by
    intro x hx
    rw [List.getD_eq_getElem?_getD, List.getElem?_eq_getElem hx]; exact List.getElem_mem hx
  rw [e i hi', e _ hp]
  by_cases h : row.getD i 0 = row.getD (if i = 0 then row.length - 1 else i - 1) 0
  · rw [h]; simp
  · have : f (row.getD i 0) ≠ f (row.getD (if i = 0 then row.length - 1 else i - 1) 0) :=
      fun hf => h (hinj _ (m i hi') _ (m _ hp) hf)
    have h1 : (f (row.getD i 0) != f (row.getD (if i = 0 then row.length - 1 else i - 1) 0)) = true := by
      simpa using this
    have h2 : (row.getD i 0 != row.getD (if i = 0 then row.length - 1 else i - 1) 0) = true := by
      simpa using h
    rw [h1, h2]

end Usid.Rebuild
