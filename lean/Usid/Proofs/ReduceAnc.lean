import Usid.Model.Reduce
import Usid.Proofs.SubGrid
import Usid.Proofs.Relabel
/-! `write_reduced_anc_dsets` applied to one side of a regular grid: the columns at which every removed
    dimension sits at index 0 are the points of the sub-grid in which the removed dimensions have size 1, so
    the rebuilt matrices are the rows of that grid for the remaining dimensions. -/
namespace Usid.ReduceAnc
open Usid Usid.Grid Usid.SubGrid Usid.Reduce Usid.C09 Usid.Relabel

/-- the selection that `write_reduced_anc_dsets` makes: a removed dimension keeps index 0 only -/
def keepPred (rem : Nat → Bool) : Nat → Nat → Bool := fun d x => !rem d || x == 0

theorem L_removed (sz : Nat → Nat) (rem : Nat → Bool) (d : Nat) (hr : rem d = true) (hs : 1 ≤ sz d) :
    L sz (keepPred rem) d = [0] := by
  unfold L keepPred
  simp only [hr, Bool.not_true, Bool.false_or]
  obtain ⟨n, hn⟩ : ∃ n, sz d = n + 1 := ⟨sz d - 1, by omega⟩
  rw [hn, List.range_succ_eq_map]
  simp only [List.filter_cons, beq_self_eq_true, if_true, List.cons.injEq, true_and]
  rw [List.filter_eq_nil_iff]
  intro x hx
  obtain ⟨y, _, rfl⟩ := List.mem_map.mp hx
  simp

theorem L_kept (sz : Nat → Nat) (rem : Nat → Bool) (d : Nat) (hr : rem d = false) :
    L sz (keepPred rem) d = List.range (sz d) := by
  unfold L keepPred
  simp [hr]

theorem s'_removed (sz : Nat → Nat) (rem : Nat → Bool) (d : Nat) (hr : rem d = true) (hs : 1 ≤ sz d) :
    s' sz (keepPred rem) d = 1 := by unfold s'; rw [L_removed sz rem d hr hs]; rfl

theorem s'_kept (sz : Nat → Nat) (rem : Nat → Bool) (d : Nat) (hr : rem d = false) :
    s' sz (keepPred rem) d = sz d := by unfold s'; rw [L_kept sz rem d hr]; simp

theorem gridRow_min (sz : Nat → Nat) (rate : List Nat) (d : Nat) (hpos : ∀ e ∈ rate, 1 ≤ sz e) :
    (gridRow sz rate d).min? = some 0 := by
  rw [List.min?_eq_some_iff]
  refine ⟨?_, fun b _ => Nat.zero_le b⟩
  unfold gridRow
  refine List.mem_map.mpr ⟨0, List.mem_range.mpr (prod_pos sz rate hpos), ?_⟩
  simp [gridIdx]

/-- **The rebuilt side of a regular grid.**  `sz`, `rate`: the side's grid (rows in storage order 0..k-1);
    `V d`: the reference values of dimension d.  If at least one dimension remains, the rebuilt matrices are,
    for every remaining dimension in storage order, its row of the regular grid in which every removed
    dimension has size 1 (`s'`) - same rate order - with the original reference values. -/
theorem writeReducedAnc_grid (sz : Nat → Nat) (rate : List Nat) (k : Nat) (V : Nat → List Int)
    (labels units : List String) (remove : List String)
    (hperm : rate.Perm (List.range k)) (hpos : ∀ e ∈ rate, 1 ≤ sz e) (hl : labels.length = k)
    (d0 : Nat) (hd0 : d0 < k) (hkeep0 : remove.contains (labels.getD d0 "") = false) :
    let rem : Nat → Bool := fun d => remove.contains (labels.getD d "")
    let kept := (List.range k).filter (fun d => !rem d)
    let szr := s' sz (keepPred rem)
    writeReducedAnc ⟨labels, units, (List.range k).map (gridRow sz rate),
        (List.range k).map (fun d => (gridRow sz rate d).map (fun i => (V d).getD i 0))⟩ remove =
      ⟨kept.map (fun d => labels.getD d ""), kept.map (fun d => units.getD d ""),
       kept.map (gridRow szr rate),
       kept.map (fun d => (gridRow szr rate d).map (fun i => (V d).getD i 0))⟩ := by
  intro rem kept szr
  have hnd : rate.Nodup := hperm.nodup_iff.mpr List.nodup_range
  have hmemk : ∀ d, d ∈ rate ↔ d < k := fun d => by rw [hperm.mem_iff, List.mem_range]
  have hnotall : (List.range k).all (fun d => remove.contains (labels.getD d "")) = false := by
    rw [List.all_eq_false]
    exact ⟨d0, List.mem_range.mpr hd0, by rw [hkeep0]; simp⟩
  have hN : 0 < npoints sz rate := prod_pos sz rate hpos
  obtain ⟨k', hk'⟩ : ∃ k', k = k' + 1 := ⟨k - 1, by omega⟩
  have hhead : (((List.range k).map (gridRow sz rate)).headD []).length = npoints sz rate := by
    rw [hk', List.range_succ_eq_map]; simp [gridRow]
  have hrowI : ∀ d, d < k → ((List.range k).map (gridRow sz rate)).getD d [] = gridRow sz rate d := by
    intro d hd
    simp [List.getD_eq_getElem?_getD, List.getElem?_map, List.getElem?_range hd]
  have hrowV : ∀ d, d < k → ((List.range k).map (fun d => (gridRow sz rate d).map (fun i => (V d).getD i 0))).getD d [] =
      (gridRow sz rate d).map (fun i => (V d).getD i 0) := by
    intro d hd
    simp [List.getD_eq_getElem?_getD, List.getElem?_map, List.getElem?_range hd]
  have hget : ∀ d c, c < npoints sz rate → (gridRow sz rate d).getD c 0 = gridIdx sz rate c d := by
    intro d c hc
    simp [gridRow, List.getD_eq_getElem?_getD, List.getElem?_map, List.getElem?_range hc]
  -- the selected columns
  have hcols : (List.range (npoints sz rate)).filter (fun c =>
      ((List.range k).filter (fun d => remove.contains (labels.getD d ""))).all (fun d =>
        (((List.range k).map (gridRow sz rate)).getD d []).getD c 0 ==
          ((((List.range k).map (gridRow sz rate)).getD d []).min?).getD 0)) =
      (List.range (npoints szr rate)).map (rho sz (keepPred rem) rate) := by
    have := filter_selRow sz (keepPred rem) rate hnd
    unfold npoints
    rw [← this]
    apply List.filter_congr
    intro c hc
    have hc' := List.mem_range.mp hc
    unfold selRow
    rw [Bool.eq_iff_iff, List.all_eq_true, List.all_eq_true]
    constructor
    · intro h d hd
      have hdk := (hmemk d).mp hd
      unfold keepPred
      by_cases hr : rem d = true
      · have := h d (List.mem_filter.mpr ⟨List.mem_range.mpr hdk, hr⟩)
        rw [hrowI d hdk, gridRow_min sz rate d hpos, hget d c hc'] at this
        simp only [Option.getD_some] at this
        simp [hr, this]
      · simp [hr]
    · intro h d hd
      obtain ⟨hdk, hr⟩ := List.mem_filter.mp hd
      have hdk' := List.mem_range.mp hdk
      have := h d ((hmemk d).mpr hdk')
      unfold keepPred at this
      rw [hrowI d hdk', gridRow_min sz rate d hpos, hget d c hc']
      have hr' : rem d = true := hr
      simpa [hr'] using this
  have hrho_lt : ∀ i, i < npoints szr rate → rho sz (keepPred rem) rate i < npoints sz rate := by
    intro i hi
    have : rho sz (keepPred rem) rate i ∈ (List.range (npoints szr rate)).map (rho sz (keepPred rem) rate) :=
      List.mem_map.mpr ⟨i, List.mem_range.mpr hi, rfl⟩
    rw [← hcols] at this
    exact List.mem_range.mp (List.mem_filter.mp this).1
  have hidx : ∀ d, d < k → rem d = false → ∀ i, i < npoints szr rate →
      gridIdx sz rate (rho sz (keepPred rem) rate i) d = gridIdx szr rate i d := by
    intro d hd hr i hi
    rw [gridIdx_rho sz (keepPred rem) rate hnd i d ((hmemk d).mpr hd) hi]
    rw [L_kept sz rem d hr]
    unfold gridIdx
    have hs : szr d = sz d := s'_kept sz rem d hr
    rw [hs]
    have hlt : i / strideBefore (s' sz (keepPred rem)) rate d % s' sz (keepPred rem) d < sz d := by
      rw [s'_kept sz rem d hr]
      exact Nat.mod_lt _ (hpos d ((hmemk d).mpr hd))
    rw [List.getD_eq_getElem?_getD, List.getElem?_range hlt]
    simp only [Option.getD_some, s'_kept sz rem d hr]
    rfl
  unfold writeReducedAnc
  simp only [hl, hnotall, Bool.false_eq_true, if_false, hhead, hcols]
  have hkept_lt : ∀ d ∈ kept, d < k ∧ rem d = false := by
    intro d hd
    obtain ⟨h1, h2⟩ := List.mem_filter.mp hd
    exact ⟨List.mem_range.mp h1, by simpa using h2⟩
  congr 1
  · apply List.map_congr_left
    intro d hd
    obtain ⟨hdk, hr⟩ := hkept_lt d hd
    rw [hrowI d hdk, List.map_map]
    unfold gridRow
    apply List.map_congr_left
    intro i hi
    have hi' := List.mem_range.mp hi
    simp only [Function.comp]
    have := hget d _ (hrho_lt i hi')
    unfold gridRow at this
    rw [this, hidx d hdk hr i hi']
  · apply List.map_congr_left
    intro d hd
    obtain ⟨hdk, hr⟩ := hkept_lt d hd
    rw [hrowV d hdk, List.map_map]
    unfold gridRow
    conv => rhs; rw [List.map_map]
    apply List.map_congr_left
    intro i hi
    have hi' := List.mem_range.mp hi
    simp only [Function.comp]
    have hlt := hrho_lt i hi'
    have e : ((List.range (npoints sz rate)).map (fun r => gridIdx sz rate r d)).map (fun i => (V d).getD i 0) =
        (List.range (npoints sz rate)).map (fun x => (V d).getD (gridIdx sz rate x d) 0) := by
      rw [List.map_map]; rfl
    rw [e]
    have e2 : ((List.range (npoints sz rate)).map (fun x => (V d).getD (gridIdx sz rate x d) 0)).getD
        (rho sz (keepPred rem) rate i) 0 = (V d).getD (gridIdx sz rate (rho sz (keepPred rem) rate i) d) 0 := by
      simp [List.getD_eq_getElem?_getD, List.getElem?_map, List.getElem?_range hlt]
    rw [e2, hidx d hdk hr i hi']

/-- one side of a dataset as `reduce` sees it (spectroscopic orientation, rows in storage order) -/
def sideK (S R : List Nat) (labels units : List String) (values : List (List Int)) : AncK :=
  ⟨labels, units, gridMatrix S R, valueMatrix S R values⟩

/-- the dimensions of a side that are not reduced, in storage order -/
def keptOf (labels dims : List String) : List Nat :=
  (List.range labels.length).filter (fun d => !dims.contains (labels.getD d ""))

theorem map_eq_range_map {β : Type} (K : List Nat) (g : Nat → β) :
    K.map g = (List.range K.length).map (fun j => g (K.getD j 0)) := by
  apply List.ext_getElem
  · simp
  · intro j h1 h2
    have hj : j < K.length := by simpa using h1
    simp [List.getD_eq_getElem?_getD, List.getElem?_eq_getElem hj]

/-- **The side of the written dataset.**  For a regular-grid side with at least one dimension left: labels
    and units of the remaining dimensions in storage order; index matrix = the regular grid over the
    remaining dimensions (their sizes, the same relative rate order); value matrix = that grid's values with
    the ORIGINAL reference values of every remaining dimension. -/
theorem side_after (S R : List Nat) (labels units : List String) (values : List (List Int)) (dims : List String)
    (h : ValidGrid S R) (hl : labels.length = S.length) (hu : units.length = S.length)
    (d0 : Nat) (hd0 : d0 ∈ keptOf labels dims) :
    let K := keptOf labels dims
    let S' := K.map (sizeFn S)
    let R' := rateOf R K
    newSide (sideK S R labels units values) dims =
      ⟨K.map (fun d => labels.getD d ""), K.map (fun d => units.getD d ""), gridMatrix S' R',
       valueMatrix S' R' (K.map (fun d => values.getD d []))⟩ ∧
    ValidGrid S' R' := by
  intro K S' R'
  obtain ⟨hnd, hpos, hall⟩ := valid_facts S R h
  have hKdef : K = (List.range S.length).filter (fun d => !dims.contains (labels.getD d "")) := by
    show keptOf labels dims = _
    unfold keptOf; rw [hl]
  have hKnd : K.Nodup := by rw [hKdef]; exact List.nodup_range.filter _
  have hKlt : ∀ d ∈ K, d < S.length := by
    intro d hd; rw [hKdef] at hd; exact List.mem_range.mp (List.mem_filter.mp hd).1
  have hvalid : ValidGrid S' R' := by
    refine ⟨?_, ?_⟩
    · have := rateOf_perm R K S.length h.1 _ hKdef
      simpa [S'] using this
    · intro s hs
      obtain ⟨d, hd, rfl⟩ := List.mem_map.mp hs
      exact (hpos d (hall d (hKlt d hd))).2
  refine ⟨?_, hvalid⟩
  have hd0K : d0 ∈ K := hd0
  have hd0k : d0 < S.length := hKlt d0 hd0
  -- both branches give: rows K.map (gridRow f R) for an f that agrees with the sizes on K and is 1 outside
  have key : ∀ (f : Nat → Nat), (∀ d ∈ K, f d = sizeFn S d) → (∀ e ∈ R, K.contains e = false → f e = 1) →
      K.map (gridRow f R) = gridMatrix S' R' ∧
      K.map (fun d => (gridRow f R d).map (fun i => (values.getD d []).getD i 0)) =
        valueMatrix S' R' (K.map (fun d => values.getD d [])) := by
    intro f hf hone
    have hS' : K.map f = S' := List.map_congr_left hf
    have hrow : ∀ j, j < K.length → gridRow f R (K.getD j 0) = gridRow (sizeFn S') R' j := by
      intro j hj
      have := kept_row f R K hKnd hone j hj
      rw [hS'] at this; exact this
    have hlenS' : S'.length = K.length := by simp [S']
    constructor
    · rw [map_eq_range_map K (gridRow f R)]
      unfold gridMatrix
      rw [hlenS']
      apply List.map_congr_left
      intro j hj
      exact hrow j (List.mem_range.mp hj)
    · rw [map_eq_range_map K (fun d => (gridRow f R d).map (fun i => (values.getD d []).getD i 0))]
      unfold valueMatrix
      rw [hlenS']
      apply List.map_congr_left
      intro j hj
      have hj' := List.mem_range.mp hj
      rw [hrow j hj']
      have : (K.map (fun d => values.getD d [])).getD j [] = values.getD (K.getD j 0) [] := by
        simp [List.getD_eq_getElem?_getD, List.getElem?_map, List.getElem?_eq_getElem hj']
      rw [this]
  unfold newSide sideK
  by_cases hany : dims.any (fun d => labels.contains d) = true
  · simp only [hany, if_true]
    -- rem' of the filtered list agrees with membership in dims for this side's labels
    have hrem : ∀ d, d < S.length →
        (dims.filter (fun x => labels.contains x)).contains (labels.getD d "") = dims.contains (labels.getD d "") := by
      intro d hd
      have hmem : labels.getD d "" ∈ labels := by
        have hd' : d < labels.length := by omega
        rw [List.getD_eq_getElem?_getD, List.getElem?_eq_getElem hd']; exact List.getElem_mem hd'
      rw [Bool.eq_iff_iff]
      simp only [List.contains_iff_mem, List.mem_filter]
      constructor
      · intro hh; exact hh.1
      · intro hh; exact ⟨hh, by simpa using hmem⟩
    have hk0 : (dims.filter (fun x => labels.contains x)).contains (labels.getD d0 "") = false := by
      rw [hrem d0 hd0k]
      have := (List.mem_filter.mp (by rw [hKdef] at hd0K; exact hd0K)).2
      simpa using this
    have hg := writeReducedAnc_grid (sizeFn S) R S.length (fun d => values.getD d []) labels units
      (dims.filter (fun x => labels.contains x)) h.1 (fun e he => (hpos e he).2) hl d0 hd0k hk0
    simp only [] at hg
    have hKeq : (List.range S.length).filter (fun d => !(dims.filter (fun x => labels.contains x)).contains (labels.getD d "")) = K := by
      rw [hKdef]
      apply List.filter_congr
      intro d hd
      rw [hrem d (List.mem_range.mp hd)]
    rw [hKeq] at hg
    have hgm : gridMatrix S R = (List.range S.length).map (gridRow (sizeFn S) R) := rfl
    have hvm : valueMatrix S R values = (List.range S.length).map (fun d => (gridRow (sizeFn S) R d).map (fun i => (values.getD d []).getD i 0)) := rfl
    rw [hgm, hvm, hg]
    -- the sizes with the removed dimensions set to 1
    have hf : ∀ d ∈ K, s' (sizeFn S) (keepPred (fun d => (dims.filter (fun x => labels.contains x)).contains (labels.getD d ""))) d = sizeFn S d := by
      intro d hd
      apply s'_kept
      have hdk := hKlt d hd
      show (dims.filter (fun x => labels.contains x)).contains (labels.getD d "") = false
      rw [hrem d hdk]
      have := (List.mem_filter.mp (by rw [hKdef] at hd; exact hd)).2
      simpa using this
    have hone : ∀ e ∈ R, K.contains e = false →
        s' (sizeFn S) (keepPred (fun d => (dims.filter (fun x => labels.contains x)).contains (labels.getD d ""))) e = 1 := by
      intro e he hc
      have hek := (hpos e he).1
      apply s'_removed _ _ _ _ (hpos e he).2
      show (dims.filter (fun x => labels.contains x)).contains (labels.getD e "") = true
      rw [hrem e hek]
      have hnotin : e ∉ K := by simpa using hc
      rw [hKdef] at hnotin
      have : ¬ ((!dims.contains (labels.getD e "")) = true) := fun hh =>
        hnotin (List.mem_filter.mpr ⟨List.mem_range.mpr hek, hh⟩)
      simpa using this
    obtain ⟨k1, k2⟩ := key _ hf hone
    rw [k1, k2]
  · have hany' : dims.any (fun d => labels.contains d) = false := by simpa using hany
    simp only [hany', Bool.false_eq_true, if_false]
    -- nothing of this side is reduced: K = all dimensions
    have hKall : K = List.range S.length := by
      rw [hKdef, List.filter_eq_self]
      intro d hd
      have hd' : d < labels.length := by rw [hl]; exact List.mem_range.mp hd
      have hmem : labels.getD d "" ∈ labels := by
        rw [List.getD_eq_getElem?_getD, List.getElem?_eq_getElem hd']; exact List.getElem_mem hd'
      have : ¬ labels.getD d "" ∈ dims := by
        intro hin
        have : dims.any (fun d => labels.contains d) = true := by
          rw [List.any_eq_true]; exact ⟨_, hin, by simpa using hmem⟩
        rw [hany'] at this; cases this
      simpa using this
    have hone : ∀ e ∈ R, K.contains e = false → sizeFn S e = 1 := by
      intro e he hc
      have : e ∈ K := by rw [hKall]; exact List.mem_range.mpr (hpos e he).1
      have : K.contains e = true := by simpa using this
      rw [hc] at this; cases this
    obtain ⟨k1, k2⟩ := key (sizeFn S) (fun _ _ => rfl) hone
    have hgm : gridMatrix S R = K.map (gridRow (sizeFn S) R) := by rw [hKall]; rfl
    have hvm : valueMatrix S R values = K.map (fun d => (gridRow (sizeFn S) R d).map (fun i => (values.getD d []).getD i 0)) := by
      rw [hKall]; rfl
    have hlab : labels = K.map (fun d => labels.getD d "") := by
      rw [hKall, ← hl]
      apply List.ext_getElem
      · simp
      · intro i h1 h2; simp [List.getD_eq_getElem?_getD, List.getElem?_eq_getElem h1]
    rw [hgm, hvm, k1, k2]
    have hun : units = K.map (fun d => units.getD d "") := by
      rw [hKall, ← hu]
      apply List.ext_getElem
      · simp
      · intro i h1 h2; simp [List.getD_eq_getElem?_getD, List.getElem?_eq_getElem h1]
    congr 1

end Usid.ReduceAnc
