import Usid.Proofs.ReduceAnc
/-! Glue for the on-file form of `reduce`: double transposition of a rectangular matrix, and which axes of the
    file-order N-D form remain. -/
namespace Usid.ReduceFile
open Usid Usid.Grid Usid.Dims Usid.C09 Usid.ReduceAnc

theorem transposeM_transposeM (m : List (List Nat)) (c : Nat) (hm : m ≠ []) (hc : 0 < c)
    (hrows : ∀ row ∈ m, row.length = c) : transposeM (transposeM m) = m := by
  cases m with
  | nil => exact absurd rfl hm
  | cons r0 rest =>
    have hr0 : r0.length = c := hrows r0 List.mem_cons_self
    obtain ⟨c', hc'⟩ : ∃ c', c = c' + 1 := ⟨c - 1, by omega⟩
    have h1 : transposeM (r0 :: rest) = (List.range c).map (fun j => (r0 :: rest).map (fun row => row.getD j 0)) := by
      simp [transposeM, hr0]
    rw [h1]
    have h2 : (List.range c).map (fun j => (r0 :: rest).map (fun row => row.getD j 0)) =
        ((r0 :: rest).map (fun row => row.getD 0 0)) ::
          ((List.range c').map (fun j => (r0 :: rest).map (fun row => row.getD (j + 1) 0))) := by
      rw [hc', List.range_succ_eq_map]; simp
    rw [h2]
    simp only [transposeM, List.length_map, List.length_cons]
    rw [← h2]
    apply List.ext_getElem
    · simp
    · intro i hi1 hi2
      simp only [List.getElem_map, List.getElem_range]
      have hi : i < (r0 :: rest).length := hi2
      have hlen : ((r0 :: rest)[i]).length = c := hrows _ (List.getElem_mem hi)
      apply List.ext_getElem
      · simp [hlen]
      · intro j hj1 hj2
        have hj : j < c := by simpa using hj1
        simp only [List.getElem_map, List.getElem_range]
        rw [List.getD_eq_getElem?_getD, List.getElem?_map, List.getElem?_eq_getElem hi]
        simp only [Option.map_some, Option.getD_some]
        rw [List.getD_eq_getElem?_getD, List.getElem?_eq_getElem hj2]
        rfl

theorem axes_contains (labels dims : List String) (hnd : labels.Nodup) (hdims : ∀ d ∈ dims, d ∈ labels)
    (a : Nat) (ha : a < labels.length) :
    (dims.map (fun d => labels.findIdx (· == d))).contains a = dims.contains (labels.getD a "") := by
  have hga : labels.getD a "" = labels[a] := by
    rw [List.getD_eq_getElem?_getD, List.getElem?_eq_getElem ha]; rfl
  rw [Bool.eq_iff_iff]
  simp only [List.contains_iff_mem, List.mem_map]
  constructor
  · rintro ⟨d, hd, rfl⟩
    have hdl := hdims d hd
    have hlt : labels.findIdx (· == d) < labels.length := List.findIdx_lt_length_of_exists ⟨d, hdl, by simp⟩
    have hget := List.findIdx_getElem (w := hlt)
    have : labels[labels.findIdx (· == d)] = d := by simpa using hget
    rw [List.getD_eq_getElem?_getD, List.getElem?_eq_getElem hlt]
    simpa [this] using hd
  · intro hin
    refine ⟨labels[a], by rw [← hga]; exact hin, ?_⟩
    have := hnd.idxOf_getElem a ha
    simpa [List.idxOf] using this

theorem keep_axes (plabs slabs dims : List String) (hnd : (plabs ++ slabs).Nodup)
    (hdims : ∀ d ∈ dims, d ∈ plabs ++ slabs) :
    (List.range (plabs.length + slabs.length)).filter
        (fun a => !(dims.map (fun d => (plabs ++ slabs).findIdx (· == d))).contains a) =
      keptOf plabs dims ++ (keptOf slabs dims).map (· + plabs.length) := by
  have e : List.range (plabs.length + slabs.length) =
      List.range plabs.length ++ (List.range slabs.length).map (· + plabs.length) := by
    apply List.ext_getElem
    · simp
    · intro i h1 h2
      simp only [List.getElem_range]
      by_cases hi : i < plabs.length
      · rw [List.getElem_append_left (by simpa using hi)]; simp
      · rw [List.getElem_append_right (by simpa using hi)]
        simp only [List.length_range, List.getElem_map, List.getElem_range]; omega
  rw [e, List.filter_append, List.filter_map]
  unfold keptOf
  congr 1
  · apply List.filter_congr
    intro a ha
    have ha' := List.mem_range.mp ha
    rw [axes_contains _ dims hnd hdims a (by simp; omega)]
    have : (plabs ++ slabs).getD a "" = plabs.getD a "" := by
      simp [List.getD_eq_getElem?_getD, List.getElem?_append_left ha']
    rw [this]
  · congr 1
    apply List.filter_congr
    intro b hb
    have hb' := List.mem_range.mp hb
    simp only [Function.comp]
    rw [axes_contains _ dims hnd hdims (b + plabs.length) (by simp; omega)]
    have : (plabs ++ slabs).getD (b + plabs.length) "" = slabs.getD b "" := by
      simp [List.getD_eq_getElem?_getD, List.getElem?_append_right]
    rw [this]

end Usid.ReduceFile
