import Usid.Proofs.Reshape
/-! Dropping size-1 dimensions from a regular grid and renumbering the remaining ones: the kept rows are the
    rows of the regular grid over the kept dimensions, in the same relative rate order. -/
namespace Usid.Relabel
open Usid Usid.Grid Usid.C09

theorem prod_filter_ones (f : Nat → Nat) (p : Nat → Bool) : ∀ (l : List Nat),
    (∀ e ∈ l, p e = false → f e = 1) → (l.map f).prod = ((l.filter p).map f).prod
  | [], _ => rfl
  | a :: l, h => by
    have ih := prod_filter_ones f p l (fun e he => h e (List.mem_cons_of_mem _ he))
    by_cases hp : p a = true
    · simp [List.filter, hp, ih]
    · have hp' : p a = false := by simpa using hp
      have := h a List.mem_cons_self hp'
      simp [List.filter, hp', this, ih]

theorem takeWhile_filter (p : Nat → Bool) (d : Nat) (hd : p d = true) : ∀ (l : List Nat),
    (l.filter p).takeWhile (fun e => e != d) = (l.takeWhile (fun e => e != d)).filter p
  | [] => rfl
  | a :: l => by
    have ih := takeWhile_filter p d hd l
    by_cases had : a = d
    · subst had
      simp [List.filter, hd, List.takeWhile]
    · have hne : (a != d) = true := by simpa using had
      by_cases hp : p a = true
      · simp [List.filter, hp, List.takeWhile, hne, ih]
      · have hp' : p a = false := by simpa using hp
        simp [List.filter, hp', List.takeWhile, hne, ih]

theorem takeWhile_map_inj (idx : Nat → Nat) (d : Nat) : ∀ (l : List Nat),
    (∀ e ∈ l, idx e = idx d → e = d) →
    (l.map idx).takeWhile (fun j => j != idx d) = (l.takeWhile (fun e => e != d)).map idx
  | [], _ => rfl
  | a :: l, h => by
    have ih := takeWhile_map_inj idx d l (fun e he => h e (List.mem_cons_of_mem _ he))
    by_cases had : a = d
    · subst had; simp [List.takeWhile]
    · have hne : (a != d) = true := by simpa using had
      have hne2 : (idx a != idx d) = true := by
        have : idx a ≠ idx d := fun e => had (h a List.mem_cons_self e)
        simpa using this
      simp [List.takeWhile, hne, hne2, ih]

theorem map_idxOf_self (K : List Nat) (hK : K.Nodup) : K.map (fun d => K.idxOf d) = List.range K.length := by
  apply List.ext_getElem
  · simp
  · intro j h1 h2
    have hj : j < K.length := by simpa using h1
    simp only [List.getElem_map, List.getElem_range]
    exact hK.idxOf_getElem j hj

/-- the renumbered rate order of the kept dimensions -/
def rateOf (rate K : List Nat) : List Nat := (rate.filter (fun d => K.contains d)).map (fun d => K.idxOf d)

theorem rateOf_perm (rate K : List Nat) (k : Nat) (hperm : rate.Perm (List.range k)) (q : Nat → Bool)
    (hK : K = (List.range k).filter q) : (rateOf rate K).Perm (List.range K.length) := by
  have hKnd : K.Nodup := by rw [hK]; exact List.nodup_range.filter _
  unfold rateOf
  have h1 : (rate.filter (fun d => K.contains d)).Perm ((List.range k).filter (fun d => K.contains d)) :=
    hperm.filter _
  have h2 : (List.range k).filter (fun d => K.contains d) = K := by
    rw [hK]
    apply List.filter_congr
    intro d hd
    by_cases hq : q d = true
    · have : d ∈ (List.range k).filter q := List.mem_filter.mpr ⟨hd, hq⟩
      simp [hq, this]
    · have hq' : q d = false := by simpa using hq
      simp [hq']
  rw [h2] at h1
  have h3 := h1.map (fun d => K.idxOf d)
  rw [map_idxOf_self K hKnd] at h3
  exact h3

/-- **Kept rows are a regular grid.**  `f` gives the sizes by dimension id, `rate` the rate order (duplicate
    free); every dimension outside `K` has size 1.  Then for the j-th kept dimension `K[j]`, stride and size
    - hence the whole index row - coincide with those of dimension j of the grid with sizes `K.map f` and the
    renumbered rate order. -/
theorem kept_row (f : Nat → Nat) (rate K : List Nat) (hK : K.Nodup)
    (hone : ∀ e ∈ rate, K.contains e = false → f e = 1) (j : Nat) (hj : j < K.length) :
    gridRow f rate (K.getD j 0) = gridRow (sizeFn (K.map f)) (rateOf rate K) j := by
  have hmemj : K.getD j 0 ∈ K := by
    rw [List.getD_eq_getElem?_getD, List.getElem?_eq_getElem hj]; exact List.getElem_mem hj
  have hidxj : K.idxOf (K.getD j 0) = j := by
    rw [List.getD_eq_getElem?_getD, List.getElem?_eq_getElem hj]
    exact hK.idxOf_getElem j hj
  have hg : ∀ e ∈ K, sizeFn (K.map f) (K.idxOf e) = f e := by
    intro e he
    unfold sizeFn
    exact Usid.Reshape.getD_idxOf_map f K e he 1
  have hmapf : ∀ (l : List Nat), (∀ e ∈ l, e ∈ K) →
      ((l.map (fun d => K.idxOf d)).map (sizeFn (K.map f))) = l.map f := by
    intro l hl
    rw [List.map_map]
    apply List.map_congr_left
    intro e he
    exact hg e (hl e he)
  have hnp : npoints (sizeFn (K.map f)) (rateOf rate K) = npoints f rate := by
    unfold npoints rateOf
    rw [hmapf _ (fun e he => by simpa using (List.mem_filter.mp he).2)]
    exact (prod_filter_ones f (fun d => K.contains d) rate hone).symm
  have hst : strideBefore (sizeFn (K.map f)) (rateOf rate K) j = strideBefore f rate (K.getD j 0) := by
    unfold strideBefore rateOf
    have hinj : ∀ e ∈ rate.filter (fun d => K.contains d), K.idxOf e = K.idxOf (K.getD j 0) → e = K.getD j 0 := by
      intro e he heq
      have heK : e ∈ K := by simpa using (List.mem_filter.mp he).2
      have h1 := List.getElem_idxOf (List.idxOf_lt_length_of_mem heK)
      have h2 := List.getElem_idxOf (List.idxOf_lt_length_of_mem hmemj)
      rw [← h1, ← h2]
      simp only [heq]
    have := takeWhile_map_inj (fun d => K.idxOf d) (K.getD j 0) _ hinj
    simp only [hidxj] at this
    rw [this, takeWhile_filter (fun d => K.contains d) (K.getD j 0) (by simpa using hmemj) rate]
    rw [hmapf _ (fun e he => by simpa using (List.mem_filter.mp he).2)]
    exact (prod_filter_ones f (fun d => K.contains d) _
      (fun e he => hone e ((List.takeWhile_sublist _).subset he))).symm
  unfold gridRow
  rw [hnp]
  apply List.map_congr_left
  intro r _
  unfold gridIdx
  rw [hst]
  have := hg _ hmemj
  rw [hidxj] at this
  rw [this]

end Usid.Relabel
