import Usid.Properties.C09
import Usid.Proofs.Translate
import Usid.Model.Reshape
/-! Lemmas for the coordinate-map theorems of C01 / C10: mixed radix under any order of the dimensions,
    dimensionality along a given order, label-driven axis swaps. -/
namespace Usid.Reshape
open Usid Usid.Grid Usid.Dims Usid.C09

theorem stride_cons_self (sz : Nat → Nat) (d : Nat) (L : List Nat) : strideBefore sz (d :: L) d = 1 := by
  simp [strideBefore, List.takeWhile]

theorem stride_cons_ne (sz : Nat → Nat) (d e : Nat) (L : List Nat) (h : e ≠ d) :
    strideBefore sz (d :: L) e = sz d * strideBefore sz L e := by
  have : (d != e) = true := by simpa using (Ne.symm h)
  simp [strideBefore, List.takeWhile, this]

/-- K1: the digits of `r` read along ANY duplicate-free order of the dimensions (fastest first), listed
    slowest first, ravel back to `r` (modulo the number of points) -/
theorem radix_any_order (sz : Nat → Nat) : ∀ (ord : List Nat) (r : Nat), ord.Nodup →
    ravelC (ord.reverse.map sz) (ord.reverse.map (fun d => r / strideBefore sz ord d % sz d)) =
      r % (ord.map sz).prod
  | [], r, _ => by simp [ravelC, Nat.mod_one]
  | d :: L, r, hnd => by
    have hdL : d ∉ L := (List.nodup_cons.mp hnd).1
    have hL : L.Nodup := (List.nodup_cons.mp hnd).2
    have ih := radix_any_order sz L (r / sz d) hL
    have hcongr : L.reverse.map (fun e => r / strideBefore sz (d :: L) e % sz e) =
        L.reverse.map (fun e => r / sz d / strideBefore sz L e % sz e) := by
      apply List.map_congr_left
      intro e he
      have hne : e ≠ d := fun h => hdL (h ▸ List.mem_reverse.mp he)
      rw [stride_cons_ne sz d e L hne, Nat.div_div_eq_div_mul]
    rw [List.reverse_cons, List.map_append, List.map_append,
      ravelC_append _ _ _ _ (by simp), hcongr, ih]
    simp only [List.map_cons, List.map_nil, ravelC, List.prod_cons, List.prod_nil, Nat.mul_one, Nat.add_zero,
      stride_cons_self, Nat.div_one]
    rw [Nat.mod_mul, Nat.mul_comm, Nat.add_comm]

end Usid.Reshape

namespace Usid.Reshape
open Usid Usid.Grid Usid.Dims Usid.C09

theorem eraseDups_length_le : ∀ (n : Nat) (l : List Nat), l.length ≤ n → l.eraseDups.length ≤ l.length
  | 0, l, h => by
    have : l = [] := List.length_eq_zero_iff.mp (by omega)
    subst this; simp
  | n + 1, [], _ => by simp
  | n + 1, a :: as, h => by
    rw [List.eraseDups_cons]
    have hf := List.length_filter_le (fun b => !b == a) as
    have := eraseDups_length_le n (as.filter (fun b => !b == a)) (by simp at h; omega)
    simp only [List.length_cons]
    omega

/-- `get_dimensionality` along any permutation of the dimensions of a regular grid -/
theorem dims_along (sizes rate ord : List Nat) (h : ValidGrid sizes rate)
    (hk : sizes.length ≤ npoints (sizeFn sizes) rate) (hord : ord.Perm (List.range sizes.length)) :
    getDimensionality (gridMatrix sizes rate) (some ord) = .ok (ord.map (sizeFn sizes)) := by
  obtain ⟨hnd, hpos, hall⟩ := valid_facts sizes rate h
  unfold getDimensionality
  rw [gridMatrix_orient sizes rate hk]
  have hlen : (gridMatrix sizes rate).length = sizes.length := by simp [gridMatrix]
  have h1 : ¬ ord.eraseDups.length > (gridMatrix sizes rate).length := by
    have := eraseDups_length_le ord.length ord (Nat.le_refl _)
    rw [hlen, ← List.length_range (n := sizes.length), ← hord.length_eq]; omega
  have h2 : ((List.range (gridMatrix sizes rate).length).all (fun i => ord.contains i) &&
      ord.all (fun i => decide (i < (gridMatrix sizes rate).length))) = true := by
    rw [hlen, Bool.and_eq_true, List.all_eq_true, List.all_eq_true]
    constructor
    · intro i hi
      simpa using hord.symm.subset hi
    · intro i hi
      simpa using hord.subset hi
  simp only [h1, if_false, h2, Bool.not_true, Bool.false_eq_true]
  congr 1
  apply List.map_congr_left
  intro d hd
  have hdk : d < sizes.length := List.mem_range.mp (hord.subset hd)
  have : (gridMatrix sizes rate).getD d [] = gridRow (sizeFn sizes) rate d := by
    unfold gridMatrix
    rw [List.getD_eq_getElem?_getD, List.getElem?_map, List.getElem?_range hdk]; rfl
  rw [this]
  obtain ⟨pre, post, e, hpre⟩ := split_of_mem rate d (hall d hdk)
  subst e
  exact distinct_gridRow _ pre post d hpre (fun x hx => (hpos x hx).2)

/-- index of dimension `d` at point `r`, computed along the reported order instead of the rate order -/
theorem gridIdx_along (sizes rate : List Nat) (h : ValidGrid sizes rate)
    (hk : sizes.length ≤ npoints (sizeFn sizes) rate) (r d : Nat) (hd : d < sizes.length) :
    gridIdx (sizeFn sizes) rate r d =
      r / strideBefore (sizeFn sizes) (getSortOrder (gridMatrix sizes rate)) d % sizeFn sizes d := by
  obtain ⟨_, hpos, hall⟩ := valid_facts sizes rate h
  unfold gridIdx
  by_cases hbig : 1 < sizeFn sizes d
  · rw [(order_is_rate sizes rate h hk).2.1 d hd hbig]
  · have : sizeFn sizes d = 1 := by have := (hpos d (hall d hd)).2; omega
    rw [this, Nat.mod_one, Nat.mod_one]

/-- the digits of a point along the reported order, slowest first, ravel back to the point -/
theorem ravel_sorted_coords (sizes rate : List Nat) (h : ValidGrid sizes rate)
    (hk : sizes.length ≤ npoints (sizeFn sizes) rate) (r : Nat) (hr : r < npoints (sizeFn sizes) rate) :
    let ord := getSortOrder (gridMatrix sizes rate)
    ravelC (ord.reverse.map (sizeFn sizes)) (ord.reverse.map (fun d => gridIdx (sizeFn sizes) rate r d)) = r := by
  intro ord
  have hperm := (order_is_rate sizes rate h hk).1
  obtain ⟨hnd, hpos, _⟩ := valid_facts sizes rate h
  have hcongr : ord.reverse.map (fun d => gridIdx (sizeFn sizes) rate r d) =
      ord.reverse.map (fun d => r / strideBefore (sizeFn sizes) ord d % sizeFn sizes d) := by
    apply List.map_congr_left
    intro d hd
    exact gridIdx_along sizes rate h hk r d (hpos d (hperm.subset (List.mem_reverse.mp hd))).1
  rw [hcongr, radix_any_order (sizeFn sizes) ord r (hperm.nodup_iff.mpr hnd)]
  have : (ord.map (sizeFn sizes)).prod = npoints (sizeFn sizes) rate := (hperm.map _).prod_nat
  rw [this, Nat.mod_eq_of_lt hr]

end Usid.Reshape
