import Usid.Properties.C09
import Usid.Proofs.Translate
import Usid.Model.Reshape
/-! Lemmas for the coordinate-map theorems of C01 / C10: mixed radix under any order of the dimensions,
    dimensionality along a given order, label-driven axis swaps. -/
namespace Usid.Reshape
open Usid Usid.Grid Usid.Dims Usid.C09

theorem stride_cons_self (sz : Nat → Nat) (d : Nat) (L : List Nat) : strideBefore sz (d :: L) d = 1 := by
  simp [strideBefore, List.takeWhile]

theorem stride_cons_ne (sz : Nat → Nat) (d e : Nat) (L : List Nat) (h : e ≠ d) :
    strideBefore sz (d :: L) e = sz d * strideBefore sz L e := by
  have : (d != e) = true := by simpa using (Ne.symm h)
  simp [strideBefore, List.takeWhile, this]

/-- K1: the digits of `r` read along ANY duplicate-free order of the dimensions (fastest first), listed
    slowest first, ravel back to `r` (modulo the number of points) -/
theorem radix_any_order (sz : Nat → Nat) : ∀ (ord : List Nat) (r : Nat), ord.Nodup →
    ravelC (ord.reverse.map sz) (ord.reverse.map (fun d => r / strideBefore sz ord d % sz d)) =
      r % (ord.map sz).prod
  | [], r, _ => by simp [ravelC, Nat.mod_one]
  | d :: L, r, hnd => by
    have hdL : d ∉ L := (List.nodup_cons.mp hnd).1
    have hL : L.Nodup := (List.nodup_cons.mp hnd).2
    have ih := radix_any_order sz L (r / sz d) hL
    have hcongr : L.reverse.map (fun e => r / strideBefore sz (d :: L) e % sz e) =
        L.reverse.map (fun e => r / sz d / strideBefore sz L e % sz e) := by
      apply List.map_congr_left
      intro e he
      have hne : e ≠ d := fun h => hdL (h ▸ List.mem_reverse.mp he)
      rw [stride_cons_ne sz d e L hne, Nat.div_div_eq_div_mul]
    rw [List.reverse_cons, List.map_append, List.map_append,
      ravelC_append _ _ _ _ (by simp), hcongr, ih]
    simp only [List.map_cons, List.map_nil, ravelC, List.prod_cons, List.prod_nil, Nat.mul_one, Nat.add_zero,
      stride_cons_self, Nat.div_one]
    rw [Nat.mod_mul, Nat.mul_comm, Nat.add_comm]

end Usid.Reshape

namespace Usid.Reshape
open Usid Usid.Grid Usid.Dims Usid.C09

theorem eraseDups_length_le : ∀ (n : Nat) (l : List Nat), l.length ≤ n → l.eraseDups.length ≤ l.length
  | 0, l, h => by
    have : l = [] := List.length_eq_zero_iff.mp (by omega)
    subst this; simp
  | n + 1, [], _ => by simp
  | n + 1, a :: as, h => by
    rw [List.eraseDups_cons]
    have hf := List.length_filter_le (fun b => !b == a) as
    have := eraseDups_length_le n (as.filter (fun b => !b == a)) (by simp at h; omega)
    simp only [List.length_cons]
    omega

/-- `get_dimensionality` along any permutation of the dimensions of a regular grid -/
theorem dims_along (sizes rate ord : List Nat) (h : ValidGrid sizes rate)
    (hk : sizes.length ≤ npoints (sizeFn sizes) rate) (hord : ord.Perm (List.range sizes.length)) :
    getDimensionality (gridMatrix sizes rate) (some ord) = .ok (ord.map (sizeFn sizes)) := by
  obtain ⟨hnd, hpos, hall⟩ := valid_facts sizes rate h
  unfold getDimensionality
  rw [gridMatrix_orient sizes rate hk]
  have hlen : (gridMatrix sizes rate).length = sizes.length := by simp [gridMatrix]
  have h1 : ¬ ord.eraseDups.length > (gridMatrix sizes rate).length := by
    have := eraseDups_length_le ord.length ord (Nat.le_refl _)
    rw [hlen, ← List.length_range (n := sizes.length), ← hord.length_eq]; omega
  have h2 : ((List.range (gridMatrix sizes rate).length).all (fun i => ord.contains i) &&
      ord.all (fun i => decide (i < (gridMatrix sizes rate).length))) = true := by
    rw [hlen, Bool.and_eq_true, List.all_eq_true, List.all_eq_true]
    constructor
    · intro i hi
      simpa using hord.symm.subset hi
    · intro i hi
      simpa using hord.subset hi
  simp only [h1, if_false, h2, Bool.not_true, Bool.false_eq_true]
  congr 1
  apply List.map_congr_left
  intro d hd
  have hdk : d < sizes.length := List.mem_range.mp (hord.subset hd)
  have : (gridMatrix sizes rate).getD d [] = gridRow (sizeFn sizes) rate d := by
    unfold gridMatrix
    rw [List.getD_eq_getElem?_getD, List.getElem?_map, List.getElem?_range hdk]; rfl
  rw [this]
  obtain ⟨pre, post, e, hpre⟩ := split_of_mem rate d (hall d hdk)
  subst e
  exact distinct_gridRow _ pre post d hpre (fun x hx => (hpos x hx).2)

/-- index of dimension `d` at point `r`, computed along the reported order instead of the rate order -/
theorem gridIdx_along (sizes rate : List Nat) (h : ValidGrid sizes rate)
    (hk : sizes.length ≤ npoints (sizeFn sizes) rate) (r d : Nat) (hd : d < sizes.length) :
    gridIdx (sizeFn sizes) rate r d =
      r / strideBefore (sizeFn sizes) (getSortOrder (gridMatrix sizes rate)) d % sizeFn sizes d := by
  obtain ⟨_, hpos, hall⟩ := valid_facts sizes rate h
  unfold gridIdx
  by_cases hbig : 1 < sizeFn sizes d
  · rw [(order_is_rate sizes rate h hk).2.1 d hd hbig]
  · have : sizeFn sizes d = 1 := by have := (hpos d (hall d hd)).2; omega
    rw [this, Nat.mod_one, Nat.mod_one]

/-- the digits of a point along the reported order, slowest first, ravel back to the point -/
theorem ravel_sorted_coords (sizes rate : List Nat) (h : ValidGrid sizes rate)
    (hk : sizes.length ≤ npoints (sizeFn sizes) rate) (r : Nat) (hr : r < npoints (sizeFn sizes) rate) :
    let ord := getSortOrder (gridMatrix sizes rate)
    ravelC (ord.reverse.map (sizeFn sizes)) (ord.reverse.map (fun d => gridIdx (sizeFn sizes) rate r d)) = r := by
  intro ord
  have hperm := (order_is_rate sizes rate h hk).1
  obtain ⟨hnd, hpos, _⟩ := valid_facts sizes rate h
  have hcongr : ord.reverse.map (fun d => gridIdx (sizeFn sizes) rate r d) =
      ord.reverse.map (fun d => r / strideBefore (sizeFn sizes) ord d % sizeFn sizes d) := by
    apply List.map_congr_left
    intro d hd
    exact gridIdx_along sizes rate h hk r d (hpos d (hperm.subset (List.mem_reverse.mp hd))).1
  rw [hcongr, radix_any_order (sizeFn sizes) ord r (hperm.nodup_iff.mpr hnd)]
  have : (ord.map (sizeFn sizes)).prod = npoints (sizeFn sizes) rate := (hperm.map _).prod_nat
  rw [this, Nat.mod_eq_of_lt hr]

end Usid.Reshape

namespace Usid.Reshape
open Usid Usid.Translate

/-! ### permutations of `range k` and their inverses -/

theorem findIdx_congr_mem {β : Type} (p q : β → Bool) : ∀ (l : List β), (∀ x ∈ l, p x = q x) → l.findIdx p = l.findIdx q
  | [], _ => rfl
  | x :: xs, h => by
    simp only [List.findIdx_cons, h x (by simp)]
    rw [findIdx_congr_mem p q xs (fun y hy => h y (List.mem_cons_of_mem _ hy))]

theorem perm_facts (k : Nat) (p : List Nat) (h : p.Perm (List.range k)) :
    p.Nodup ∧ p.length = k ∧ (∀ x ∈ p, x < k) ∧ (∀ j, j < k → j ∈ p) :=
  ⟨h.nodup_iff.mpr List.nodup_range, by rw [h.length_eq, List.length_range],
   fun x hx => List.mem_range.mp (h.subset hx), fun j hj => h.symm.subset (List.mem_range.mpr hj)⟩

theorem inversePerm_getElem (k : Nat) (p : List Nat) (j : Nat) (hj : j < k) :
    (inversePerm k p)[j]'(by simp [inversePerm, hj]) = p.idxOf j := by
  simp [inversePerm]

/-- the inverse of a permutation of `range k` is a permutation of `range k` -/
theorem inversePerm_perm (k : Nat) (p : List Nat) (h : p.Perm (List.range k)) :
    (inversePerm k p).Perm (List.range k) := by
  obtain ⟨hnd, hlen, hlt, hmem⟩ := perm_facts k p h
  have hq : (inversePerm k p).Nodup := by
    unfold inversePerm
    show List.Pairwise (· ≠ ·) _
    rw [List.pairwise_map]
    apply List.Pairwise.imp_of_mem _ (List.nodup_range (n := k))
    intro a b ha hb hne hab
    have ha' := hmem a (List.mem_range.mp ha)
    have hb' := hmem b (List.mem_range.mp hb)
    have e1 := List.getElem_idxOf (List.idxOf_lt_length_of_mem ha')
    have e2 := List.getElem_idxOf (List.idxOf_lt_length_of_mem hb')
    apply hne
    rw [← e1, ← e2]
    simp only [hab]
  rw [List.perm_ext_iff_of_nodup hq List.nodup_range]
  intro a
  simp only [inversePerm, List.mem_map, List.mem_range]
  constructor
  · rintro ⟨j, hj, rfl⟩
    rw [← hlen]; exact List.idxOf_lt_length_of_mem (hmem j hj)
  · intro ha
    have hak : a < p.length := by rw [hlen]; exact ha
    exact ⟨p[a], hlt _ (List.getElem_mem hak), hnd.idxOf_getElem a hak⟩

/-- inverting twice gives the permutation back -/
theorem inversePerm_involutive (k : Nat) (p : List Nat) (h : p.Perm (List.range k)) :
    inversePerm k (inversePerm k p) = p := by
  obtain ⟨hnd, hlen, hlt, hmem⟩ := perm_facts k p h
  have hqperm := inversePerm_perm k p h
  obtain ⟨hqnd, hqlen, _, _⟩ := perm_facts k _ hqperm
  apply List.ext_getElem
  · simp [inversePerm, hlen]
  · intro a h1 h2
    have hak : a < k := by rw [← hlen]; exact h2
    rw [inversePerm_getElem k _ a hak]
    -- q[p[a]] = a, and q has no duplicates
    have hpa : p[a] < k := hlt _ (List.getElem_mem h2)
    have hq1 : (inversePerm k p)[p[a]]'(by rw [hqlen]; exact hpa) = a := by
      rw [inversePerm_getElem k p _ hpa]; exact hnd.idxOf_getElem a h2
    have := hqnd.idxOf_getElem p[a] (by rw [hqlen]; exact hpa)
    rw [hq1] at this
    exact this

/-- the label-driven axis swap of `reshape_to_n_dims`: looking every file-order label up in the list of
    labels arranged by `sigma` yields the inverse of `sigma` -/
theorem label_swap (k : Nat) (sigma : List Nat) (labs : List String) (h : sigma.Perm (List.range k))
    (hl : labs.length = k) (hnd : labs.Nodup) :
    labs.map (fun lab => (sigma.map (fun i => labs.getD i default)).findIdx (· == lab)) = inversePerm k sigma := by
  obtain ⟨_, hlen, hlt, _⟩ := perm_facts k sigma h
  apply List.ext_getElem
  · simp [inversePerm, hl]
  · intro j h1 h2
    have hjk : j < k := by simpa [inversePerm] using h2
    have hjl : j < labs.length := by rw [hl]; exact hjk
    rw [inversePerm_getElem k sigma j hjk, List.getElem_map, List.findIdx_map]
    show sigma.findIdx _ = sigma.findIdx (· == j)
    apply findIdx_congr_mem
    intro x hx
    have hxl : x < labs.length := by rw [hl]; exact hlt x hx
    simp only [Function.comp_apply, List.getD_eq_getElem?_getD, List.getElem?_eq_getElem hxl, Option.getD_some]
    by_cases hxj : x = j
    · subst hxj; simp
    · have : labs[x] ≠ labs[j] := fun e => hxj ((List.getElem_inj hnd).mp e)
      rw [beq_eq_false_iff_ne.mpr this, beq_eq_false_iff_ne.mpr hxj]

end Usid.Reshape

namespace Usid.Reshape
open Usid Usid.Translate

variable {α : Type} [Inhabited α]

theorem getD_idxOf_map {β : Type} (f : Nat → β) (sigma : List Nat) (j : Nat) (hj : j ∈ sigma) (dflt : β) :
    (sigma.map f).getD (sigma.idxOf j) dflt = f j := by
  have hlt := List.idxOf_lt_length_of_mem hj
  rw [List.getD_eq_getElem?_getD, List.getElem?_map, List.getElem?_eq_getElem hlt]
  simp only [Option.map_some, Option.getD_some, List.getElem_idxOf hlt]

/-- Going back from the slowest-first arrangement `sigma` to file order, the way `reshape_to_n_dims`
    does it (axes found by looking labels up): the result has the file-order shape and labels, and reading
    it at a file-order index reads the sorted array at that index rearranged by `sigma`. -/
theorem swap_back (nd : NDArr α) (k : Nat) (sigma : List Nat) (hperm : sigma.Perm (List.range k))
    (fshape : List Nat) (hfl : fshape.length = k) (hsh : nd.shape = sigma.map (fun i => fshape.getD i 1))
    (labs : List String) (hl : labs.length = k) (hnd : labs.Nodup) :
    let allLabels := sigma.map (fun i => labs.getD i default)
    let swap := labs.map (fun lab => allLabels.findIdx (· == lab))
    ∃ nd2, transposeND nd swap = .ok nd2 ∧ nd2.shape = fshape ∧ nd2.flat.length = fshape.prod ∧
      pick allLabels swap = labs ∧
      ∀ idx, InBounds fshape idx → nd2.get idx = nd.get (sigma.map (fun i => idx.getD i 0)) := by
  intro allLabels swap
  obtain ⟨hsnd, hslen, hslt, hsmem⟩ := perm_facts k sigma hperm
  have hswap : swap = inversePerm k sigma := label_swap k sigma labs hperm hl hnd
  have hqperm := inversePerm_perm k sigma hperm
  obtain ⟨_, hqlen, _, hqmem⟩ := perm_facts k _ hqperm
  have hshlen : nd.shape.length = k := by rw [hsh]; simp [hslen]
  have hinv : (List.range nd.shape.length).map (fun ax => swap.findIdx (· == ax)) = sigma := by
    rw [hshlen, hswap]
    exact inversePerm_involutive k sigma hperm
  have hshape2 : swap.map (fun ax => nd.shape.getD ax 1) = fshape := by
    rw [hswap, hsh]
    apply List.ext_getElem
    · simp [inversePerm, hfl]
    · intro j h1 h2
      have hjk : j < k := by rw [← hfl]; exact h2
      simp only [List.getElem_map, inversePerm, List.getElem_range]
      rw [getD_idxOf_map (fun i => fshape.getD i 1) sigma j (hsmem j hjk) 1]
      simp [List.getD_eq_getElem?_getD, List.getElem?_eq_getElem h2]
  refine ⟨nd.transpose swap sigma, ?_, ?_, ?_, ?_, ?_⟩
  · unfold transposeND
    have c1 : (swap.length != nd.shape.length) = false := by
      rw [hswap, hqlen, hshlen]; simp
    have c2 : (List.range nd.shape.length).all (fun ax => swap.contains ax) = true := by
      rw [List.all_eq_true]; intro ax hax
      rw [hshlen] at hax
      rw [hswap]
      simpa using hqmem ax (List.mem_range.mp hax)
    simp only [c1, c2, Bool.not_true, Bool.or_self, Bool.false_eq_true, if_false, hinv]
  · show swap.map (fun ax => nd.shape.getD ax 1) = fshape
    exact hshape2
  · show ((List.range (swap.map (fun ax => nd.shape.getD ax 1)).prod).map _).length = _
    rw [List.length_map, List.length_range, hshape2]
  · show swap.map (fun i => allLabels.getD i default) = labs
    rw [hswap]
    apply List.ext_getElem
    · simp [inversePerm, hl]
    · intro j h1 h2
      have hjk : j < k := by rw [← hl]; exact h2
      simp only [List.getElem_map, inversePerm, List.getElem_range]
      rw [getD_idxOf_map (fun i => labs.getD i default) sigma j (hsmem j hjk) default]
      simp [List.getD_eq_getElem?_getD, List.getElem?_eq_getElem h2]
  · intro idx hb
    have := transpose_get nd swap sigma idx (by rw [hshape2]; exact hb)
    rw [this]; rfl

end Usid.Reshape

namespace Usid.Reshape
open Usid Usid.Grid Usid.Dims Usid.C09

variable {α : Type} [Inhabited α]

/-- coordinates of point `r` of a regular grid along a list of dimensions -/
def coords (sizes rate : List Nat) (r : Nat) (dims : List Nat) : List Nat :=
  dims.map (fun d => gridIdx (sizeFn sizes) rate r d)

/-- the N-D array `reshape_to_n_dims` builds before any axis swap: `main` reshaped to the sizes of the
    dimensions listed slowest first, positions before spectroscopic -/
def sortedND (main : NDArr α) (pS pR sS sR : List Nat) : NDArr α :=
  main.reshape (((getSortOrder (gridMatrix pS pR)).map (sizeFn pS)).reverse ++
    ((getSortOrder (gridMatrix sS sR)).map (sizeFn sS)).reverse)

/-- the slowest-first arrangement of all dimensions: positions first, each side from its slowest to its
    fastest dimension (spectroscopic dimension numbers shifted by the number of position dimensions) -/
def sigmaOf (kp : Nat) (ordP ordS : List Nat) : List Nat := ordP.reverse ++ ordS.reverse.map (· + kp)

theorem sigma_perm (kp ks : Nat) (ordP ordS : List Nat) (hP : ordP.Perm (List.range kp)) (hS : ordS.Perm (List.range ks)) :
    (sigmaOf kp ordP ordS).Perm (List.range (kp + ks)) := by
  unfold sigmaOf
  have e : List.range (kp + ks) = List.range kp ++ (List.range ks).map (· + kp) := by
    rw [List.range_add]
    congr 1
    apply List.map_congr_left; intro a _; exact Nat.add_comm _ _
  rw [e]
  exact ((List.reverse_perm _).trans hP).append (((List.reverse_perm _).trans hS).map _)

theorem getD_append_shift {β : Type} (a b : List β) (d : Nat) (dflt : β) :
    (a ++ b).getD (d + a.length) dflt = b.getD d dflt := by
  rw [List.getD_eq_getElem?_getD, List.getD_eq_getElem?_getD, List.getElem?_append_right (by omega)]
  congr 2; omega

theorem getD_append_lt {β : Type} (a b : List β) (d : Nat) (dflt : β) (h : d < a.length) :
    (a ++ b).getD d dflt = a.getD d dflt := by
  rw [List.getD_eq_getElem?_getD, List.getD_eq_getElem?_getD, List.getElem?_append_left h]

/-- mapping a function of the concatenated file-order list over `sigma` splits into the two sides -/
theorem sigma_map {β : Type} (kp : Nat) (ordP ordS : List Nat) (a b : List β) (dflt : β) (ha : a.length = kp)
    (hP : ∀ d ∈ ordP, d < kp) :
    (sigmaOf kp ordP ordS).map (fun i => (a ++ b).getD i dflt) =
      ordP.reverse.map (fun d => a.getD d dflt) ++ ordS.reverse.map (fun d => b.getD d dflt) := by
  unfold sigmaOf
  rw [List.map_append, List.map_map]
  congr 1
  · apply List.map_congr_left
    intro d hd
    exact getD_append_lt a b d dflt (by rw [ha]; exact hP d (List.mem_reverse.mp hd))
  · apply List.map_congr_left
    intro d _
    simp only [Function.comp_apply]
    rw [← ha]; exact getD_append_shift a b d dflt

theorem inBounds_append : ∀ (s1 i1 s2 i2 : List Nat), InBounds s1 i1 → InBounds s2 i2 → InBounds (s1 ++ s2) (i1 ++ i2)
  | [], [], _, _, _, h => h
  | s :: ss, i :: is, s2, i2, h1, h2 => ⟨h1.1, inBounds_append ss is s2 i2 h1.2 h2⟩
  | [], _ :: _, _, _, h, _ => by simp [InBounds] at h
  | _ :: _, [], _, _, h, _ => by simp [InBounds] at h

theorem inBounds_of_forall : ∀ (s i : List Nat), s.length = i.length →
    (∀ j (h1 : j < s.length) (h2 : j < i.length), i[j] < s[j]) → InBounds s i
  | [], [], _, _ => trivial
  | s :: ss, i :: is, hl, h => by
    refine ⟨h 0 (by simp) (by simp), inBounds_of_forall ss is (by simpa using hl) ?_⟩
    intro j h1 h2
    exact h (j + 1) (by simp; omega) (by simp; omega)
  | [], _ :: _, hl, _ => by simp at hl
  | _ :: _, [], hl, _ => by simp at hl

/-- the file-order coordinates of a point are in bounds of the sizes -/
theorem coords_inBounds (sizes rate : List Nat) (h : ValidGrid sizes rate) (r : Nat) :
    InBounds sizes (coords sizes rate r (List.range sizes.length)) := by
  apply inBounds_of_forall
  · simp [coords]
  · intro j h1 h2
    simp only [coords, List.getElem_map, List.getElem_range, gridIdx]
    have hpos : 0 < sizes[j] := h.2 _ (List.getElem_mem h1)
    have : sizeFn sizes j = sizes[j] := by simp [sizeFn, List.getD_eq_getElem?_getD, List.getElem?_eq_getElem h1]
    rw [this]; exact Nat.mod_lt _ hpos


end Usid.Reshape

namespace Usid.Reshape
open Usid Usid.Grid Usid.C09

theorem sizes_eq_map (sizes : List Nat) : sizes = (List.range sizes.length).map (sizeFn sizes) := by
  apply List.ext_getElem
  · simp
  · intro i h1 h2
    simp [sizeFn, List.getD_eq_getElem?_getD, List.getElem?_eq_getElem h1]

/-- the number of points of a regular grid is the product of its sizes -/
theorem prod_sizes (sizes rate : List Nat) (h : ValidGrid sizes rate) : sizes.prod = npoints (sizeFn sizes) rate := by
  conv => lhs; rw [sizes_eq_map sizes]
  exact ((h.1.symm).map _).prod_nat

end Usid.Reshape

namespace Usid.Reshape
open Usid Usid.Grid Usid.C09

variable {α : Type} [Inhabited α]

/-- two arrays of the same shape with the same elements are the same array -/
theorem ndarr_ext (a b : NDArr α) (hs : a.shape = b.shape) (hla : a.flat.length = a.shape.prod)
    (hlb : b.flat.length = b.shape.prod) (h : ∀ idx, InBounds a.shape idx → a.get idx = b.get idx) : a = b := by
  cases a with | mk sa fa => cases b with | mk sb fb =>
  simp only at hs hla hlb h
  subst hs
  congr 1
  apply List.ext_getElem (by rw [hla, hlb])
  intro k h1 h2
  have hk : k < sa.prod := by rw [← hla]; exact h1
  have := h (unravelC sa k) (unravelC_inBounds sa k hk)
  simp only [NDArr.get, ravelC_unravelC sa k hk] at this
  rw [List.getD_eq_getElem?_getD, List.getD_eq_getElem?_getD, List.getElem?_eq_getElem h1,
    List.getElem?_eq_getElem h2] at this
  simpa using this

/-- every in-bounds multi-index is the coordinate vector of exactly the point obtained by ravelling it
    along the rate order: the grid enumerates the full Cartesian product -/
theorem coords_surj (sizes rate : List Nat) (h : ValidGrid sizes rate) (idx : List Nat) (hb : InBounds sizes idx) :
    ∃ r, r < npoints (sizeFn sizes) rate ∧ coords sizes rate r (List.range sizes.length) = idx := by
  obtain ⟨hnd, hpos, hall⟩ := valid_facts sizes rate h
  have hbsel := Usid.Translate.inBounds_map sizes idx hb rate.reverse
    (fun i hi => (hpos i (List.mem_reverse.mp hi)).1)
  refine ⟨ravelC (rate.reverse.map (fun d => sizes.getD d 1)) (rate.reverse.map (fun d => idx.getD d 0)), ?_, ?_⟩
  · have := ravelC_lt _ _ hbsel
    have e : (rate.reverse.map (fun d => sizes.getD d 1)).prod = npoints (sizeFn sizes) rate := by
      unfold npoints; rw [List.map_reverse, (List.reverse_perm _).prod_nat]; rfl
    rw [e] at this; exact this
  · have hlen := Usid.Translate.inBounds_length sizes idx hb
    apply List.ext_getElem
    · simp [coords, hlen]
    · intro d h1 h2
      have hdk : d < sizes.length := by rw [hlen]; exact h2
      simp only [coords, List.getElem_map, List.getElem_range, gridIdx]
      obtain ⟨pre, post, e, hpre⟩ := split_of_mem rate d (hall d hdk)
      have hrev : rate.reverse = post.reverse ++ d :: pre.reverse := by rw [e]; simp
      have hj : post.reverse.length < (rate.reverse.map (fun d => sizes.getD d 1)).length := by
        rw [hrev]; simp
      have hdig := Usid.Translate.ravelC_digit _ _ post.reverse.length hbsel hj
      have hdrop : ((rate.reverse.map (fun d => sizes.getD d 1)).drop (post.reverse.length + 1)).prod =
          strideBefore (sizeFn sizes) rate d := by
        have hs : strideBefore (sizeFn sizes) rate d = (pre.map (sizeFn sizes)).prod := by
          rw [e]; exact stride_split _ pre post d hpre
        have hd : ∀ (A B : List Nat) (x : Nat), (A ++ x :: B).drop (A.length + 1) = B := by
          intro A B x; simp
        rw [hs, hrev, List.map_append, List.map_cons]
        have := hd (post.reverse.map (fun d => sizes.getD d 1)) (pre.reverse.map (fun d => sizes.getD d 1)) (sizes.getD d 1)
        rw [List.length_map] at this
        rw [this, List.map_reverse]
        exact (List.reverse_perm _).prod_nat
      have hget1 : (rate.reverse.map (fun d => sizes.getD d 1)).getD post.reverse.length 1 = sizeFn sizes d := by
        rw [hrev]; simp [sizeFn, List.getD_eq_getElem?_getD]
      have hget2 : (rate.reverse.map (fun d => idx.getD d 0)).getD post.reverse.length 0 = idx[d] := by
        rw [hrev]
        simp [List.getD_eq_getElem?_getD, List.getElem?_eq_getElem h2]
      rw [hdrop, hget1, hget2] at hdig
      exact hdig

end Usid.Reshape
