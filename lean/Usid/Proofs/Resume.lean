import Usid.Proofs.Process
/-! Resuming after interruptions at the level of the two datasets (C04). -/
namespace Usid.Proc

/-- `s` is a state an interrupted run started from `s0` may leave behind: every position is either
    untouched in its mark (then a previously complete result is untouched too; a pending slot may hold
    anything), or was pending, is now marked 1 and holds the final result. -/
def Good {ρ : Type} (f : Nat → ρ) (s0 s : DS ρ) : Prop :=
  s.results.length = s0.results.length ∧ s.status.length = s0.status.length ∧
  ∀ p, p < s0.status.length →
    (s.status[p]? = s0.status[p]? ∧ (s0.status[p]? ≠ some 0 → s.results[p]? = s0.results[p]?)) ∨
    (s0.status[p]? = some 0 ∧ s.status[p]? = some 1 ∧ s.results[p]? = some (f p))

theorem good_refl {ρ : Type} (f : Nat → ρ) (s0 : DS ρ) : Good f s0 s0 :=
  ⟨rfl, rfl, fun _ _ => Or.inl ⟨rfl, fun _ => rfl⟩⟩

theorem good_trans {ρ : Type} (f : Nat → ρ) (s0 s1 s2 : DS ρ) (h01 : Good f s0 s1) (h12 : Good f s1 s2) :
    Good f s0 s2 := by
  obtain ⟨a1, a2, a3⟩ := h01
  obtain ⟨b1, b2, b3⟩ := h12
  refine ⟨b1.trans a1, b2.trans a2, ?_⟩
  intro p hp
  rcases a3 p hp with ⟨x1, x2⟩ | ⟨x1, x2, x3⟩
  · rcases b3 p (by omega) with ⟨y1, y2⟩ | ⟨y1, y2, y3⟩
    · left
      refine ⟨y1.trans x1, ?_⟩
      intro h
      rw [y2 (by rw [x1]; exact h), x2 h]
    · right
      exact ⟨by rw [← x1]; exact y1, y2, y3⟩
  · rcases b3 p (by omega) with ⟨y1, y2⟩ | ⟨y1, y2, y3⟩
    · right
      refine ⟨x1, by rw [y1]; exact x2, ?_⟩
      rw [y2 (by rw [x2]; simp)]; exact x3
    · rw [x2] at y1; simp at y1

/-- the finished run from a left-behind state equals the finished uninterrupted run -/
theorem resume_same {ρ : Type} (f : Nat → ρ) (s0 s : DS ρ) (b b' : Nat) (hb : 0 < b) (hb' : 0 < b')
    (hlen : s0.results.length = s0.status.length) (h : Good f s0 s) :
    (computeRun f s b hb).1.results = (computeRun f s0 b' hb').1.results ∧
    (computeRun f s b hb).1.status = (computeRun f s0 b' hb').1.status := by
  obtain ⟨g1, g2, g3⟩ := h
  have hl1 : ∀ (t : DS ρ) (c : Nat) (hc : 0 < c), (computeRun f t c hc).1.results.length = t.results.length ∧
      (computeRun f t c hc).1.status.length = t.status.length := by
    intro t c hc
    simp only [computeRun, foldl_applyBatch]
    exact applyBatch_results_length f t _
  constructor
  · apply List.ext_getElem?
    intro p
    by_cases hp : p < s0.status.length
    · have e1 := (computeRun_spec f s b hb (by omega) p (by omega)).1
      have e2 := (computeRun_spec f s0 b' hb' hlen p hp).1
      rw [e1, e2]
      rcases g3 p hp with ⟨x1, x2⟩ | ⟨x1, x2, x3⟩
      · rw [x1]
        by_cases h0 : s0.status[p]? = some 0
        · simp [h0]
        · simp [h0, x2 h0]
      · rw [x1, x2, x3]; simp
    · have l1 := (hl1 s b hb).1
      have l2 := (hl1 s0 b' hb').1
      rw [List.getElem?_eq_none (by omega), List.getElem?_eq_none (by omega)]
  · apply List.ext_getElem?
    intro p
    by_cases hp : p < s0.status.length
    · have e1 := (computeRun_spec f s b hb (by omega) p (by omega)).2
      have e2 := (computeRun_spec f s0 b' hb' hlen p hp).2
      rw [e1, e2]
      rcases g3 p hp with ⟨x1, _⟩ | ⟨x1, x2, _⟩
      · rw [x1]
      · rw [x1, x2]; simp
    · have l1 := (hl1 s b hb).2
      have l2 := (hl1 s0 b' hb').2
      rw [List.getElem?_eq_none (by omega), List.getElem?_eq_none (by omega)]

/-- the resumed run invokes the map function exactly for the positions not marked in the survivor -/
theorem resume_calls {ρ : Type} (f : Nat → ρ) (s : DS ρ) (b : Nat) (hb : 0 < b) :
    (computeRun f s b hb).2 = pending s.status := by
  simp [computeRun, rankBatches_single_flatten]

end Usid.Proc
