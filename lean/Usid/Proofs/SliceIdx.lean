import Usid.Model.Slice
/-! Every index produced by the model of CPython's `slice.indices` / `range` lies on the axis, and the
    accepted expansions of a selector are non-empty lists of in-range indices (used by C11). -/
namespace Usid.Slice
open Usid

theorem pos_case (n : Nat) (a b st : Int) (k : Nat) (ha : 0 ≤ a) (hb : b ≤ n) (hst : 0 < st)
    (hk : k < (if a < b then ((b - a - 1) / st + 1).toNat else 0)) : (a + k * st).toNat < n := by
  by_cases hab : a < b
  · simp only [hab, if_true] at hk
    have hq : 0 ≤ (b - a - 1) / st := Int.ediv_nonneg (by omega) (by omega)
    have hk1 : (k : Int) ≤ (b - a - 1) / st := by omega
    have h1 : (k : Int) * st ≤ (b - a - 1) / st * st := Int.mul_le_mul_of_nonneg_right hk1 (by omega)
    have h2 : (b - a - 1) / st * st ≤ b - a - 1 := Int.ediv_mul_le _ (by omega)
    have h3 : 0 ≤ (k : Int) * st := Int.mul_nonneg (by omega) (by omega)
    omega
  · simp [hab] at hk

theorem neg_case (n : Nat) (a b st : Int) (k : Nat) (ha : a ≤ n - 1) (hb : -1 ≤ b) (hst : st < 0)
    (hk : k < (if b < a then ((a - b - 1) / (-st) + 1).toNat else 0)) : (a + k * st).toNat < n := by
  by_cases hab : b < a
  · simp only [hab, if_true] at hk
    have hq : 0 ≤ (a - b - 1) / (-st) := Int.ediv_nonneg (by omega) (by omega)
    have hk1 : (k : Int) ≤ (a - b - 1) / (-st) := by omega
    have h1 : (k : Int) * (-st) ≤ (a - b - 1) / (-st) * (-st) := Int.mul_le_mul_of_nonneg_right hk1 (by omega)
    have h2 : (a - b - 1) / (-st) * (-st) ≤ a - b - 1 := Int.ediv_mul_le _ (by omega)
    have h3 : 0 ≤ (k : Int) * (-st) := Int.mul_nonneg (by omega) (by omega)
    have h4 : (k : Int) * st = -((k : Int) * (-st)) := by rw [Int.mul_neg, Int.neg_neg]
    have hn : 0 < n ∨ n = 0 := by omega
    omega
  · simp [hab] at hk

/-- every index selected by a slice lies on the axis -/
theorem sliceIndices_lt (n : Nat) (start stop step : Option Int) (l : List Nat)
    (h : sliceIndices n start stop step = .ok l) : ∀ x ∈ l, x < n := by
  unfold sliceIndices at h
  simp only at h
  split at h
  · cases h
  · rename_i hst
    split at h
    · rename_i hpos
      injection h with h
      subst h
      intro x hx
      obtain ⟨k, hk, rfl⟩ := List.mem_map.mp hx
      have hk' := List.mem_range.mp hk
      apply pos_case n _ _ _ k _ _ hpos hk'
      · cases start with
        | none => simp
        | some v => simp only; split <;> split <;> omega
      · cases stop with
        | none => simp
        | some v => simp only; split <;> split <;> omega
    · rename_i hpos
      have hneg : step.getD 1 < 0 := by omega
      injection h with h
      subst h
      intro x hx
      obtain ⟨k, hk, rfl⟩ := List.mem_map.mp hx
      have hk' := List.mem_range.mp hk
      apply neg_case n _ _ _ k _ _ hneg hk'
      · cases start with
        | none => simp
        | some v => simp only; split <;> split <;> omega
      · cases stop with
        | none => simp
        | some v => simp only; split <;> split <;> omega

/-- what `expandSel` accepts: a non-empty list of indices on the axis -/
theorem expandSel_ok (size : Nat) (s : Sel) (l : List Nat) (h : expandSel size s = .ok l) :
    l ≠ [] ∧ ∀ x ∈ l, x < size := by
  cases s with
  | int i =>
    simp only [expandSel] at h
    split at h
    · cases h
    · split at h
      · cases h
      · injection h with h; subst h
        refine ⟨by simp, ?_⟩
        intro x hx
        simp only [List.mem_singleton] at hx
        subst hx; omega
  | slice a b st =>
    simp only [expandSel] at h
    simp only [bind, Except.bind] at h
    cases hs : sliceIndices size a b st with
    | error e => rw [hs] at h; cases h
    | ok l' =>
      rw [hs] at h
      simp only at h
      split at h
      · cases h
      · rename_i hne
        injection h with h; subst h
        exact ⟨by intro e; rw [e] at hne; simp at hne, sliceIndices_lt size a b st _ hs⟩
  | list l0 =>
    simp only [expandSel] at h
    split at h
    · cases h
    · rename_i h1
      split at h
      · cases h
      · rename_i h2
        injection h with h; subst h
        simp only [Bool.or_eq_true, not_or, Bool.not_eq_true] at h1
        refine ⟨by intro e; have := List.map_eq_nil_iff.mp e; rw [this] at h1; simp at h1, ?_⟩
        intro x hx
        obtain ⟨i, hi, rfl⟩ := List.mem_map.mp hx
        have hge : ¬ (i ≥ (size : Int)) := by
          intro hc
          have : l0.any (fun x => decide (x ≥ (size : Int))) = true := List.any_eq_true.mpr ⟨i, hi, by simpa using hc⟩
          simp [this] at h2
        have hnn : ¬ (i < 0) := by
          intro hc
          have : l0.any (fun x => decide (x < 0)) = true := List.any_eq_true.mpr ⟨i, hi, by simpa using hc⟩
          rw [this] at h1; simp at h1
        omega
  | tuple l0 =>
    simp only [expandSel] at h
    split at h
    · cases h
    · rename_i h1
      split at h
      · cases h
      · rename_i h2
        injection h with h; subst h
        simp only [Bool.or_eq_true, not_or, Bool.not_eq_true] at h1
        refine ⟨by intro e; have := List.map_eq_nil_iff.mp e; rw [this] at h1; simp at h1, ?_⟩
        intro x hx
        obtain ⟨i, hi, rfl⟩ := List.mem_map.mp hx
        have hge : ¬ (i ≥ (size : Int)) := by
          intro hc
          have : l0.any (fun x => decide (x ≥ (size : Int))) = true := List.any_eq_true.mpr ⟨i, hi, by simpa using hc⟩
          simp [this] at h2
        have hnn : ¬ (i < 0) := by
          intro hc
          have : l0.any (fun x => decide (x < 0)) = true := List.any_eq_true.mpr ⟨i, hi, by simpa using hc⟩
          rw [this] at h1; simp at h1
        omega
  | other => simp [expandSel] at h

end Usid.Slice
