import Usid.Proofs.SubGrid
import Usid.Model.SliceTo
import Usid.Properties.C09
import Usid.Properties.C08
/-! Towards the coordinate theorem of C11: the pieces of `dimsForSlice` on a regular-grid side. -/
namespace Usid.SliceTo
open Usid Usid.Grid Usid.UV Usid.SubGrid Usid.Slice Usid.Dims Usid.C09

/-- the N x k index matrix of a regular grid (one row per point, columns in file order) -/
def pointMatrix (sz : Nat → Nat) (rate : List Nat) (k : Nat) : List (List Nat) :=
  (List.range (npoints sz rate)).map (fun r => (List.range k).map (fun d => gridIdx sz rate r d))

/-- the N x k value matrix: the reference value of every dimension at the point's index -/
def pointValues (sz : Nat → Nat) (rate : List Nat) (k : Nat) (V : Nat → List Int) : List (List Int) :=
  (List.range (npoints sz rate)).map (fun r => (List.range k).map (fun d => (V d).getD (gridIdx sz rate r d) 0))

/-- whether index `j` of dimension `d` is in the selection -/
def selPred (sels : List (List Nat)) (d j : Nat) : Bool := (sels.getD d []).contains j

theorem pointMatrix_get (sz : Nat → Nat) (rate : List Nat) (k r d : Nat) (hr : r < npoints sz rate) (hd : d < k) :
    ((pointMatrix sz rate k).getD r []).getD d 0 = gridIdx sz rate r d := by
  simp [pointMatrix, List.getD_eq_getElem?_getD, List.getElem?_range hr, List.getElem?_range hd]

/-- the selected rows of the model are the sub-grid enumeration -/
theorem selectedRows_eq (sz : Nat → Nat) (rate : List Nat) (k : Nat) (sels : List (List Nat))
    (hperm : rate.Perm (List.range k)) (hk : sels.length = k) :
    selectedRows (pointMatrix sz rate k) sels =
      (List.range (rate.map (s' sz (selPred sels))).prod).map (rho sz (selPred sels) rate) := by
  have hnd : rate.Nodup := hperm.nodup_iff.mpr List.nodup_range
  rw [← filter_selRow sz (selPred sels) rate hnd]
  unfold selectedRows
  have hlen : (pointMatrix sz rate k).length = (rate.map sz).prod := by simp [pointMatrix, npoints]
  rw [hlen]
  apply List.filter_congr
  intro r hr
  have hr' : r < npoints sz rate := List.mem_range.mp hr
  unfold selRow
  rw [hk, Bool.eq_iff_iff]
  simp only [List.all_eq_true, List.mem_range]
  constructor
  · intro H d hd
    have hdk : d < k := List.mem_range.mp (hperm.subset hd)
    have := H d hdk
    rw [pointMatrix_get sz rate k r d hr' hdk] at this
    exact this
  · intro H d hdk
    rw [pointMatrix_get sz rate k r d hr' hdk]
    exact H d (hperm.symm.subset (List.mem_range.mpr hdk))

/-- product of `f` over the dimensions listed after `d` in `rate` -/
def postProd (f : Nat → Nat) (rate : List Nat) (d : Nat) : Nat :=
  (((rate.dropWhile (fun e => e != d)).drop 1).map f).prod

theorem dropWhile_split (pre post : List Nat) (d : Nat) (h : d ∉ pre) :
    (pre ++ d :: post).dropWhile (fun e => e != d) = d :: post := by
  induction pre with
  | nil => simp [List.dropWhile]
  | cons x xs ih =>
    have hx : x ≠ d := fun e => h (by rw [e]; exact List.mem_cons_self)
    have : (x != d) = true := by simpa using hx
    simp only [List.cons_append, List.dropWhile, this]
    exact ih (fun hm => h (List.mem_cons_of_mem _ hm))

/-- number of points = (points of faster dims) * size * (points of slower dims), for any size function -/
theorem prod_split3 (f : Nat → Nat) (rate : List Nat) (d : Nat) (hd : d ∈ rate) :
    (rate.map f).prod = postProd f rate d * (strideBefore f rate d * f d) := by
  obtain ⟨pre, post, e, hpre⟩ := split_of_mem rate d hd
  subst e
  unfold postProd
  rw [dropWhile_split pre post d hpre, stride_split f pre post d hpre]
  simp only [List.drop_succ_cons, List.drop_zero, List.map_append, List.map_cons, List.prod_append, List.prod_cons]
  rw [Nat.mul_comm ((post.map f).prod), Nat.mul_assoc]

theorem L_pairwise (sz : Nat → Nat) (p : Nat → Nat → Bool) (d : Nat) : (L sz p d).Pairwise (· < ·) :=
  (List.pairwise_lt_range).filter _

theorem L_strict (sz : Nat → Nat) (p : Nat → Nat → Bool) (d : Nat) (l : List Nat) (hl : ∀ x ∈ l, x < s' sz p d) :
    StrictOn (fun j => (L sz p d).getD j 0) l := by
  intro a ha b hb hab
  have ha' := hl a ha
  have hb' := hl b hb
  simp only [List.getD_eq_getElem?_getD, List.getElem?_eq_getElem ha', List.getElem?_eq_getElem hb', Option.getD_some]
  exact List.pairwise_iff_getElem.mp (L_pairwise sz p d) a b ha' hb' hab

theorem periodicRow_lt (S s H : Nat) (hs : 0 < s) : ∀ x ∈ periodicRow S s H, x < s := by
  intro x hx
  obtain ⟨r, _, rfl⟩ := List.mem_map.mp hx
  exact Nat.mod_lt _ hs

/-- every point of the sub-grid is a row of the full grid -/
theorem rho_lt (sz : Nat → Nat) (p : Nat → Nat → Bool) (rate : List Nat) (hnd : rate.Nodup) (i : Nat)
    (hi : i < (rate.map (s' sz p)).prod) : rho sz p rate i < npoints sz rate := by
  have : rho sz p rate i ∈ (List.range (rate.map sz).prod).filter (selRow sz p rate) := by
    rw [filter_selRow sz p rate hnd]
    exact List.mem_map.mpr ⟨i, List.mem_range.mpr hi, rfl⟩
  exact List.mem_range.mp (List.mem_filter.mp this).1

/-- the index column of dimension `d` over the selected rows: a relabelled periodic row -/
theorem sliced_index_column (sz : Nat → Nat) (p : Nat → Nat → Bool) (rate : List Nat) (k d : Nat)
    (hperm : rate.Perm (List.range k)) (hd : d < k) :
    ((List.range (rate.map (s' sz p)).prod).map (rho sz p rate)).map
        (fun r => ((pointMatrix sz rate k).getD r []).getD d 0) =
      (periodicRow (strideBefore (s' sz p) rate d) (s' sz p d) (postProd (s' sz p) rate d)).map
        (fun j => (L sz p d).getD j 0) := by
  have hnd : rate.Nodup := hperm.nodup_iff.mpr List.nodup_range
  have hdr : d ∈ rate := hperm.symm.subset (List.mem_range.mpr hd)
  unfold periodicRow
  rw [← prod_split3 (s' sz p) rate d hdr, List.map_map, List.map_map]
  apply List.map_congr_left
  intro i hi
  have hi' := List.mem_range.mp hi
  simp only [Function.comp_apply]
  rw [pointMatrix_get sz rate k _ d (rho_lt sz p rate hnd i hi') hd, gridIdx_rho sz p rate hnd i d hdr hi']

/-- ... and the value column: the selected reference values at the sub-grid digit -/
theorem sliced_value_column (sz : Nat → Nat) (p : Nat → Nat → Bool) (rate : List Nat) (k d : Nat) (V : Nat → List Int)
    (hperm : rate.Perm (List.range k)) (hd : d < k) :
    ((List.range (rate.map (s' sz p)).prod).map (rho sz p rate)).map
        (fun r => ((pointValues sz rate k V).getD r []).getD d 0) =
      (List.range (postProd (s' sz p) rate d * (strideBefore (s' sz p) rate d * s' sz p d))).map
        (fun i => ((L sz p d).map (fun j => (V d).getD j 0)).getD (i / strideBefore (s' sz p) rate d % s' sz p d) 0) := by
  have hnd : rate.Nodup := hperm.nodup_iff.mpr List.nodup_range
  have hdr : d ∈ rate := hperm.symm.subset (List.mem_range.mpr hd)
  rw [← prod_split3 (s' sz p) rate d hdr, List.map_map]
  apply List.map_congr_left
  intro i hi
  have hi' := List.mem_range.mp hi
  have hrl := rho_lt sz p rate hnd i hi'
  simp only [Function.comp_apply]
  have hs0 : 0 < s' sz p d := by
    rcases Nat.eq_zero_or_pos (s' sz p d) with h0 | h0
    · have := prod_split3 (s' sz p) rate d hdr
      rw [h0, Nat.mul_zero, Nat.mul_zero] at this
      rw [this] at hi'; simp at hi'
    · exact h0
  have hdig : i / strideBefore (s' sz p) rate d % s' sz p d < (L sz p d).length := Nat.mod_lt _ hs0
  have e1 : ((pointValues sz rate k V).getD (rho sz p rate i) []).getD d 0 = (V d).getD (gridIdx sz rate (rho sz p rate i) d) 0 := by
    simp [pointValues, List.getD_eq_getElem?_getD, List.getElem?_range hrl, List.getElem?_range hd]
  rw [e1, gridIdx_rho sz p rate hnd i d hdr hi']
  simp [List.getD_eq_getElem?_getD, List.getElem?_map, List.getElem?_eq_getElem hdig]

/-- the selected reference values of dimension `d`, in index order -/
def Wsel (sz : Nat → Nat) (p : Nat → Nat → Bool) (V : Nat → List Int) (d : Nat) : List Int :=
  (L sz p d).map (fun j => (V d).getD j 0)

theorem prod_pos_of_forall (f : Nat → Nat) : ∀ (l : List Nat), (∀ x ∈ l, 0 < f x) → 0 < (l.map f).prod
  | [], _ => by simp
  | x :: xs, h => by
    rw [List.map_cons, List.prod_cons]
    exact Nat.mul_pos (h x (by simp)) (prod_pos_of_forall f xs (fun y hy => h y (List.mem_cons_of_mem _ hy)))

theorem stride_pos (f : Nat → Nat) (rate : List Nat) (d : Nat) (h : ∀ x ∈ rate, 0 < f x) : 0 < strideBefore f rate d := by
  unfold strideBefore
  exact prod_pos_of_forall f _ (fun x hx => h x ((List.takeWhile_sublist _).subset hx))

theorem postProd_pos (f : Nat → Nat) (rate : List Nat) (d : Nat) (h : ∀ x ∈ rate, 0 < f x) : 0 < postProd f rate d := by
  unfold postProd
  exact prod_pos_of_forall f _ (fun x hx => h x ((List.dropWhile_sublist _).subset ((List.drop_sublist _ _).subset hx)))

/-- **Unit values of the sliced side.**  On the rows selected by a product selection (every dimension keeps
    at least one index) `get_unit_values` returns, for every dimension, the reference values at its selected
    indices, in index order. -/
theorem unit_values_sliced (sz : Nat → Nat) (rate : List Nat) (k : Nat) (V : Nat → List Int) (sels : List (List Nat))
    (labels : List String) (hperm : rate.Perm (List.range k)) (hk : sels.length = k) (hkpos : 0 < k)
    (hl : labels.length = k) (hnd : labels.Nodup)
    (hsel : ∀ d ∈ rate, 0 < s' sz (selPred sels) d) :
    let rows := selectedRows (pointMatrix sz rate k) sels
    getUnitValues (pickRows (pointMatrix sz rate k) rows) (pickRows (pointValues sz rate k V) rows) labels none (some false) =
      .ok (labels.zip ((List.range k).map (Wsel sz (selPred sels) V))) := by
  intro rows
  have hrows : rows = (List.range (rate.map (s' sz (selPred sels))).prod).map (rho sz (selPred sels) rate) :=
    selectedRows_eq sz rate k sels hperm hk
  have hnd' : rate.Nodup := hperm.nodup_iff.mpr List.nodup_range
  have hN' : 0 < (rate.map (s' sz (selPred sels))).prod := prod_pos_of_forall _ rate hsel
  -- shape facts
  have hlen1 : (pickRows (pointMatrix sz rate k) rows).length = rows.length := by simp [pickRows]
  have hlen2 : (pickRows (pointValues sz rate k V) rows).length = rows.length := by simp [pickRows]
  have hrowslen : rows.length = (rate.map (s' sz (selPred sels))).prod := by rw [hrows]; simp
  have hr0 : rho sz (selPred sels) rate 0 < npoints sz rate := rho_lt sz _ rate hnd' 0 hN'
  have hhead1 : (pickRows (pointMatrix sz rate k) rows).headD [] = (List.range k).map (fun d => gridIdx sz rate (rho sz (selPred sels) rate 0) d) := by
    rw [hrows]
    obtain ⟨n, hn⟩ : ∃ n, (rate.map (s' sz (selPred sels))).prod = n + 1 := ⟨_, (Nat.succ_pred_eq_of_pos hN').symm⟩
    rw [hn, List.range_succ_eq_map]
    simp [pickRows, pointMatrix, List.getD_eq_getElem?_getD, List.getElem?_range hr0]
  have hhead2 : ((pickRows (pointValues sz rate k V) rows).headD []).length = k := by
    rw [hrows]
    obtain ⟨n, hn⟩ : ∃ n, (rate.map (s' sz (selPred sels))).prod = n + 1 := ⟨_, (Nat.succ_pred_eq_of_pos hN').symm⟩
    rw [hn, List.range_succ_eq_map]
    simp [pickRows, pointValues, List.getD_eq_getElem?_getD, List.getElem?_range hr0]
  have hncols : ncols (pickRows (pointMatrix sz rate k) rows) = k := by
    unfold ncols; rw [hhead1]; simp
  -- the transposed matrices, row by row
  have hI : transposeM (pickRows (pointMatrix sz rate k) rows) = (List.range k).map (fun d =>
      (periodicRow (strideBefore (s' sz (selPred sels)) rate d) (s' sz (selPred sels) d) (postProd (s' sz (selPred sels)) rate d)).map
        (fun j => (L sz (selPred sels) d).getD j 0)) := by
    have hne : pickRows (pointMatrix sz rate k) rows ≠ [] := by
      intro h0; rw [h0] at hlen1; rw [hrowslen] at hlen1; simp at hlen1; omega
    unfold transposeM
    cases hm : pickRows (pointMatrix sz rate k) rows with
    | nil => exact absurd hm hne
    | cons r0 rest =>
      have hr0len : r0.length = k := by
        have := hhead1; rw [hm] at this; simp at this; rw [this]; simp
      simp only [hr0len]
      apply List.map_congr_left
      intro d hd
      rw [← hm]
      have := sliced_index_column sz (selPred sels) rate k d hperm (List.mem_range.mp hd)
      rw [← this, hrows]
      simp [pickRows, List.map_map, Function.comp_def]
  have hVm : transposeI (pickRows (pointValues sz rate k V) rows) = (List.range k).map (fun d =>
      (List.range (postProd (s' sz (selPred sels)) rate d * (strideBefore (s' sz (selPred sels)) rate d * s' sz (selPred sels) d))).map
        (fun r => (Wsel sz (selPred sels) V d).getD (r / strideBefore (s' sz (selPred sels)) rate d % s' sz (selPred sels) d) 0)) := by
    have hne : pickRows (pointValues sz rate k V) rows ≠ [] := by
      intro h0; rw [h0] at hlen2; rw [hrowslen] at hlen2; simp at hlen2; omega
    unfold transposeI
    cases hm : pickRows (pointValues sz rate k V) rows with
    | nil => exact absurd hm hne
    | cons r0 rest =>
      have hr0len : r0.length = k := by
        have := hhead2; rw [hm] at this; simpa using this
      simp only [hr0len]
      apply List.map_congr_left
      intro d hd
      rw [← hm]
      have := sliced_value_column sz (selPred sels) rate k d V hperm (List.mem_range.mp hd)
      unfold Wsel
      rw [← this, hrows]
      simp [pickRows, List.map_map, Function.comp_def]
  have hall : labels.all (fun nm => labels.contains nm) = true := by
    rw [List.all_eq_true]; intro x hx; simpa using hx
  have hrowsUV := getUnitValues_rows k (fun d => strideBefore (s' sz (selPred sels)) rate d) (fun d => s' sz (selPred sels) d)
    (fun d => postProd (s' sz (selPred sels)) rate d) (fun d j => (L sz (selPred sels) d).getD j 0) (Wsel sz (selPred sels) V)
    labels hl hnd (by
      intro d hd
      have hdr : d ∈ rate := hperm.symm.subset (List.mem_range.mpr hd)
      refine ⟨stride_pos _ rate d hsel, hsel d hdr, postProd_pos _ rate d hsel, by simp [Wsel, s'], ?_⟩
      exact L_strict sz _ d _ (periodicRow_lt _ _ _ (hsel d hdr)))
    _ _ hI hVm
  unfold getUnitValues
  simp only [hlen1, hlen2, bne_self_eq_false, hncols, hhead2, Bool.or_self, Bool.false_eq_true, if_false, bind, Except.bind,
    pure, Except.pure, hl, Option.getD_none, hall, Bool.not_true, hrowsUV]
  have hlenI : (transposeM (pickRows (pointMatrix sz rate k) rows)).length = k := by rw [hI]; simp
  simp only [hlenI, bne_self_eq_false, Bool.false_eq_true, if_false]
  congr 1
  rw [List.filter_eq_self]
  intro p hp
  have := (List.of_mem_zip hp).1
  simpa using this

/-! ### ordering the remaining dimensions by their change counts -/

/-- number of changes between consecutive entries (no wrap-around): the count `order_fast_to_slow` uses -/
def noWrapCount (col : List Nat) : Nat :=
  ((List.range (col.length - 1)).filter (fun i => col.getD (i + 1) 0 != col.getD i 0)).length

theorem noWrap_map (f : Nat → Nat) (l : List Nat) (h : StrictOn f l) : noWrapCount (l.map f) = noWrapCount l := by
  unfold noWrapCount
  rw [List.length_map]
  congr 1
  apply List.filter_congr
  intro i hi
  have hi' := List.mem_range.mp hi
  rw [getD_map_of_lt f l (i + 1) (by omega), getD_map_of_lt f l i (by omega)]
  by_cases e : l.getD (i + 1) 0 = l.getD i 0
  · rw [e]; simp
  · have : f (l.getD (i + 1) 0) ≠ f (l.getD i 0) :=
      fun e' => e (h.inj (getD_mem_of_lt l (i + 1) (by omega)) (getD_mem_of_lt l i (by omega)) e')
    rw [bne_iff_ne.mpr this, bne_iff_ne.mpr e]

/-- the wrap-around count is the plain count plus one if the row does not end where it starts -/
theorem wrap_eq_noWrap (l : List Nat) (hl : l ≠ []) :
    changeCountList l = noWrapCount l + (if l.getD 0 0 != l.getD (l.length - 1) 0 then 1 else 0) := by
  unfold changeCountList noWrapCount
  obtain ⟨n, hn⟩ : ∃ n, l.length = n + 1 := ⟨l.length - 1, by
    have : 0 < l.length := List.length_pos_iff.mpr hl; omega⟩
  rw [hn, List.range_succ_eq_map, List.filter_cons, Nat.add_sub_cancel]
  simp only [if_true]
  have htail : ((List.range n).map Nat.succ).filter (fun i => l.getD i 0 != l.getD (if i = 0 then n else i - 1) 0) =
      ((List.range n).filter (fun i => l.getD (i + 1) 0 != l.getD i 0)).map Nat.succ := by
    rw [List.filter_map]
    congr 1
  rw [htail]
  by_cases h0 : (l.getD 0 0 != l.getD n 0) = true
  · simp only [h0, if_true, List.length_cons, List.length_map]
  · have h0' : (l.getD 0 0 != l.getD n 0) = false := by simpa using h0
    simp only [h0', Bool.false_eq_true, if_false, List.length_map, Nat.add_zero]

/-- the index row of a multi-valued dimension starts at 0 and ends at its last index: its plain change
    count is its wrap-around count minus one -/
theorem noWrap_gridRow (f : Nat → Nat) (rate : List Nat) (d : Nat) (hnd : rate.Nodup) (hd : d ∈ rate)
    (hpos : ∀ e ∈ rate, 1 ≤ f e) (hbig : 1 < f d) :
    countOf f rate d = noWrapCount (gridRow f rate d) + 1 := by
  obtain ⟨pre, post, e, hpre⟩ := split_of_mem rate d hd
  have hS : 0 < (pre.map f).prod := prod_pos f pre (fun x hx => hpos x (e ▸ List.mem_append_left _ hx))
  have hH : 0 < (post.map f).prod :=
    prod_pos f post (fun x hx => hpos x (e ▸ List.mem_append_right _ (List.mem_cons_of_mem _ hx)))
  have hN : npoints f rate = (pre.map f).prod * f d * (post.map f).prod := by rw [e]; exact npoints_split f pre post d
  have hNpos : 0 < npoints f rate := by rw [hN]; exact Nat.mul_pos (Nat.mul_pos hS (by omega)) hH
  have hne : gridRow f rate d ≠ [] := by
    intro h0
    have := congrArg List.length h0
    simp [gridRow] at this; omega
  have hlen : (gridRow f rate d).length = npoints f rate := by simp [gridRow]
  show changeCountList (gridRow f rate d) = _
  rw [wrap_eq_noWrap _ hne, hlen]
  have hfirst : (gridRow f rate d).getD 0 0 = 0 := by
    simp [gridRow, List.getD_eq_getElem?_getD, List.getElem?_range hNpos, gridIdx]
  have hlast : (gridRow f rate d).getD (npoints f rate - 1) 0 = f d - 1 := by
    have hlt : npoints f rate - 1 < npoints f rate := by omega
    simp only [gridRow, List.getD_eq_getElem?_getD, List.getElem?_map, List.getElem?_range hlt, Option.map_some,
      Option.getD_some, gridIdx]
    rw [e, stride_split f pre post d hpre, ← e, hN]
    -- (S * s * H - 1) / S % s = s - 1
    have e1 : (pre.map f).prod * f d * (post.map f).prod - 1 =
        (pre.map f).prod * (f d * (post.map f).prod - 1) + ((pre.map f).prod - 1) := by
      have : 0 < f d * (post.map f).prod := Nat.mul_pos (by omega) hH
      rw [Nat.mul_assoc, Nat.mul_sub, Nat.mul_one]
      have h2 : (pre.map f).prod ≤ (pre.map f).prod * (f d * (post.map f).prod) := Nat.le_mul_of_pos_right _ this
      omega
    rw [e1, Nat.mul_add_div hS, Nat.div_eq_of_lt (by omega), Nat.add_zero]
    have e2 : f d * (post.map f).prod - 1 = f d * ((post.map f).prod - 1) + (f d - 1) := by
      rw [Nat.mul_sub, Nat.mul_one]
      have h2 : f d ≤ f d * (post.map f).prod := Nat.le_mul_of_pos_right _ hH
      omega
    rw [e2, Nat.mul_add_mod, Nat.mod_eq_of_lt (by omega)]
  rw [hfirst, hlast]
  have : (0 != f d - 1) = true := by
    rw [bne_iff_ne]; omega
  simp [this]

/-- **Fastest first.**  Ranking the multi-valued dimensions by their plain change counts (largest first)
    lists them exactly in the rate order of the grid - whatever the storage order of the columns. -/
theorem ranked_eq (f : Nat → Nat) (rate : List Nat) (k : Nat) (hperm : rate.Perm (List.range k))
    (hpos : ∀ e ∈ rate, 1 ≤ f e) (cnt : Nat → Nat)
    (hcnt : ∀ d ∈ rate, 1 < f d → countOf f rate d = cnt d + 1) :
    (argsortRev (((List.range k).filter (fun d => decide (f d ≥ 2))).map cnt)).map
        (fun i => ((List.range k).filter (fun d => decide (f d ≥ 2))).getD i 0) =
      rate.filter (fun d => decide (f d ≥ 2)) := by
  have hnd : rate.Nodup := hperm.nodup_iff.mpr List.nodup_range
  generalize hkept : (List.range k).filter (fun d => decide (f d ≥ 2)) = kept
  have hkperm : kept.Perm (rate.filter (fun d => decide (f d ≥ 2))) := by
    rw [← hkept]; exact (hperm.symm.filter _)
  have hstrict0 := Grid.counts_strict f rate hnd hpos
  -- strictly decreasing counts along the rate order of the kept dimensions
  have hstrict : (rate.filter (fun d => decide (f d ≥ 2))).Pairwise (fun a b => cnt b < cnt a) := by
    have hf := hstrict0.filter (fun d => decide (f d ≥ 2))
    apply List.Pairwise.imp_of_mem _ hf
    intro a b ha hb hab
    have ha' := List.mem_filter.mp ha
    have hb' := List.mem_filter.mp hb
    have h1 : 1 < f a := by have := ha'.2; simp at this; omega
    have h2 : 1 < f b := by have := hb'.2; simp at this; omega
    have := hab h1 h2
    rw [hcnt a ha'.1 h1, hcnt b hb'.1 h2] at this
    omega
  -- the ranked list: a permutation of kept, sorted by non-increasing count
  have hlenc : (kept.map cnt).length = kept.length := by simp
  have hp1 : ((argsortRev (kept.map cnt)).map (fun i => kept.getD i 0)).Perm kept := by
    have := (argsortRev_perm (kept.map cnt)).map (fun i => kept.getD i 0)
    rw [hlenc] at this
    have e : (List.range kept.length).map (fun i => kept.getD i 0) = kept := by
      apply List.ext_getElem
      · simp
      · intro i h1 h2; simp [List.getD_eq_getElem?_getD, List.getElem?_eq_getElem h2]
    rw [e] at this; exact this
  have hsorted : ((argsortRev (kept.map cnt)).map (fun i => kept.getD i 0)).Pairwise (fun a b => cnt b ≤ cnt a) := by
    rw [List.pairwise_map]
    have hs := argsortRev_sorted (kept.map cnt)
    apply List.Pairwise.imp_of_mem _ hs
    intro i j hi hj hij
    have hi' : i < kept.length := by
      have := (argsortRev_perm (kept.map cnt)).subset hi; rw [hlenc] at this; exact List.mem_range.mp this
    have hj' : j < kept.length := by
      have := (argsortRev_perm (kept.map cnt)).subset hj; rw [hlenc] at this; exact List.mem_range.mp this
    have gi : (kept.map cnt).getD i 0 = cnt (kept.getD i 0) := by
      simp [List.getD_eq_getElem?_getD, List.getElem?_eq_getElem hi']
    have gj : (kept.map cnt).getD j 0 = cnt (kept.getD j 0) := by
      simp [List.getD_eq_getElem?_getD, List.getElem?_eq_getElem hj']
    rw [gi, gj] at hij; exact hij
  apply List.Perm.eq_of_pairwise (le := fun a b => cnt b ≤ cnt a)
  · intro a b ha hb h1 h2
    -- a, b are kept dimensions with equal counts: strictness forces a = b
    have ha' : a ∈ rate.filter (fun d => decide (f d ≥ 2)) := (hp1.trans hkperm).subset ha
    have hb' : b ∈ rate.filter (fun d => decide (f d ≥ 2)) := hb
    apply Classical.byContradiction
    intro hne
    have heq : cnt a = cnt b := by omega
    by_cases hpre : a ∈ (rate.filter (fun d => decide (f d ≥ 2))).takeWhile (fun e => e != b)
    · have := before_rel _ b a hstrict hb' hpre
      omega
    · have := after_rel _ b a hstrict hb' ha' hne hpre
      omega
  · exact hsorted
  · apply List.Pairwise.imp _ hstrict
    intro a b h; exact Nat.le_of_lt h
  · exact hp1.trans hkperm

theorem lookup_zip_nodup {β : Type} : ∀ (names : List String) (vals : List β) (d : Nat) (h1 : d < names.length) (h2 : d < vals.length),
    names.Nodup → (names.zip vals).lookup names[d] = some vals[d]
  | n :: ns, v :: vs, 0, _, _, _ => by simp [List.lookup]
  | n :: ns, v :: vs, d + 1, h1, h2, hnd => by
    have hne : (ns[d]'(by simpa using h1) == n) = false := by
      rw [beq_eq_false_iff_ne]
      intro e
      exact (List.nodup_cons.mp hnd).1 (e ▸ List.getElem_mem _)
    simp only [List.zip_cons_cons, List.lookup, List.getElem_cons_succ, hne]
    exact lookup_zip_nodup ns vs d (by simpa using h1) (by simpa using h2) (List.nodup_cons.mp hnd).2

/-- the sub-grid's own size function -/
abbrev subSize (sz : Nat → Nat) (sels : List (List Nat)) : Nat → Nat := s' sz (selPred sels)

/-- the dimensions that remain multi-valued, fastest first -/
def keptRate (sz : Nat → Nat) (rate : List Nat) (sels : List (List Nat)) : List Nat :=
  rate.filter (fun d => decide (subSize sz sels d ≥ 2))

theorem periodic_eq_gridRow (f : Nat → Nat) (rate : List Nat) (d : Nat) (hd : d ∈ rate) :
    periodicRow (strideBefore f rate d) (f d) (postProd f rate d) = gridRow f rate d := by
  unfold periodicRow gridRow gridIdx npoints
  rw [← prod_split3 f rate d hd]

/-- **The dimensions handed to the writer for a sliced side**: the multi-valued dimensions in rate order
    (fastest first), each with its label, unit and the reference values at its selected indices; the
    placeholder when none remains. -/
theorem dimsForSlice_grid (sz : Nat → Nat) (rate : List Nat) (k : Nat) (V : Nat → List Int) (sels : List (List Nat))
    (labels units : List String) (hperm : rate.Perm (List.range k)) (hk : sels.length = k) (hkpos : 0 < k)
    (hl : labels.length = k) (hnd : labels.Nodup)
    (hsel : ∀ d ∈ rate, 0 < subSize sz sels d) :
    dimsForSlice ⟨labels, units, pointMatrix sz rate k, pointValues sz rate k V⟩
        (selectedRows (pointMatrix sz rate k) sels) =
      .ok (if (keptRate sz rate sels).isEmpty then [{ name := "arb.", units := "a. u.", values := [4] }]
           else (keptRate sz rate sels).map (fun d =>
             { name := labels.getD d "", units := units.getD d "", values := Wsel sz (selPred sels) V d })) := by
  have hnd' : rate.Nodup := hperm.nodup_iff.mpr List.nodup_range
  have huv := unit_values_sliced sz rate k V sels labels hperm hk hkpos hl hnd hsel
  simp only at huv
  unfold dimsForSlice
  simp only [huv, bind, Except.bind, pure, Except.pure]
  -- the unit values found for dimension d
  have hlook : ∀ d, d < k → ((labels.zip ((List.range k).map (Wsel sz (selPred sels) V))).lookup (labels.getD d "")).getD [] =
      Wsel sz (selPred sels) V d := by
    intro d hd
    have h1 : d < labels.length := by rw [hl]; exact hd
    rw [List.getD_eq_getElem?_getD, List.getElem?_eq_getElem h1]
    simp only [Option.getD_some]
    rw [lookup_zip_nodup labels _ d h1 (by simpa using hd) hnd]
    simp
  have hWlen : ∀ d, (Wsel sz (selPred sels) V d).length = subSize sz sels d := by intro d; simp [Wsel, s', subSize]
  have hkept : (List.range labels.length).filter (fun d =>
        decide ((((labels.zip ((List.range k).map (Wsel sz (selPred sels) V))).lookup (labels.getD d "")).getD []).length ≥ 2)) =
      (List.range k).filter (fun d => decide (subSize sz sels d ≥ 2)) := by
    rw [hl]
    apply List.filter_congr
    intro d hd
    rw [hlook d (List.mem_range.mp hd), hWlen]
  simp only [hkept]
  have hkperm : ((List.range k).filter (fun d => decide (subSize sz sels d ≥ 2))).Perm (keptRate sz rate sels) :=
    hperm.symm.filter _
  by_cases hempty : (keptRate sz rate sels).isEmpty = true
  · have : ((List.range k).filter (fun d => decide (subSize sz sels d ≥ 2))).isEmpty = true := by
      rw [List.isEmpty_iff] at hempty ⊢
      rw [hempty] at hkperm; exact hkperm.eq_nil
    simp only [this, hempty, if_true]
  · have hne : ((List.range k).filter (fun d => decide (subSize sz sels d ≥ 2))).isEmpty = false := by
      cases h : ((List.range k).filter (fun d => decide (subSize sz sels d ≥ 2))).isEmpty
      · rfl
      · rw [List.isEmpty_iff] at h
        rw [h] at hkperm
        have := hkperm.symm.eq_nil
        rw [this] at hempty; simp at hempty
    have hempty' : (keptRate sz rate sels).isEmpty = false := by simpa using hempty
    simp only [hne, hempty', Bool.false_eq_true, if_false]
    -- the change counts of the kept dimensions
    have hchanges : ((List.range k).filter (fun d => decide (subSize sz sels d ≥ 2))).map (fun d =>
          ((List.range (((pickRows (pointMatrix sz rate k) (selectedRows (pointMatrix sz rate k) sels)).map
              (fun row => row.getD d 0)).length - 1)).filter (fun i =>
            ((pickRows (pointMatrix sz rate k) (selectedRows (pointMatrix sz rate k) sels)).map (fun row => row.getD d 0)).getD (i + 1) 0 !=
            ((pickRows (pointMatrix sz rate k) (selectedRows (pointMatrix sz rate k) sels)).map (fun row => row.getD d 0)).getD i 0)).length) =
        ((List.range k).filter (fun d => decide (subSize sz sels d ≥ 2))).map
          (fun d => noWrapCount (gridRow (subSize sz sels) rate d)) := by
      apply List.map_congr_left
      intro d hd
      have hdk : d < k := List.mem_range.mp (List.mem_filter.mp hd).1
      have hdr : d ∈ rate := hperm.symm.subset (List.mem_range.mpr hdk)
      have hcol : (pickRows (pointMatrix sz rate k) (selectedRows (pointMatrix sz rate k) sels)).map (fun row => row.getD d 0) =
          (gridRow (subSize sz sels) rate d).map (fun j => (L sz (selPred sels) d).getD j 0) := by
        rw [← periodic_eq_gridRow (subSize sz sels) rate d hdr, ← sliced_index_column sz (selPred sels) rate k d hperm hdk,
          selectedRows_eq sz rate k sels hperm hk]
        simp [pickRows, List.map_map, Function.comp_def]
      rw [hcol]
      show noWrapCount ((gridRow (subSize sz sels) rate d).map _) = _
      apply noWrap_map
      rw [← periodic_eq_gridRow (subSize sz sels) rate d hdr]
      exact L_strict sz _ d _ (periodicRow_lt _ _ _ (hsel d hdr))
    rw [hchanges]
    have hranked := ranked_eq (subSize sz sels) rate k hperm (fun e he => hsel e he)
      (fun d => noWrapCount (gridRow (subSize sz sels) rate d))
      (fun d hd hbig => noWrap_gridRow (subSize sz sels) rate d hnd' hd (fun e he => hsel e he) hbig)
    rw [hranked]
    congr 1
    apply List.map_congr_left
    intro d hd
    have hdk : d < k := List.mem_range.mp (hperm.subset (List.mem_filter.mp hd).1)
    rw [hlook d hdk]

/-- dropping single-valued dimensions does not change a stride -/
theorem stride_keptRate (sz : Nat → Nat) (rate : List Nat) (sels : List (List Nat)) (pre post : List Nat) (d : Nat)
    (e : rate = pre ++ d :: post) (hpos : ∀ x ∈ rate, 0 < subSize sz sels x) :
    ((pre.filter (fun x => decide (subSize sz sels x ≥ 2))).map (subSize sz sels)).prod = ((pre.map (subSize sz sels)).prod) := by
  have hp : ∀ x ∈ pre, 1 ≤ subSize sz sels x := fun x hx => hpos x (e ▸ List.mem_append_left _ hx)
  rw [prod_filter_big (subSize sz sels) pre hp]
  have hf : pre.filter (fun x => decide (subSize sz sels x ≥ 2)) = pre.filter (fun x => decide (1 < subSize sz sels x)) := by
    apply List.filter_congr
    intro x _
    by_cases h : subSize sz sels x ≥ 2
    · have : 1 < subSize sz sels x := by omega
      simp [h, this]
    · have : ¬ 1 < subSize sz sels x := by omega
      simp [h, this]
  rw [hf]

/-- **Coordinates of the rebuilt side.**  For every dimension `d` that remains multi-valued there is a stored
    row `j` of the freshly written ancillaries carrying the label and unit of `d`, and at every column `i`
    (the i-th selected row of the source, in increasing order) its value is the source's value of `d` at
    that row.  So every selected element keeps the value of every remaining dimension. -/
theorem written_side_values (sz : Nat → Nat) (rate : List Nat) (k : Nat) (V : Nat → List Int) (sels : List (List Nat))
    (labels units : List String) (hperm : rate.Perm (List.range k)) (hk : sels.length = k)
    (hsel : ∀ d ∈ rate, 0 < subSize sz sels d) (d : Nat) (hd : d ∈ keptRate sz rate sels) :
    let dims := (keptRate sz rate sels).map (fun d =>
      ({ name := labels.getD d "", units := units.getD d "", values := Wsel sz (selPred sels) V d } : Usid.Anc.Dim))
    let w := Usid.Anc.writeIndVal dims false
    let rows := selectedRows (pointMatrix sz rate k) sels
    ∃ (j : Nat) (rv : List Int), w.labels[j]? = some (labels.getD d "") ∧ w.units[j]? = some (units.getD d "") ∧
      w.values[j]? = some rv ∧
      ∀ i, i < rows.length → rv[i]? = some (((pointValues sz rate k V).getD (rows.getD i 0) []).getD d 0) := by
  intro dims w rows
  have hnd : rate.Nodup := hperm.nodup_iff.mpr List.nodup_range
  have hdr : d ∈ rate := (List.mem_filter.mp hd).1
  have hdk : d < k := List.mem_range.mp (hperm.subset hdr)
  have hbig : subSize sz sels d ≥ 2 := by have := (List.mem_filter.mp hd).2; simpa using this
  -- split the rate order (and with it the kept list) at d
  obtain ⟨pre, post, e, hpre⟩ := split_of_mem rate d hdr
  have hkr : keptRate sz rate sels = pre.filter (fun x => decide (subSize sz sels x ≥ 2)) ++
      d :: post.filter (fun x => decide (subSize sz sels x ≥ 2)) := by
    unfold keptRate
    rw [e, List.filter_append, List.filter_cons]
    simp [hbig]
  let preK := pre.filter (fun x => decide (subSize sz sels x ≥ 2))
  let postK := post.filter (fun x => decide (subSize sz sels x ≥ 2))
  let mk : Nat → Usid.Anc.Dim := fun d =>
    { name := labels.getD d "", units := units.getD d "", values := Wsel sz (selPred sels) V d }
  have hdims : dims = preK.map mk ++ mk d :: postK.map mk := by
    show (keptRate sz rate sels).map mk = _
    rw [hkr]; simp [preK, postK]
  have hrev : dims.reverse = (postK.map mk).reverse ++ mk d :: (preK.map mk).reverse := by
    rw [hdims]; simp
  have hj : (postK.map mk).reverse.length < dims.reverse.length := by rw [hrev]; simp
  have hposd : ∀ dm ∈ dims, 0 < dm.values.length := by
    intro dm hdm
    obtain ⟨x, hx, rfl⟩ := List.mem_map.mp hdm
    simp only [Wsel, List.length_map]
    exact hsel x (List.mem_filter.mp hx).1
  have hWlen : ∀ x, (mk x).values.length = subSize sz sels x := by intro x; simp [mk, Wsel, s', subSize]
  have hprodAll : (dims.reverse.map (fun dm => dm.values.length)).prod = (rate.map (subSize sz sels)).prod := by
    rw [List.map_reverse, (List.reverse_perm _).prod_nat]
    show (((keptRate sz rate sels).map mk).map (fun dm => dm.values.length)).prod = _
    rw [List.map_map]
    have : (fun dm => dm.values.length) ∘ mk = subSize sz sels := by funext x; exact hWlen x
    rw [this]
    unfold keptRate
    have := prod_filter_big (subSize sz sels) rate (fun x hx => hsel x hx)
    rw [this]
    have hf : rate.filter (fun x => decide (subSize sz sels x ≥ 2)) = rate.filter (fun x => decide (1 < subSize sz sels x)) := by
      apply List.filter_congr
      intro x _
      by_cases h : subSize sz sels x ≥ 2
      · have : 1 < subSize sz sels x := by omega
        simp [h, this]
      · have : ¬ 1 < subSize sz sels x := by omega
        simp [h, this]
    rw [hf]
  have hrowsEq : rows = (List.range (rate.map (subSize sz sels)).prod).map (rho sz (selPred sels) rate) :=
    selectedRows_eq sz rate k sels hperm hk
  have hrowslen : rows.length = (rate.map (subSize sz sels)).prod := by rw [hrowsEq]; simp
  -- C08 on the reversed list at the position of d
  have hDj : dims.reverse[(postK.map mk).reverse.length]'hj = mk d := by
    simp only [hrev]
    rw [List.getElem_append_right (by omega)]
    simp
  have hdrop : ((dims.reverse.drop ((postK.map mk).reverse.length + 1)).map (fun dm => dm.values.length)).prod =
      strideBefore (subSize sz sels) rate d := by
    have hd' : ∀ (A B : List Usid.Anc.Dim) (x : Usid.Anc.Dim), (A ++ x :: B).drop (A.length + 1) = B := by
      intro A B x; simp
    rw [hrev, hd', List.map_reverse, (List.reverse_perm _).prod_nat, List.map_map]
    have : (fun dm => dm.values.length) ∘ mk = subSize sz sels := by funext x; exact hWlen x
    rw [this, e, stride_split _ pre post d hpre]
    exact stride_keptRate sz rate sels pre post d e hsel
  refine ⟨(postK.map mk).reverse.length, ?_⟩
  -- use any column (0) to extract the row lists from C08, then the per-column statement
  have hN' : 0 < (rate.map (subSize sz sels)).prod := prod_pos_of_forall _ rate hsel
  obtain ⟨hlab, hun, ri0, rv, h1, h2, _, _⟩ := Usid.C08.written_slowest_first dims false (postK.map mk).reverse.length 0 hposd
    dims.reverse (by simp) hj (by rw [hprodAll]; exact hN')
  refine ⟨rv, ?_, ?_, h2, ?_⟩
  · show (Usid.Anc.writeIndVal dims false).labels[_]? = _
    rw [hlab, List.getElem?_map, List.getElem?_eq_getElem hj, hDj]; rfl
  · show (Usid.Anc.writeIndVal dims false).units[_]? = _
    rw [hun, List.getElem?_map, List.getElem?_eq_getElem hj, hDj]; rfl
  · intro i hi
    rw [hrowslen] at hi
    obtain ⟨_, _, ri', rv', _, h2', _, h4⟩ := Usid.C08.written_slowest_first dims false (postK.map mk).reverse.length i hposd
      dims.reverse (by simp) hj (by rw [hprodAll]; exact hi)
    have hsame : rv' = rv := by rw [h2] at h2'; injection h2' with h; exact h.symm
    rw [← hsame, h4, hdrop, hDj, hWlen d]
    -- the value: W_d at the sub-grid digit = V_d at the source index of the i-th selected row
    have hri : rows.getD i 0 = rho sz (selPred sels) rate i := by
      rw [hrowsEq, List.getD_eq_getElem?_getD, List.getElem?_map, List.getElem?_range hi]; rfl
    have hrl := rho_lt sz (selPred sels) rate hnd i hi
    have e1 : ((pointValues sz rate k V).getD (rho sz (selPred sels) rate i) []).getD d 0 =
        (V d).getD (gridIdx sz rate (rho sz (selPred sels) rate i) d) 0 := by
      simp [pointValues, List.getD_eq_getElem?_getD, List.getElem?_range hrl, List.getElem?_range hdk]
    rw [hri, e1, gridIdx_rho sz (selPred sels) rate hnd i d hdr hi]
    have hdig : i / strideBefore (subSize sz sels) rate d % subSize sz sels d < (L sz (selPred sels) d).length :=
      Nat.mod_lt _ (hsel d hdr)
    show (Wsel sz (selPred sels) V d)[_]? = _
    simp [Wsel, List.getElem?_map, List.getElem?_eq_getElem hdig, List.getD_eq_getElem?_getD, subSize]

end Usid.SliceTo
