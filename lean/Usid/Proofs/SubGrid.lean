import Usid.Proofs.UnitValues
import Usid.Basic.Grid
/-! The rows of a regular grid selected by a product of per-dimension index sets form, in increasing order,
    a regular SUB-grid with the same rate order (C11).  `p d j` says whether index `j` of dimension `d` is
    selected; `L d` is the increasing list of selected indices of `d`. -/
namespace Usid.SubGrid
open Usid Usid.Grid Usid.UV

/-- selected indices of dimension `d`, increasing -/
def L (sz : Nat → Nat) (p : Nat → Nat → Bool) (d : Nat) : List Nat := (List.range (sz d)).filter (p d)

/-- number of selected indices -/
def s' (sz : Nat → Nat) (p : Nat → Nat → Bool) (d : Nat) : Nat := (L sz p d).length

/-- the row of the full grid that is point `i` of the sub-grid (`rate` lists dimensions fastest first) -/
def rho (sz : Nat → Nat) (p : Nat → Nat → Bool) : List Nat → Nat → Nat
  | [], _ => 0
  | d :: rest, i => (L sz p d).getD (i % s' sz p d) 0 + sz d * rho sz p rest (i / s' sz p d)

/-- a row is selected when the index of every dimension is selected -/
def selRow (sz : Nat → Nat) (p : Nat → Nat → Bool) (rate : List Nat) (r : Nat) : Bool :=
  rate.all (fun d => p d (gridIdx sz rate r d))

theorem gridIdx_cons_self (sz : Nat → Nat) (d : Nat) (rest : List Nat) (r : Nat) :
    gridIdx sz (d :: rest) r d = r % sz d := by
  simp [gridIdx, strideBefore, List.takeWhile]

theorem gridIdx_cons_ne (sz : Nat → Nat) (d e : Nat) (rest : List Nat) (r : Nat) (h : e ≠ d) :
    gridIdx sz (d :: rest) r e = gridIdx sz rest (r / sz d) e := by
  have : (d != e) = true := by simpa using (Ne.symm h)
  simp [gridIdx, strideBefore, List.takeWhile, this, Nat.div_div_eq_div_mul]

/-- selection of a row of `d :: rest` splits into the fastest dimension and the rest -/
theorem selRow_cons (sz : Nat → Nat) (p : Nat → Nat → Bool) (d : Nat) (rest : List Nat) (hd : d ∉ rest) (r : Nat) :
    selRow sz p (d :: rest) r = (p d (r % sz d) && selRow sz p rest (r / sz d)) := by
  unfold selRow
  rw [List.all_cons, gridIdx_cons_self]
  congr 1
  rw [Bool.eq_iff_iff]
  simp only [List.all_eq_true]
  constructor
  · intro H e he
    rw [← gridIdx_cons_ne sz d e rest r (fun h => hd (h ▸ he))]; exact H e he
  · intro H e he
    rw [gridIdx_cons_ne sz d e rest r (fun h => hd (h ▸ he))]; exact H e he

theorem flatMap_if_filter {β γ : Type} (c : β → Bool) (f : β → List γ) : ∀ (l : List β),
    l.flatMap (fun t => if c t then f t else []) = (l.filter c).flatMap f
  | [] => rfl
  | x :: xs => by
    rw [List.flatMap_cons, flatMap_if_filter c f xs, List.filter_cons]
    by_cases h : c x = true <;> simp [h]

theorem list_eq_range_map (l : List Nat) : l = (List.range l.length).map (fun t => l.getD t 0) := by
  apply List.ext_getElem
  · simp
  · intro i h1 h2
    simp [List.getD_eq_getElem?_getD, List.getElem?_eq_getElem h1]

/-- **The selected rows form a sub-grid.**  In increasing order, the rows whose every index is selected are
    exactly `rho 0, rho 1, ...`: the sub-grid enumerated with the same rate order. -/
theorem filter_selRow (sz : Nat → Nat) (p : Nat → Nat → Bool) : ∀ (rate : List Nat), rate.Nodup →
    (List.range (rate.map sz).prod).filter (selRow sz p rate) =
      (List.range (rate.map (s' sz p)).prod).map (rho sz p rate)
  | [], _ => by simp [selRow, rho]
  | d :: rest, hnd => by
    have hd : d ∉ rest := (List.nodup_cons.mp hnd).1
    have ih := filter_selRow sz p rest (List.nodup_cons.mp hnd).2
    simp only [List.map_cons, List.prod_cons]
    rw [Nat.mul_comm (sz d), Nat.mul_comm (s' sz p d)]
    rw [filter_range_mul (sz d) (rest.map sz).prod (selRow sz p (d :: rest)) (fun t j => p d j && selRow sz p rest t)]
    · have h1 : ∀ t, ((List.range (sz d)).filter (fun j => p d j && selRow sz p rest t)).map (fun j => t * sz d + j) =
          if selRow sz p rest t then (L sz p d).map (fun j => t * sz d + j) else [] := by
        intro t
        by_cases hc : selRow sz p rest t = true
        · simp only [hc, Bool.and_true, if_true]; rfl
        · have : selRow sz p rest t = false := by simpa using hc
          simp [this]
      simp only [h1]
      rw [flatMap_if_filter, ih, List.flatMap_map, range_mul (s' sz p d), List.map_flatMap]
      apply flatMap_congr_mem
      intro i' _
      rw [List.map_map]
      conv => lhs; rw [list_eq_range_map (L sz p d)]
      rw [List.map_map]
      apply List.map_congr_left
      intro t ht
      have ht' : t < s' sz p d := List.mem_range.mp ht
      simp only [Function.comp_apply, rho]
      have e1 : (i' * s' sz p d + t) % s' sz p d = t := by
        rw [Nat.add_comm, Nat.add_mul_mod_self_right, Nat.mod_eq_of_lt ht']
      have e2 : (i' * s' sz p d + t) / s' sz p d = i' := by
        rw [Nat.add_comm, Nat.add_mul_div_right _ _ (by omega), Nat.div_eq_of_lt ht', Nat.zero_add]
      rw [e1, e2, Nat.mul_comm (sz d), Nat.add_comm]
    · intro t j _ hj
      rw [selRow_cons sz p d rest hd]
      have e1 : (t * sz d + j) % sz d = j := by
        rw [Nat.add_comm, Nat.add_mul_mod_self_right, Nat.mod_eq_of_lt hj]
      have e2 : (t * sz d + j) / sz d = t := by
        rw [Nat.add_comm, Nat.add_mul_div_right _ _ (by omega), Nat.div_eq_of_lt hj, Nat.zero_add]
      rw [e1, e2]

theorem L_lt (sz : Nat → Nat) (p : Nat → Nat → Bool) (d : Nat) : ∀ x ∈ L sz p d, x < sz d := by
  intro x hx; exact List.mem_range.mp (List.mem_filter.mp hx).1

theorem stride_cons_self' (f : Nat → Nat) (d : Nat) (rest : List Nat) : strideBefore f (d :: rest) d = 1 := by
  simp [strideBefore, List.takeWhile]

theorem stride_cons_ne' (f : Nat → Nat) (d e : Nat) (rest : List Nat) (h : e ≠ d) :
    strideBefore f (d :: rest) e = f d * strideBefore f rest e := by
  have : (d != e) = true := by simpa using (Ne.symm h)
  simp [strideBefore, List.takeWhile, this]

/-- **Coordinates of a sub-grid point.**  The index of dimension `d` at the row `rho i` of the full grid is
    the selected index of `d` numbered by the digit of `i` along the sub-grid's own strides. -/
theorem gridIdx_rho (sz : Nat → Nat) (p : Nat → Nat → Bool) : ∀ (rate : List Nat), rate.Nodup → ∀ (i d : Nat), d ∈ rate →
    i < (rate.map (s' sz p)).prod →
    gridIdx sz rate (rho sz p rate i) d =
      (L sz p d).getD (i / strideBefore (s' sz p) rate d % s' sz p d) 0
  | [], _, _, _, hd, _ => by simp at hd
  | d0 :: rest, hnd, i, d, hd, hi => by
    have hd0 : d0 ∉ rest := (List.nodup_cons.mp hnd).1
    simp only [List.map_cons, List.prod_cons] at hi
    have hs0 : 0 < s' sz p d0 := by
      rcases Nat.eq_zero_or_pos (s' sz p d0) with h0 | h0
      · rw [h0] at hi; simp at hi
      · exact h0
    have hfirst : (L sz p d0).getD (i % s' sz p d0) 0 < sz d0 := by
      have hlt : i % s' sz p d0 < (L sz p d0).length := Nat.mod_lt _ hs0
      rw [List.getD_eq_getElem?_getD, List.getElem?_eq_getElem hlt]
      exact L_lt sz p d0 _ (List.getElem_mem hlt)
    have hP : 0 < sz d0 := by omega
    by_cases hdd : d = d0
    · subst hdd
      rw [gridIdx_cons_self, stride_cons_self', Nat.div_one]
      simp only [rho]
      rw [Nat.add_mul_mod_self_left, Nat.mod_eq_of_lt hfirst]
    · have hdr : d ∈ rest := by
        rcases List.mem_cons.mp hd with h | h
        · exact absurd h hdd
        · exact h
      rw [gridIdx_cons_ne sz d0 d rest _ hdd, stride_cons_ne' _ d0 d rest hdd]
      simp only [rho]
      have hq : ((L sz p d0).getD (i % s' sz p d0) 0 + sz d0 * rho sz p rest (i / s' sz p d0)) / sz d0 =
          rho sz p rest (i / s' sz p d0) := by
        rw [Nat.add_mul_div_left _ _ hP, Nat.div_eq_of_lt hfirst, Nat.zero_add]
      rw [hq, gridIdx_rho sz p rest (List.nodup_cons.mp hnd).2 (i / s' sz p d0) d hdr
        ((Nat.div_lt_iff_lt_mul hs0).mpr (by rw [Nat.mul_comm]; exact hi)), Nat.div_div_eq_div_mul]

end Usid.SubGrid
