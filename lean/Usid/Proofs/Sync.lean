import Usid.Model.Sync
/-! For EVERY schedule: in a safe skeleton every rank derives its range before any completion mark is written. -/
namespace Usid.Sync

theorem bb_succ (p : Prog) (t : Nat) :
    barriersBefore p (t + 1) = barriersBefore p t + (if p[t]? = some Instr.barrier then 1 else 0) := by
  unfold barriersBefore
  rw [List.take_add_one, List.filter_append, List.length_append]
  cases h : p[t]? with
  | none => simp
  | some x =>
    cases x <;> simp

theorem bb_mono (p : Prog) (a b : Nat) (h : a ≤ b) : barriersBefore p a ≤ barriersBefore p b := by
  induction b with
  | zero => have : a = 0 := by omega
            subst this; exact Nat.le_refl _
  | succ n ih =>
    rcases Nat.lt_or_ge a (n + 1) with h1 | h1
    · have := ih (by omega)
      rw [bb_succ]; omega
    · have : a = n + 1 := by omega
      subst this; exact Nat.le_refl _

/-- whoever has arrived at the barrier that sits at index `j` has a counter of at least `j` -/
theorem arrived_ge (p : Prog) (j pc : Nat) (hbar : p[j]? = some Instr.barrier)
    (h : arrived p pc (barriersBefore p j) = true) : j ≤ pc := by
  rcases Nat.lt_or_ge pc j with hlt | hge
  · exfalso
    unfold arrived at h
    simp only [Bool.or_eq_true, decide_eq_true_eq, Bool.and_eq_true, beq_iff_eq] at h
    rcases h with h | ⟨h1, h2⟩
    · have := bb_mono p pc j (by omega); omega
    · have hs := bb_succ p pc
      rw [if_pos h2] at hs
      have := bb_mono p (pc + 1) j (by omega)
      omega
  · exact hge

structure Facts (p : Prog) (i j : Nat) : Prop where
  hij : i < j
  hassign : ∀ t, p[t]? = some Instr.assign → t = i
  hbar : p[j]? = some Instr.barrier
  hmark : ∀ t, t < j → p[t]? ≠ some Instr.mark

theorem firstIdx_spec (p : Prog) (x : Instr) (i : Nat) (h : firstIdx p x = some i) :
    p[i]? = some x ∧ ∀ t, t < i → p[t]? ≠ some x := by
  unfold firstIdx at h
  split at h
  · rename_i hlt
    injection h with h
    subst h
    refine ⟨?_, ?_⟩
    · have := List.findIdx_getElem (w := hlt)
      rw [List.getElem?_eq_getElem hlt]
      simpa using this
    · intro t ht hpt
      have := List.not_of_lt_findIdx ht
      have htl : t < p.length := by omega
      rw [List.getElem?_eq_getElem htl] at hpt
      injection hpt with hpt
      simp [hpt] at this
  · cases h

theorem safe_facts (p : Prog) (h : Safe p = true) : ∃ i j, Facts p i j := by
  unfold Safe at h
  cases hi : firstIdx p .assign with
  | none => simp [hi] at h
  | some i =>
    simp only [hi, Bool.and_eq_true] at h
    obtain ⟨hrest, h2⟩ := h
    cases hd : firstIdx (p.drop (i + 1)) .barrier with
    | none => simp [hd] at h2
    | some d =>
      simp only [hd] at h2
      obtain ⟨hpi, hbefore⟩ := firstIdx_spec p .assign i hi
      obtain ⟨hpd, _⟩ := firstIdx_spec (p.drop (i + 1)) .barrier d hd
      refine ⟨i, i + 1 + d, ⟨by omega, ?_, ?_, ?_⟩⟩
      · intro t ht
        rcases Nat.lt_trichotomy t i with h1 | h1 | h1
        · exact absurd ht (hbefore t h1)
        · exact h1
        · exfalso
          have : (p.drop (i + 1))[t - (i + 1)]? = some Instr.assign := by
            rw [List.getElem?_drop]; rw [show i + 1 + (t - (i + 1)) = t by omega]; exact ht
          have hm := List.mem_of_getElem? this
          have := List.all_eq_true.mp hrest _ hm
          simp at this
      · rw [List.getElem?_drop] at hpd; exact hpd
      · intro t ht hpt
        have hm : Instr.mark ∈ p.take (i + 1 + d) := by
          have : (p.take (i + 1 + d))[t]? = some Instr.mark := by
            rw [List.getElem?_take]; simp [ht, hpt]
          exact List.mem_of_getElem? this
        have := List.all_eq_true.mp h2 _ hm
        simp at this

/-- the invariant carried along every schedule -/
structure Inv (n j : Nat) (s : State) : Prop where
  passed : ∀ r, r < n → j < s.pc r → ∀ r', r' < n → j ≤ s.pc r'
  marked : 0 < s.marks → ∃ r, r < n ∧ j < s.pc r
  seen0 : ∀ r, s.seen r = none ∨ s.seen r = some 0

theorem inv_init (n j : Nat) : Inv n j init :=
  ⟨fun r _ h => by simp [init] at h, fun h => by simp [init] at h, fun r => Or.inl rfl⟩

theorem upd_same {β : Type} (f : Nat → β) (r : Nat) (v : β) : upd f r v r = v := by simp [upd]
theorem upd_other {β : Type} (f : Nat → β) (r x : Nat) (v : β) (h : x ≠ r) : upd f r v x = f x := by simp [upd, h]

/-- advancing the counter of rank `r`, which is allowed to move, keeps the first two parts of the invariant -/
theorem inv_advance (p : Prog) (n i j : Nat) (F : Facts p i j) (s : State) (r : Nat) (hr : r < n)
    (hinv : Inv n j s)
    (hgate : s.pc r = j → ∀ r', r' < n → j ≤ s.pc r') :
    (∀ x, x < n → j < upd s.pc r (s.pc r + 1) x → ∀ r', r' < n → j ≤ upd s.pc r (s.pc r + 1) r') := by
  intro x hx hgt r' hr'
  -- every rank is at least at j before the move
  have hall : ∀ y, y < n → j ≤ s.pc y := by
    by_cases hxr : x = r
    · subst hxr
      rw [upd_same] at hgt
      rcases Nat.lt_or_ge j (s.pc x) with h1 | h1
      · exact hinv.passed x hx h1
      · have : s.pc x = j := by omega
        exact hgate this
    · rw [upd_other _ _ _ _ hxr] at hgt
      exact hinv.passed x hx hgt
  by_cases hr'r : r' = r
  · subst hr'r; rw [upd_same]; have := hall r' hr'; omega
  · rw [upd_other _ _ _ _ hr'r]; exact hall r' hr'

theorem inv_step (p : Prog) (n i j : Nat) (F : Facts p i j) (s : State) (r : Nat) (hinv : Inv n j s) :
    Inv n j (step p n s r) := by
  unfold step
  by_cases hc : canStep p n s r = true
  · simp only [hc, if_true]
    unfold canStep at hc
    simp only [Bool.and_eq_true, decide_eq_true_eq] at hc
    obtain ⟨hr, hc2⟩ := hc
    -- the gate: a rank sitting AT index j is at the barrier and moves only when everybody has arrived
    have hgate : s.pc r = j → ∀ r', r' < n → j ≤ s.pc r' := by
      intro hpc r' hr'
      rw [hpc, F.hbar] at hc2
      have := List.all_eq_true.mp hc2 r' (List.mem_range.mpr hr')
      exact arrived_ge p j _ F.hbar this
    have hadv := inv_advance p n i j F s r hr hinv hgate
    -- a witness "somebody is beyond j" survives the move
    have hwit : (∃ x, x < n ∧ j < s.pc x) → ∃ x, x < n ∧ j < upd s.pc r (s.pc r + 1) x := by
      rintro ⟨x, hx, hgt⟩
      by_cases hxr : x = r
      · subst hxr; exact ⟨x, hx, by rw [upd_same]; omega⟩
      · exact ⟨x, hx, by rw [upd_other _ _ _ _ hxr]; exact hgt⟩
    cases hins : p[s.pc r]? with
    | none => simp [hins] at hc2
    | some ins =>
      cases ins with
      | assign =>
        simp only []
        refine ⟨hadv, fun h => hwit (hinv.marked h), ?_⟩
        intro x
        dsimp only
        by_cases hxr : x = r
        · subst hxr
          rw [upd_same]
          -- the rank is at index i < j: had a mark been written, everybody would be at j or beyond
          have hpi : s.pc x = i := F.hassign _ hins
          rcases Nat.eq_zero_or_pos s.marks with h0 | hpos
          · right; rw [h0]
          · exfalso
            obtain ⟨y, hy, hgt⟩ := hinv.marked hpos
            have := hinv.passed y hy hgt x hr
            have := F.hij
            omega
        · rw [upd_other _ _ _ _ hxr]; exact hinv.seen0 x
      | mark =>
        simp only []
        refine ⟨hadv, fun _ => ?_, hinv.seen0⟩
        -- a mark sits beyond j
        have hge : j ≤ s.pc r := by
          rcases Nat.lt_or_ge (s.pc r) j with h1 | h1
          · exact absurd hins (F.hmark _ h1)
          · exact h1
        have hne : s.pc r ≠ j := by
          intro e; rw [e, F.hbar] at hins; cases hins
        exact ⟨r, hr, by dsimp only; rw [upd_same]; omega⟩
      | barrier =>
        simp only []
        exact ⟨hadv, fun h => hwit (hinv.marked h), hinv.seen0⟩
      | other =>
        simp only []
        exact ⟨hadv, fun h => hwit (hinv.marked h), hinv.seen0⟩
  · simp only [hc, Bool.false_eq_true, if_false]
    exact hinv

theorem inv_run (p : Prog) (n i j : Nat) (F : Facts p i j) : ∀ (sched : List Nat) (s : State), Inv n j s →
    Inv n j (run p n s sched)
  | [], s, h => h
  | r :: rest, s, h => inv_run p n i j F rest _ (inv_step p n i j F s r h)

end Usid.Sync
