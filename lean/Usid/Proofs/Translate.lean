import Usid.Model.Translate
import Usid.Proofs.Anc
/-! Lemmas for C19: bounds of selected sub-indices, inverse permutations, mixed-radix digits. -/
namespace Usid.Translate
open Usid Usid.Anc

theorem inBounds_length : ∀ (shape idx : List Nat), InBounds shape idx → shape.length = idx.length
  | [], [], _ => rfl
  | _ :: ss, _ :: is, h => by simp [inBounds_length ss is h.2]
  | [], _ :: _, h => by simp [InBounds] at h
  | _ :: _, [], h => by simp [InBounds] at h

theorem inBounds_getD : ∀ (shape idx : List Nat) (i : Nat), InBounds shape idx → i < shape.length →
    idx.getD i 0 < shape.getD i 1
  | s :: ss, j :: is, 0, h, _ => by simpa using h.1
  | s :: ss, j :: is, i + 1, h, hi => by
    simp only [List.getD_cons_succ]
    exact inBounds_getD ss is i h.2 (by simpa using hi)
  | [], _, _, _, hi => by simp at hi
  | _ :: _, [], _, h, _ => by simp [InBounds] at h

/-- the sub-index of any selection of axes is in bounds of the corresponding sub-shape -/
theorem inBounds_map (shape idx : List Nat) (h : InBounds shape idx) : ∀ (sel : List Nat),
    (∀ i ∈ sel, i < shape.length) →
    InBounds (sel.map (fun ax => shape.getD ax 1)) (sel.map (fun ax => idx.getD ax 0))
  | [], _ => by simp [InBounds]
  | a :: rest, hs => by
    simp only [List.map_cons]
    exact ⟨inBounds_getD shape idx a h (hs a (by simp)), inBounds_map shape idx h rest (fun i hi => hs i (by simp [hi]))⟩

/-- reading the permuted index back through the inverse permutation gives the original index -/
theorem gather_inverse (idx perm : List Nat) (hall : ∀ i, i < idx.length → i ∈ perm) :
    gatherIdx (inversePerm idx.length perm) (perm.map (fun ax => idx.getD ax 0)) = idx := by
  apply List.ext_getElem
  · simp [gatherIdx, inversePerm]
  · intro i h1 h2
    simp only [gatherIdx, inversePerm, List.getElem_map, List.getElem_range, List.map_map, Function.comp_apply]
    have hm := hall i h2
    have hlt : perm.idxOf i < perm.length := List.idxOf_lt_length_of_mem hm
    rw [List.getD_eq_getElem?_getD, List.getElem?_map, List.getElem?_eq_getElem hlt]
    simp only [Option.map_some, Option.getD_some, List.getElem_idxOf hlt]
    rw [List.getD_eq_getElem?_getD, List.getElem?_eq_getElem h2]; rfl

theorem mem_spatial_or_spectral (axes : List Axis) (i : Nat) (hi : i < axes.length) :
    i ∈ spatialIdx axes ++ spectralIdx axes := by
  simp only [spatialIdx, spectralIdx, List.mem_append, List.mem_filter, List.mem_range]
  cases isSpatial axes i <;> simp [hi]

theorem spatial_lt (axes : List Axis) : ∀ i ∈ spatialIdx axes, i < axes.length := by
  intro i hi; simp only [spatialIdx, List.mem_filter, List.mem_range] at hi; exact hi.1

theorem spectral_lt (axes : List Axis) : ∀ i ∈ spectralIdx axes, i < axes.length := by
  intro i hi; simp only [spectralIdx, List.mem_filter, List.mem_range] at hi; exact hi.1

/-- digit `j` of the C-order flat index of an in-bounds multi-index is component `j` -/
theorem ravelC_digit : ∀ (shape idx : List Nat) (j : Nat), InBounds shape idx → j < shape.length →
    ravelC shape idx / (shape.drop (j + 1)).prod % shape.getD j 1 = idx.getD j 0
  | s :: ss, i :: is, 0, hb, _ => by
    have hlt := ravelC_lt ss is hb.2
    have hp : 0 < ss.prod := by omega
    simp only [ravelC, List.drop_succ_cons, List.drop_zero, List.getD_cons_zero]
    rw [Nat.mul_comm, Nat.mul_add_div hp, Nat.div_eq_of_lt hlt, Nat.add_zero, Nat.mod_eq_of_lt hb.1]
  | s :: ss, i :: is, j + 1, hb, hj => by
    have ih := ravelC_digit ss is j hb.2 (by simpa using hj)
    have hj' : j < ss.length := by simpa using hj
    simp only [ravelC, List.drop_succ_cons, List.getD_cons_succ]
    -- ss.prod = (take (j+1)).prod * (drop (j+1)).prod, and (take (j+1)).prod is a multiple of ss[j]
    have hsplit : ss.prod = (ss.take (j + 1)).prod * (ss.drop (j + 1)).prod := by
      rw [← List.prod_append, List.take_append_drop]
    have htake : (ss.take (j + 1)).prod = (ss.take j).prod * ss.getD j 1 := by
      rw [List.take_succ_eq_append_getElem hj', List.prod_append]
      simp [List.getD_eq_getElem?_getD, List.getElem?_eq_getElem hj']
    have hlt := ravelC_lt ss is hb.2
    have hD : 0 < (ss.drop (j + 1)).prod := by
      rcases Nat.eq_zero_or_pos (ss.drop (j + 1)).prod with h0 | h0
      · rw [hsplit, h0] at hlt; simp at hlt
      · exact h0
    rw [hsplit, htake]
    have e : i * ((ss.take j).prod * ss.getD j 1 * (ss.drop (j + 1)).prod) + ravelC ss is =
        (ss.drop (j + 1)).prod * (i * (ss.take j).prod * ss.getD j 1) + ravelC ss is := by
      rw [Nat.mul_comm ((ss.drop (j + 1)).prod)]
      simp only [Nat.mul_assoc]
    rw [e, Nat.mul_add_div hD, Nat.add_comm, Nat.add_mul_mod_self_right]
    exact ih
  | [], _, _, _, hj => by simp at hj
  | _ :: _, [], _, hb, _ => by simp [InBounds] at hb

end Usid.Translate
